#!/bin/bash
# Build the libFuzzer targets (release, no debug assertions) against /repo's working tree:
#   ffi      with AddressSanitizer + LeakSanitizer   -> target/x86_64-unknown-linux-gnu/release/ffi
#   history  without sanitizer (C01 is about panics) -> target-nosan/x86_64-unknown-linux-gnu/release/history
set -e
cd "$(dirname "$0")"
export CARGO_NET_OFFLINE=true
[ -f Cargo.lock ] || cp /repo/Cargo.lock Cargo.lock
log=$(mktemp)
if ! cargo +nightly fuzz build -O --fuzz-dir "$(pwd)" ffi >"$log" 2>&1; then tail -n 40 "$log"; rm -f "$log"; exit 1; fi
if ! cargo +nightly fuzz build -O -s none --fuzz-dir "$(pwd)" --target-dir "$(pwd)/target-nosan" history >"$log" 2>&1; then tail -n 40 "$log"; rm -f "$log"; exit 1; fi
rm -f "$log"
