//! C01 (thorough tier) — byte-coded in-contract event histories against the context API.
//! Any panic aborts (libFuzzer saves the input).  A fresh context and an emptied user directory
//! per iteration: no state leaks between iterations.
//!
//! Byte code: [layout][bits lo][bits hi] then ops: opcode byte (low nibble) + operands.
#![no_main]
use libfuzzer_sys::fuzz_target;
use riti::{config::Config, context::RitiContext};
use std::ffi::CString;
use std::os::raw::c_char;
use std::sync::OnceLock;

#[allow(improper_ctypes)]
extern "C" {
    fn riti_config_new() -> *mut Config;
    fn riti_config_set_layout_file(p: *mut Config, path: *const c_char) -> bool;
    fn riti_config_set_database_dir(p: *mut Config, path: *const c_char) -> bool;
    fn riti_config_set_suggestion_include_english(p: *mut Config, o: bool);
    fn riti_config_set_phonetic_suggestion(p: *mut Config, o: bool);
    fn riti_config_set_fixed_suggestion(p: *mut Config, o: bool);
    fn riti_config_set_fixed_auto_vowel(p: *mut Config, o: bool);
    fn riti_config_set_fixed_auto_chandra(p: *mut Config, o: bool);
    fn riti_config_set_fixed_traditional_kar(p: *mut Config, o: bool);
    fn riti_config_set_fixed_old_reph(p: *mut Config, o: bool);
    fn riti_config_set_fixed_numpad(p: *mut Config, o: bool);
    fn riti_config_set_fixed_old_kar_order(p: *mut Config, o: bool);
    fn riti_config_set_ansi_encoding(p: *mut Config, o: bool);
    fn riti_config_set_smart_quote(p: *mut Config, o: bool);
}

fn key_codes() -> &'static Vec<u16> {
    static K: OnceLock<Vec<u16>> = OnceLock::new();
    K.get_or_init(|| {
        let h = std::fs::read_to_string("/repo/include/riti.h").expect("riti.h");
        h.lines()
            .filter_map(|l| l.strip_prefix("#define VC_"))
            .filter_map(|r| r.split_whitespace().nth(1).and_then(|n| n.parse().ok()))
            .collect()
    })
}

fn xdg() -> &'static String {
    static X: OnceLock<String> = OnceLock::new();
    X.get_or_init(|| {
        let base = std::env::var("VERIF_FUZZ_XDG").unwrap_or_else(|_| {
            let root = if std::path::Path::new("/dev/shm").is_dir() { "/dev/shm" } else { "/verif/.scratch" };
            format!("{root}/riti-fuzz-history-{}", std::process::id())
        });
        std::fs::create_dir_all(format!("{base}/openbangla-keyboard")).expect("xdg dir");
        std::env::set_var("XDG_DATA_HOME", &base);
        base
    })
}

fn allow_data() -> bool {
    static A: OnceLock<bool> = OnceLock::new();
    *A.get_or_init(|| std::env::var("VERIF_FUZZ_DATA").map(|v| v == "allow").unwrap_or(false))
}

fn mk_config(layout: u8, bits: u16, data: bool) -> Box<Config> {
    let layouts = ["avro_phonetic", "/repo/data/Probhat.json", "/verif/layouts/synthetic.json"];
    unsafe {
        let p = riti_config_new();
        let l = CString::new(layouts[layout as usize % 3]).unwrap();
        assert!(riti_config_set_layout_file(p, l.as_ptr()));
        if data {
            let d = CString::new("/repo/data").unwrap();
            assert!(riti_config_set_database_dir(p, d.as_ptr()));
        }
        riti_config_set_suggestion_include_english(p, bits & 1 != 0);
        riti_config_set_phonetic_suggestion(p, bits & 2 != 0);
        riti_config_set_fixed_suggestion(p, bits & 4 != 0);
        riti_config_set_fixed_auto_vowel(p, bits & 8 != 0);
        riti_config_set_fixed_auto_chandra(p, bits & 16 != 0);
        riti_config_set_fixed_traditional_kar(p, bits & 32 != 0);
        riti_config_set_fixed_old_reph(p, bits & 64 != 0);
        riti_config_set_fixed_numpad(p, bits & 128 != 0);
        riti_config_set_fixed_old_kar_order(p, bits & 256 != 0);
        riti_config_set_ansi_encoding(p, bits & 512 != 0);
        riti_config_set_smart_quote(p, bits & 1024 != 0);
        Box::from_raw(p)
    }
}

fn run(d: &[u8]) -> Option<()> {
    let base = xdg();
    let _ = std::fs::remove_file(format!("{base}/openbangla-keyboard/phonetic-candidate-selection.json"));
    let _ = std::fs::remove_file(format!("{base}/openbangla-keyboard/autocorrect.json"));
    let keys = key_codes();
    let mut i = 0usize;
    let mut next = || {
        let b = d.get(i).copied();
        i += 1;
        b
    };
    let layout = next()?;
    let bits = u16::from(next()?) | (u16::from(next()?) << 8);
    // bit 15 of the option word: load the bundled data (slow under ASan) or not
    let data = bits & 0x8000 != 0 && allow_data();
    let mut cfg = mk_config(layout, bits, data);
    let mut ctx = RitiContext::new_with_config(&cfg);
    let mut choices = 0usize; // of the last suggestion of the current word
    let mut ops = 0;
    while ops < 96 {
        ops += 1;
        match next()? & 15 {
            0..=7 => {
                let (k, m, sel) = (next()?, next()?, next()?);
                let s = ctx.get_suggestion_for_key(keys[k as usize % keys.len()], m, sel);
                choices = if s.is_lonely() { usize::from(!s.is_empty()) } else { s.len() };
            }
            8 | 9 => {
                let s = ctx.backspace_event(false);
                choices = if s.is_lonely() { usize::from(!s.is_empty()) } else { s.len() };
            }
            10 => {
                let s = ctx.backspace_event(true);
                choices = if s.is_lonely() { usize::from(!s.is_empty()) } else { s.len() };
            }
            11 | 12 => {
                let f = next()?;
                if choices > 0 {
                    ctx.candidate_committed((f as usize * choices) >> 8);
                    choices = 0;
                }
            }
            13 => {
                ctx.finish_input_session();
                choices = 0;
            }
            14 => {
                let (l, lo, hi) = (next()?, next()?, next()?);
                if !ctx.ongoing_input_session() {
                    cfg = mk_config(l, u16::from(lo) | (u16::from(hi) << 8), data);
                    ctx.update_engine(&cfg);
                    choices = 0;
                }
            }
            _ => {
                ctx = RitiContext::new_with_config(&cfg);
                choices = 0;
            }
        }
    }
    Some(())
}

fuzz_target!(|data: &[u8]| {
    let _ = run(data);
});
