//! C19 — byte-coded call sequences over all 33 extern "C" functions, run under ASan + LSan.
//!
//! Byte code (hand-decoded so that the stable harness can generate the same format):
//! every op is one opcode byte (low nibble) followed by its operand bytes; decoding stops when
//! the bytes run out or after 64 ops.  The decoder only produces in-contract calls: valid
//! handles, indices below the length, no double free; everything still live is freed at the end.
#![no_main]
use libfuzzer_sys::fuzz_target;
use riti::{config::Config, context::RitiContext, suggestion::Suggestion};
use std::ffi::{CStr, CString};
use std::os::raw::c_char;
use std::sync::OnceLock;

#[allow(improper_ctypes)]
extern "C" {
    fn riti_config_new() -> *mut Config;
    fn riti_config_free(p: *mut Config);
    fn riti_config_set_layout_file(p: *mut Config, path: *const c_char) -> bool;
    fn riti_config_set_database_dir(p: *mut Config, path: *const c_char) -> bool;
    fn riti_config_set_suggestion_include_english(p: *mut Config, o: bool);
    fn riti_config_set_phonetic_suggestion(p: *mut Config, o: bool);
    fn riti_config_set_fixed_suggestion(p: *mut Config, o: bool);
    fn riti_config_set_fixed_auto_vowel(p: *mut Config, o: bool);
    fn riti_config_set_fixed_auto_chandra(p: *mut Config, o: bool);
    fn riti_config_set_fixed_traditional_kar(p: *mut Config, o: bool);
    fn riti_config_set_fixed_old_reph(p: *mut Config, o: bool);
    fn riti_config_set_fixed_numpad(p: *mut Config, o: bool);
    fn riti_config_set_fixed_old_kar_order(p: *mut Config, o: bool);
    fn riti_config_set_ansi_encoding(p: *mut Config, o: bool);
    fn riti_config_set_smart_quote(p: *mut Config, o: bool);
    fn riti_context_new_with_config(p: *const Config) -> *mut RitiContext;
    fn riti_context_free(p: *mut RitiContext);
    fn riti_get_suggestion_for_key(p: *mut RitiContext, k: u16, m: u8, s: u8) -> *mut Suggestion;
    fn riti_context_candidate_committed(p: *mut RitiContext, i: usize);
    fn riti_context_update_engine(p: *mut RitiContext, c: *const Config);
    fn riti_context_ongoing_input_session(p: *mut RitiContext) -> bool;
    fn riti_context_finish_input_session(p: *mut RitiContext);
    fn riti_context_backspace_event(p: *mut RitiContext, ctrl: bool) -> *mut Suggestion;
    fn riti_suggestion_free(p: *mut Suggestion);
    fn riti_suggestion_get_suggestion(p: *const Suggestion, i: usize) -> *mut c_char;
    fn riti_suggestion_get_lonely_suggestion(p: *const Suggestion) -> *mut c_char;
    fn riti_suggestion_get_auxiliary_text(p: *const Suggestion) -> *mut c_char;
    fn riti_suggestion_get_pre_edit_text(p: *const Suggestion, i: usize) -> *mut c_char;
    fn riti_string_free(p: *mut c_char);
    fn riti_suggestion_previously_selected_index(p: *const Suggestion) -> usize;
    fn riti_suggestion_get_length(p: *const Suggestion) -> usize;
    fn riti_suggestion_is_lonely(p: *const Suggestion) -> bool;
    fn riti_suggestion_is_empty(p: *const Suggestion) -> bool;
}

const VC_D: u16 = 0xA099;

fn key_codes() -> &'static Vec<u16> {
    static K: OnceLock<Vec<u16>> = OnceLock::new();
    K.get_or_init(|| {
        let h = std::fs::read_to_string("/repo/include/riti.h").expect("riti.h");
        h.lines()
            .filter_map(|l| l.strip_prefix("#define VC_"))
            .filter_map(|r| r.split_whitespace().nth(1).and_then(|n| n.parse().ok()))
            .collect()
    })
}

fn xdg() -> &'static String {
    static X: OnceLock<String> = OnceLock::new();
    X.get_or_init(|| {
        let base = std::env::var("VERIF_FUZZ_XDG").unwrap_or_else(|_| {
            let root = if std::path::Path::new("/dev/shm").is_dir() { "/dev/shm" } else { "/verif/.scratch" };
            format!("{root}/riti-fuzz-ffi-{}", std::process::id())
        });
        std::fs::create_dir_all(format!("{base}/openbangla-keyboard")).expect("xdg dir");
        std::env::set_var("XDG_DATA_HOME", &base);
        base
    })
}

fn allow_data() -> bool {
    static A: OnceLock<bool> = OnceLock::new();
    *A.get_or_init(|| std::env::var("VERIF_FUZZ_DATA").map(|v| v == "allow").unwrap_or(false))
}

struct Paths {
    layouts: Vec<CString>,
    data: Vec<CString>,
}

fn paths() -> &'static Paths {
    static P: OnceLock<Paths> = OnceLock::new();
    P.get_or_init(|| Paths {
        layouts: ["avro_phonetic", "/repo/data/Probhat.json", "/verif/layouts/synthetic.json", "/nonexistent/layout.json", "not_a_layout"]
            .iter()
            .map(|s| CString::new(*s).unwrap())
            .collect(),
        data: ["/repo/data", "/nonexistent/data"].iter().map(|s| CString::new(*s).unwrap()).collect(),
    })
}

struct Cfg {
    p: *mut Config,
    ansi: bool,
}

struct Sug {
    p: *mut Suggestion,
    snap: Vec<String>,
    choices: usize,
}

unsafe fn take(p: *mut c_char, keep: &mut Vec<*mut c_char>) -> String {
    assert!(!p.is_null(), "null string returned");
    let s = CStr::from_ptr(p).to_str().expect("returned string is not valid UTF-8").to_string();
    if keep.len() < 32 {
        keep.push(p);
    } else {
        riti_string_free(p);
    }
    s
}

/// Read a suggestion completely through the C interface, compare with the Rust API.
unsafe fn snapshot(p: *const Suggestion, keep: &mut Vec<*mut c_char>) -> (Vec<String>, usize) {
    let r = &*p;
    let mut out = vec![];
    assert_eq!(riti_suggestion_is_lonely(p), r.is_lonely());
    assert_eq!(riti_suggestion_is_empty(p), r.is_empty());
    if r.is_lonely() {
        let a = take(riti_suggestion_get_lonely_suggestion(p), keep);
        assert_eq!(a, r.get_lonely_suggestion(), "lonely string differs from the Rust API");
        let b = take(riti_suggestion_get_pre_edit_text(p, 0), keep);
        assert_eq!(b, r.get_pre_edit_text(0), "pre-edit text differs from the Rust API");
        let n = usize::from(!a.is_empty());
        out.push(a);
        out.push(b);
        (out, n)
    } else {
        let n = riti_suggestion_get_length(p);
        assert_eq!(n, r.len());
        assert_eq!(riti_suggestion_previously_selected_index(p), r.previously_selected_index());
        let a = take(riti_suggestion_get_auxiliary_text(p), keep);
        assert_eq!(a, r.get_auxiliary_text(), "auxiliary text differs from the Rust API");
        out.push(a);
        for i in 0..n {
            let s = take(riti_suggestion_get_suggestion(p, i), keep);
            assert_eq!(s, r.get_suggestions()[i], "candidate differs from the Rust API");
            out.push(s);
            let e = take(riti_suggestion_get_pre_edit_text(p, i), keep);
            assert_eq!(e, r.get_pre_edit_text(i), "pre-edit text differs from the Rust API");
            out.push(e);
        }
        (out, n)
    }
}

struct Cur<'a> {
    d: &'a [u8],
    i: usize,
}

impl Cur<'_> {
    fn next(&mut self) -> Option<u8> {
        let b = self.d.get(self.i).copied();
        self.i += 1;
        b
    }
}

unsafe fn new_config(c: &mut Cur) -> Option<Cfg> {
    let (l, d, lo, hi) = (c.next()?, c.next()?, c.next()?, c.next()?);
    let p = riti_config_new();
    let ps = paths();
    // first try the decoded layout path (may be invalid: must be rejected), then make it usable
    let ok = riti_config_set_layout_file(p, ps.layouts[l as usize % ps.layouts.len()].as_ptr());
    assert_eq!(ok, (l as usize % ps.layouts.len()) < 3, "layout path validation");
    if !ok {
        assert!(riti_config_set_layout_file(p, ps.layouts[(l as usize / 8) % 3].as_ptr()));
    }
    match d % 16 {
        // loading the 4 MB dictionary under ASan costs ~0.5 s: only when the run allows it
        0 if allow_data() => assert!(riti_config_set_database_dir(p, ps.data[0].as_ptr())),
        0 => {}
        1 => assert!(!riti_config_set_database_dir(p, ps.data[1].as_ptr())),
        _ => {}
    }
    let b = u16::from(lo) | (u16::from(hi) << 8);
    riti_config_set_suggestion_include_english(p, b & 1 != 0);
    riti_config_set_phonetic_suggestion(p, b & 2 != 0);
    riti_config_set_fixed_suggestion(p, b & 4 != 0);
    riti_config_set_fixed_auto_vowel(p, b & 8 != 0);
    riti_config_set_fixed_auto_chandra(p, b & 16 != 0);
    riti_config_set_fixed_traditional_kar(p, b & 32 != 0);
    riti_config_set_fixed_old_reph(p, b & 64 != 0);
    riti_config_set_fixed_numpad(p, b & 128 != 0);
    riti_config_set_fixed_old_kar_order(p, b & 256 != 0);
    riti_config_set_ansi_encoding(p, b & 512 != 0);
    riti_config_set_smart_quote(p, b & 1024 != 0);
    Some(Cfg { p, ansi: b & 512 != 0 })
}

unsafe fn run(data: &[u8]) {
    let base = xdg();
    // reset the tested code's persistent state
    let _ = std::fs::remove_file(format!("{base}/openbangla-keyboard/phonetic-candidate-selection.json"));
    let _ = std::fs::remove_file(format!("{base}/openbangla-keyboard/autocorrect.json"));
    // optional user files, chosen by the unused high bits of the header's last byte: the strings the C interface hands
    // out come from them too ("every returned string is NUL-terminated valid UTF-8" whatever a file contains)
    let flavour = data.get(3).map(|h| (h >> 3) & 7).unwrap_or(0);
    let dir = format!("{base}/openbangla-keyboard");
    let _ = std::fs::create_dir_all(&dir);
    let (ac, sel): (Option<&[u8]>, Option<&[u8]>) = match flavour {
        1 => (Some(b"{\"a\":\"kkk\",\"k\":\"amader\",\"am\":\"\"}"), None),
        // valid JSON syntax, but the bytes are Latin-1 / stray continuation bytes, not UTF-8
        2 => (Some(b"{\"a\":\"caf\xE9 noir\",\"k\":\"\xFF\xFE\",\"am\":\"x\xC3\"}"), Some(b"{\"a\":\"\xE9\"}")),
        // (the value of "k" carries a TAB and a line feed, written as JSON escapes: control characters other than NUL
        // are ordinary characters of a C string and must come out as they went in)
        3 => (Some("{\"a\":\"\u{1F600}\",\"k\":\"\u{0995}\\t\u{09BE}\\n\",\"am\":\"\u{2764}\u{FE0F} ok\"}".as_bytes()), Some("{\"a\":\"\u{0986}\u{0983}\",\"k\":\"\"}".as_bytes())),
        4 => (Some(b"{\"a\":\"kk"), Some(b"{\"a\":")),
        5 => (Some(b"{\"a\":\"a\\u0000b\",\"k\":\"\\ud83d\"}"), Some(b"[1,2,3]")),
        _ => (None, None),
    };
    if let Some(b) = ac {
        let _ = std::fs::write(format!("{dir}/autocorrect.json"), b);
    }
    if let Some(b) = sel {
        let _ = std::fs::write(format!("{dir}/phonetic-candidate-selection.json"), b);
    }
    let keys = key_codes();
    let mut c = Cur { d: data, i: 0 };
    let mut cfgs: Vec<Cfg> = vec![];
    // (context, choices of the last suggestion of the current word, created under ANSI)
    let mut ctxs: Vec<(*mut RitiContext, usize, bool)> = vec![];
    let mut sugs: Vec<Sug> = vec![];
    let mut strings: Vec<*mut c_char> = vec![];
    let mut ops = 0;
    (|| -> Option<()> {
        cfgs.push(new_config(&mut c)?);
        ctxs.push((riti_context_new_with_config(cfgs[0].p), 0, cfgs[0].ansi));
        while ops < 64 {
            ops += 1;
            let op = c.next()? & 15;
            match op {
                0 => {
                    let cfg = new_config(&mut c)?;
                    if cfgs.len() < 3 {
                        cfgs.push(cfg);
                    } else {
                        riti_config_free(cfg.p);
                    }
                }
                1 => {
                    let ci = c.next()? as usize % cfgs.len();
                    if ctxs.len() < 3 {
                        ctxs.push((riti_context_new_with_config(cfgs[ci].p), 0, cfgs[ci].ansi));
                    }
                }
                4 => {
                    // burst: the same key pressed 2..=97 times (long compositions: candidates and pre-edit texts of
                    // several hundred bytes); every suggestion on the way is read out completely and freed, the last
                    // one stays alive like any other
                    let (x, k, m, n) = (c.next()?, c.next()?, c.next()?, c.next()?);
                    if !ctxs.is_empty() {
                        let xi = x as usize % ctxs.len();
                        let code = keys[k as usize % keys.len()];
                        let m = if code == VC_D { m & !2 } else { m };
                        let presses = (n as usize % 96) + 2;
                        for i in 0..presses {
                            let s = riti_get_suggestion_for_key(ctxs[xi].0, code, m, 0);
                            let (snap, cnt) = snapshot(s, &mut strings);
                            ctxs[xi].1 = cnt;
                            if i + 1 == presses {
                                sugs.push(Sug { p: s, snap, choices: cnt });
                            } else {
                                riti_suggestion_free(s);
                            }
                        }
                    }
                }
                2 | 3 => {
                    let (x, k, m, sel) = (c.next()?, c.next()?, c.next()?, c.next()?);
                    if !ctxs.is_empty() {
                        let xi = x as usize % ctxs.len();
                        let code = keys[k as usize % keys.len()];
                        // known finding (C02/C16): ANSI read-out of U+09C4 panics in the encoder; the key is
                        // AltGr+d in both fixed layouts - never pressed with AltGr here
                        let m = if code == VC_D { m & !2 } else { m };
                        let s = riti_get_suggestion_for_key(ctxs[xi].0, code, m, sel);
                        let (snap, n) = snapshot(s, &mut strings);
                        ctxs[xi].1 = n;
                        sugs.push(Sug { p: s, snap, choices: n });
                    }
                }
                5 => {
                    let (x, ctrl) = (c.next()?, c.next()?);
                    if !ctxs.is_empty() {
                        let xi = x as usize % ctxs.len();
                        let s = riti_context_backspace_event(ctxs[xi].0, ctrl % 5 == 0);
                        let (snap, n) = snapshot(s, &mut strings);
                        ctxs[xi].1 = n;
                        sugs.push(Sug { p: s, snap, choices: n });
                    }
                }
                6 => {
                    let (x, f) = (c.next()?, c.next()?);
                    if !ctxs.is_empty() {
                        let xi = x as usize % ctxs.len();
                        if ctxs[xi].1 > 0 {
                            riti_context_candidate_committed(ctxs[xi].0, (f as usize * ctxs[xi].1) >> 8);
                            ctxs[xi].1 = 0;
                        }
                    }
                }
                7 => {
                    let x = c.next()?;
                    if !ctxs.is_empty() {
                        let xi = x as usize % ctxs.len();
                        riti_context_finish_input_session(ctxs[xi].0);
                        ctxs[xi].1 = 0;
                    }
                }
                8 => {
                    let (x, ci) = (c.next()?, c.next()?);
                    if !ctxs.is_empty() {
                        let xi = x as usize % ctxs.len();
                        if !riti_context_ongoing_input_session(ctxs[xi].0) {
                            let cfg = &cfgs[ci as usize % cfgs.len()];
                            riti_context_update_engine(ctxs[xi].0, cfg.p);
                            ctxs[xi].1 = 0;
                            ctxs[xi].2 = cfg.ansi;
                        }
                    }
                }
                9 => {
                    // re-read an old suggestion: it must be unaffected by later calls
                    let si = c.next()?;
                    if !sugs.is_empty() {
                        let i = si as usize % sugs.len();
                        let (again, n) = snapshot(sugs[i].p, &mut strings);
                        assert_eq!(again, sugs[i].snap, "a suggestion changed after later calls on its context");
                        assert_eq!(n, sugs[i].choices);
                    }
                }
                10 => {
                    let si = c.next()?;
                    if !sugs.is_empty() {
                        let s = sugs.swap_remove(si as usize % sugs.len());
                        riti_suggestion_free(s.p);
                    }
                }
                11 => {
                    let si = c.next()?;
                    if !strings.is_empty() {
                        riti_string_free(strings.swap_remove(si as usize % strings.len()));
                    }
                }
                12 => riti_string_free(std::ptr::null_mut()),
                13 => {
                    let x = c.next()?;
                    if ctxs.len() > 1 {
                        let (p, _, _) = ctxs.swap_remove(x as usize % ctxs.len());
                        riti_context_free(p);
                    }
                }
                14 => {
                    // one setter on an existing config (affects only later contexts / updates)
                    let (ci, which, v) = (c.next()?, c.next()?, c.next()?);
                    let i = ci as usize % cfgs.len();
                    let p = cfgs[i].p;
                    let on = v & 1 != 0;
                    match which % 12 {
                        0 => riti_config_set_suggestion_include_english(p, on),
                        1 => riti_config_set_phonetic_suggestion(p, on),
                        2 => riti_config_set_fixed_suggestion(p, on),
                        3 => riti_config_set_fixed_auto_vowel(p, on),
                        4 => riti_config_set_fixed_auto_chandra(p, on),
                        5 => riti_config_set_fixed_traditional_kar(p, on),
                        6 => riti_config_set_fixed_old_reph(p, on),
                        7 => riti_config_set_fixed_numpad(p, on),
                        8 => riti_config_set_fixed_old_kar_order(p, on),
                        9 => {
                            riti_config_set_ansi_encoding(p, on);
                            cfgs[i].ansi = on;
                        }
                        10 => riti_config_set_smart_quote(p, on),
                        _ => {
                            let ps = paths();
                            let l = v as usize % ps.layouts.len();
                            assert_eq!(riti_config_set_layout_file(p, ps.layouts[l].as_ptr()), l < 3);
                        }
                    }
                }
                _ => {
                    let ci = c.next()?;
                    if cfgs.len() > 1 {
                        let cfg = cfgs.swap_remove(ci as usize % cfgs.len());
                        riti_config_free(cfg.p);
                    }
                }
            }
            if sugs.len() > 16 {
                let s = sugs.remove(0);
                riti_suggestion_free(s.p);
            }
        }
        Some(())
    })();
    // contexts first; suggestions must survive their context
    for (p, _, _) in ctxs {
        riti_context_free(p);
    }
    for s in &sugs {
        let (again, _) = snapshot(s.p, &mut strings);
        assert_eq!(again, s.snap, "a suggestion changed after its context was freed");
    }
    for s in sugs {
        riti_suggestion_free(s.p);
    }
    for s in strings {
        riti_string_free(s);
    }
    for cfg in cfgs {
        riti_config_free(cfg.p);
    }
}

fuzz_target!(|data: &[u8]| {
    unsafe { run(data) }
});
