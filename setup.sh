#!/bin/bash
# Build the framework offline from files on disk.
set -e
cd "$(dirname "$0")"
export CARGO_NET_OFFLINE=true
( cd harness && cargo build --release --offline 2>&1 | tail -n 3 )
if [ -x fuzz/build.sh ]; then fuzz/build.sh; fi
echo "setup done"
