//! Generators (proptest strategies) and the in-contract history interpreter shared by the
//! history-based properties (C01, C02, C06, ...).

use crate::driver::{keys, layout_inverse, Ctx, Layout, Opts, PanicInfo, Rendered, Sandbox};
use crate::model;
use proptest::prelude::*;
use serde::{Deserialize, Serialize};
use std::sync::OnceLock;

/// keys whose character preserves the caller's selection in phonetic mode
pub const SEL_PRESERVING: &str = ".?!,:;-_)}]'\"";

// ---------------------------------------------------------------------------------------------
// word pools

pub const HAND_PHONETIC: &[&str] = &[
    "a", "ami", "amar", "sonar", "bangla", "onno", "onnogulo", "onnogulor", "kkhet", "kkhetre", "smile", "cool",
    "coffee", "formatte", "ebong", "ebongmala", "hothat", "hothate", "i", "iei", "computer", "computergulo",
    "sesh", "sesh:`", "6t``", "atm", "atme", "apni", "kotha", "tumi", "academy", "rri", "OI", "rZ", "w",
    ":)", ";-)", ":er", ":p", "<3", "\"ami\"", "(as)", "'onno'", "[kotha]!", "sesh.", "a:", "a`", "x`:", "1.5", "..",
    "help", "chup", "valobasi", "bistari", "+1", "100", "\\", "^", "$",
];

pub const HAND_FIXED: &[&str] = &[
    "kmpiu", "vmi", "hvsi", "rwp", "h<qz", "/i", "[k]a", "{k/Z", "ik/k", "[ka", "k>a", "/u", "//", "k/R", "rZ",
    "irZ", "k/", "[", "i", "{", "[/", "k[a", "k[}", "A>a", ";)", "\"k\"", "(vmi)", "1", "k1", "!a", "k!a",
];

pub struct Pools {
    pub phonetic: Vec<String>,
    pub ac_keys: Vec<String>,
    pub suffix_keys: Vec<String>,
    pub emoticons: Vec<String>,
    pub emoji_names: Vec<String>,
    /// key sequences (code, modifier) typing dictionary words / tricky shapes in fixed layouts
    pub fixed: Vec<Vec<(u16, u8)>>,
}

fn ascii_keys(s: &str) -> Vec<(u16, u8)> {
    s.chars().map(|c| (keys().code_for(c), 0)).collect()
}

/// Key sequence that types `word` through `layout` with one key per code point, if possible.
pub fn keys_for_word(inv: &std::collections::HashMap<String, (u16, u8)>, word: &str) -> Option<Vec<(u16, u8)>> {
    word.chars().map(|c| inv.get(&c.to_string()).copied()).collect()
}

pub fn pools() -> &'static Pools {
    static P: OnceLock<Pools> = OnceLock::new();
    P.get_or_init(|| {
        let d = model::data();
        let typeable = |s: &str| !s.is_empty() && s.chars().all(|c| keys().has_char(c));
        let ac_keys: Vec<String> = d.autocorrect_keys.iter().filter(|k| typeable(k)).cloned().collect();
        let suffix_keys: Vec<String> = d.suffix_keys.iter().filter(|k| typeable(k)).cloned().collect();
        let e = model::emoji();
        let emoticons: Vec<String> = e.emoticons.iter().map(|(k, _)| k.clone()).filter(|k| typeable(k)).collect();
        let emoji_names: Vec<String> = e.names.iter().map(|(k, _)| k.clone()).filter(|k| typeable(k)).collect();
        let mut phonetic: Vec<String> = HAND_PHONETIC.iter().map(|s| s.to_string()).collect();
        phonetic.extend(ac_keys.iter().step_by(7).cloned());
        phonetic.extend(emoticons.iter().step_by(11).cloned());
        phonetic.extend(emoji_names.iter().step_by(37).cloned());
        // suffixed forms of a few bases
        for (i, s) in suffix_keys.iter().enumerate().step_by(23) {
            let base = &ac_keys[(i * 31) % ac_keys.len()];
            phonetic.push(format!("{base}{s}"));
        }
        let mut fixed: Vec<Vec<(u16, u8)>> = HAND_FIXED.iter().map(|s| ascii_keys(s)).collect();
        // AltGr keys of the synthetic layout: reph, ro-fola, ক্ষ, two-code-point sign, length mark
        for (c, m) in [('r', 2u8), ('R', 2), ('7', 2), ('8', 2), (']', 2), ('d', 2)] {
            fixed.push(vec![(keys().code_for(c), m)]);
            fixed.push(vec![(keys().code_for('k'), 0), (keys().code_for(c), m)]);
            fixed.push(vec![(keys().code_for('k'), 0), (keys().code_for('/'), 0), (keys().code_for(c), m)]);
            fixed.push(vec![(keys().code_for('['), 0), (keys().code_for('k'), 0), (keys().code_for(c), m)]);
        }
        let inv = layout_inverse(Layout::Probhat);
        for w in d.all_words.iter().step_by(61) {
            if w.chars().count() <= 10 {
                if let Some(k) = keys_for_word(&inv, w) {
                    fixed.push(k);
                }
            }
        }
        Pools { phonetic, ac_keys, suffix_keys, emoticons, emoji_names, fixed }
    })
}

// ---------------------------------------------------------------------------------------------
// abstract operations

#[derive(Clone, Copy, Debug, PartialEq, Eq)]
pub enum SelPick {
    Zero,
    /// what ibus/fcitx pass: the preselected index of the previously returned list
    FrontEnd,
    /// any index valid for the previously returned list
    Frac(u16),
    /// any byte (C01 only)
    Raw(u8),
}

#[derive(Clone, Debug)]
pub enum AbsOp {
    Key { pick: u16, m: u8, sel: SelPick },
    Text { keys: Vec<(u16, u8)>, sel: SelPick },
    /// a key currently in the sandbox's learned-selection store, followed by a suffix key
    LearnedPlusSuffix { kfrac: u16, sidx: u16, sel: SelPick },
    Backspace,
    CtrlBackspace,
    Commit { frac: u16 },
    Finish,
    Update { layout: usize, bits: u16 },
    /// update-engine that changes ONE thing: option bit 0..=10 toggled, 11 / 12 = the next / previous layout
    Flip { bit: u8 },
    Restart,
}

/// concrete, replayable events
#[derive(Clone, Debug, PartialEq, Eq, Hash, Serialize, Deserialize)]
pub enum Ev {
    Key { code: u16, m: u8, sel: u8 },
    Backspace,
    CtrlBackspace,
    Commit(usize),
    Finish,
    Update(String),
    Restart,
}

pub fn ev_to_string(e: &Ev) -> String {
    match e {
        Ev::Key { code, m, sel } => {
            let n = keys().by_code(*code).map(|k| k.name.clone()).unwrap_or_else(|| format!("#{code}"));
            format!("K:{n}:{m}:{sel}")
        }
        Ev::Backspace => "bs".into(),
        Ev::CtrlBackspace => "cbs".into(),
        Ev::Commit(i) => format!("commit:{i}"),
        Ev::Finish => "finish".into(),
        Ev::Update(o) => format!("update:{o}"),
        Ev::Restart => "restart".into(),
    }
}

pub fn opts_strategy() -> impl Strategy<Value = Opts> {
    (0usize..3, 0u16..2048).prop_map(|(l, b)| Opts::from_bits(l, b))
}

pub fn opts_for_layout(layout: usize) -> impl Strategy<Value = Opts> {
    (0u16..2048).prop_map(move |b| Opts::from_bits(layout, b))
}

pub fn sel_strategy(allow_raw: bool) -> BoxedStrategy<SelPick> {
    if allow_raw {
        prop_oneof![
            3 => Just(SelPick::Zero),
            3 => Just(SelPick::FrontEnd),
            3 => any::<u16>().prop_map(SelPick::Frac),
            2 => any::<u8>().prop_map(SelPick::Raw),
        ]
        .boxed()
    } else {
        prop_oneof![
            3 => Just(SelPick::Zero),
            3 => Just(SelPick::FrontEnd),
            4 => any::<u16>().prop_map(SelPick::Frac),
        ]
        .boxed()
    }
}

pub fn modifier_strategy() -> BoxedStrategy<u8> {
    prop_oneof![
        6 => Just(0u8),
        2 => Just(2u8),
        1 => Just(1u8),
        1 => Just(3u8),
        1 => any::<u8>(),
    ]
    .boxed()
}

/// Text as a key sequence: phonetic words, fixed-layout words, wrappers, random strings.
pub fn text_keys_strategy() -> BoxedStrategy<Vec<(u16, u8)>> {
    let p = pools();
    let punct: Vec<char> = "-]~!@#%&*()_=+[{}'\";<>/?|.,:`^$\\".chars().collect();
    let wrap = proptest::collection::vec(proptest::sample::select(punct), 0..3);
    let phon = proptest::sample::select(p.phonetic.clone());
    let sfx = proptest::sample::select(p.suffix_keys.clone());
    let ack = proptest::sample::select(p.ac_keys.clone());
    let fixed = proptest::sample::select(p.fixed.clone());
    let rnd = proptest::collection::vec(proptest::sample::select(crate::driver::typeable()), 1..8);
    prop_oneof![
        4 => phon.clone().prop_map(|w| ascii_keys(&w)),
        2 => (wrap.clone(), phon, wrap.clone()).prop_map(|(a, w, b)| {
            let t: String = a.into_iter().chain(w.chars()).chain(b).collect();
            ascii_keys(&t)
        }),
        2 => (ack, sfx).prop_map(|(a, s)| ascii_keys(&format!("{a}{s}"))),
        4 => fixed.clone(),
        1 => (wrap.clone(), fixed, wrap).prop_map(|(a, w, b)| {
            let mut k = ascii_keys(&a.into_iter().collect::<String>());
            k.extend(w);
            k.extend(ascii_keys(&b.into_iter().collect::<String>()));
            k
        }),
        1 => rnd.prop_map(|v| ascii_keys(&v.into_iter().collect::<String>())),
    ]
    .boxed()
}

pub struct OpWeights {
    pub key: u32,
    pub text: u32,
    pub learned: u32,
    pub backspace: u32,
    pub ctrl_backspace: u32,
    pub commit: u32,
    pub finish: u32,
    pub update: u32,
    pub restart: u32,
}

pub fn op_strategy(w: &OpWeights, allow_raw_sel: bool) -> BoxedStrategy<AbsOp> {
    let nkeys = keys().len() as u16;
    let mut alts: Vec<(u32, BoxedStrategy<AbsOp>)> = vec![
        (
            w.key,
            (0..nkeys, modifier_strategy(), sel_strategy(allow_raw_sel))
                .prop_map(|(pick, m, sel)| AbsOp::Key { pick, m, sel })
                .boxed(),
        ),
        (
            w.text,
            (text_keys_strategy(), sel_strategy(allow_raw_sel))
                .prop_map(|(keys, sel)| AbsOp::Text { keys, sel })
                .boxed(),
        ),
        (
            w.learned,
            (any::<u16>(), any::<u16>(), sel_strategy(allow_raw_sel))
                .prop_map(|(kfrac, sidx, sel)| AbsOp::LearnedPlusSuffix { kfrac, sidx, sel })
                .boxed(),
        ),
        (w.backspace, Just(AbsOp::Backspace).boxed()),
        (w.ctrl_backspace, Just(AbsOp::CtrlBackspace).boxed()),
        (w.commit, any::<u16>().prop_map(|frac| AbsOp::Commit { frac }).boxed()),
        (w.finish, Just(AbsOp::Finish).boxed()),
        (
            w.update,
            (0usize..3, 0u16..2048).prop_map(|(layout, bits)| AbsOp::Update { layout, bits }).boxed(),
        ),
        (w.update, (0u8..13).prop_map(|bit| AbsOp::Flip { bit }).boxed()),
        (w.restart, Just(AbsOp::Restart).boxed()),
    ];
    alts.retain(|(w, _)| *w > 0);
    proptest::strategy::Union::new_weighted(alts).boxed()
}

// ---------------------------------------------------------------------------------------------
// interpreter

/// What happened at one engine call.
pub enum Outcome {
    Suggestion(Rendered),
    Done,
}

pub struct Step<'a> {
    pub ev: &'a Ev,
    pub outcome: &'a Outcome,
    pub ctx: &'a Ctx,
    /// index of this event in the concrete trace
    pub index: usize,
}

pub struct Interp<'s> {
    pub ctx: Ctx,
    pub sb: &'s Sandbox,
    pub trace: Vec<Ev>,
    /// last suggestion returned in the current word (None after a terminating event)
    pub last: Option<Rendered>,
    pub skipped_commit: u64,
    pub skipped_update: u64,
    pub skipped_learned: u64,
    pub typed_on_learned: u64,
}

#[derive(Debug)]
pub struct EnginePanic {
    pub info: PanicInfo,
    pub at: usize,
}

impl<'s> Interp<'s> {
    pub fn new(opts: Opts, sb: &'s Sandbox) -> Result<Interp<'s>, EnginePanic> {
        journal::begin(&opts);
        let ctx = Ctx::new(opts, sb).map_err(|info| EnginePanic { info, at: 0 })?;
        Ok(Interp { ctx, sb, trace: vec![], last: None, skipped_commit: 0, skipped_update: 0, skipped_learned: 0, typed_on_learned: 0 })
    }

    fn resolve_sel(&self, s: SelPick) -> u8 {
        let (len, pre) = match &self.last {
            Some(r) if !r.lonely => (r.cands.len(), r.sel),
            _ => (0, 0),
        };
        match s {
            SelPick::Zero => 0,
            SelPick::FrontEnd => {
                if len > 0 {
                    pre.min(len - 1).min(255) as u8
                } else {
                    0
                }
            }
            SelPick::Frac(f) => {
                if len > 0 {
                    (((f as usize) * len) >> 16).min(255) as u8
                } else {
                    0
                }
            }
            SelPick::Raw(b) => b,
        }
    }

    /// Execute one concrete event.  `observe` sees the event and its outcome.
    pub fn exec(
        &mut self,
        ev: Ev,
        observe: &mut dyn FnMut(&Step) -> Result<(), crate::runner::Failure>,
    ) -> Result<Result<(), crate::runner::Failure>, EnginePanic> {
        let at = self.trace.len();
        self.trace.push(ev.clone());
        journal::event(&ev);
        let wrap = |info| EnginePanic { info, at };
        let outcome = match &ev {
            Ev::Key { code, m, sel } => {
                let r = self.ctx.key(*code, *m, *sel).map_err(wrap)?;
                self.last = Some(r.clone());
                Outcome::Suggestion(r)
            }
            Ev::Backspace | Ev::CtrlBackspace => {
                let r = self.ctx.backspace(matches!(ev, Ev::CtrlBackspace)).map_err(wrap)?;
                self.last = Some(r.clone());
                Outcome::Suggestion(r)
            }
            Ev::Commit(i) => {
                self.ctx.commit(*i).map_err(wrap)?;
                self.last = None;
                Outcome::Done
            }
            Ev::Finish => {
                self.ctx.finish().map_err(wrap)?;
                self.last = None;
                Outcome::Done
            }
            Ev::Update(o) => {
                self.ctx.update(Opts::parse(o), self.sb).map_err(wrap)?;
                self.last = None;
                Outcome::Done
            }
            Ev::Restart => {
                let o = self.ctx.opts;
                self.ctx = Ctx::new(o, self.sb).map_err(wrap)?;
                self.last = None;
                Outcome::Done
            }
        };
        let step = Step { ev: &ev, outcome: &outcome, ctx: &self.ctx, index: at };
        Ok(observe(&step))
    }

    /// Turn an abstract op into in-contract concrete events and execute them.
    pub fn run_op(
        &mut self,
        op: &AbsOp,
        observe: &mut dyn FnMut(&Step) -> Result<(), crate::runner::Failure>,
    ) -> Result<Result<(), crate::runner::Failure>, EnginePanic> {
        match op {
            AbsOp::Key { pick, m, sel } => {
                let code = keys().keys[*pick as usize % keys().len()].code;
                let sel = self.resolve_sel(*sel);
                self.exec(Ev::Key { code, m: *m, sel }, observe)
            }
            AbsOp::Text { keys: ks, sel } => {
                for (code, m) in ks {
                    let s = self.resolve_sel(*sel);
                    if let Err(f) = self.exec(Ev::Key { code: *code, m: *m, sel: s }, observe)? {
                        return Ok(Err(f));
                    }
                }
                Ok(Ok(()))
            }
            AbsOp::LearnedPlusSuffix { kfrac, sidx, sel } => {
                let mut stored: Vec<String> = self
                    .sb
                    .parsed_selections()
                    .map(|m| m.into_keys().filter(|k| k.chars().all(|c| keys().has_char(c))).collect())
                    .unwrap_or_default();
                stored.sort();
                if stored.is_empty() {
                    self.skipped_learned += 1;
                    return Ok(Ok(()));
                }
                let k = &stored[((*kfrac as usize) * stored.len()) >> 16];
                let sk = &pools().suffix_keys;
                let s = &sk[((*sidx as usize) * sk.len()) >> 16];
                self.typed_on_learned += 1;
                for c in k.chars().chain(s.chars()) {
                    let sb = self.resolve_sel(*sel);
                    if let Err(f) = self.exec(Ev::Key { code: keys().code_for(c), m: 0, sel: sb }, observe)? {
                        return Ok(Err(f));
                    }
                }
                Ok(Ok(()))
            }
            AbsOp::Backspace => self.exec(Ev::Backspace, observe),
            AbsOp::CtrlBackspace => self.exec(Ev::CtrlBackspace, observe),
            AbsOp::Commit { frac } => {
                // in contract only when the last event of the current word returned something
                let n = self.last.as_ref().map(|r| r.choices()).unwrap_or(0);
                if n == 0 {
                    self.skipped_commit += 1;
                    return Ok(Ok(()));
                }
                let idx = ((*frac as usize) * n) >> 16;
                self.exec(Ev::Commit(idx), observe)
            }
            AbsOp::Finish => self.exec(Ev::Finish, observe),
            AbsOp::Update { layout, bits } => {
                if self.ctx.ongoing() {
                    self.skipped_update += 1;
                    return Ok(Ok(()));
                }
                let o = Opts::from_bits(*layout, *bits);
                self.exec(Ev::Update(o.letters()), observe)
            }
            AbsOp::Flip { bit } => {
                if self.ctx.ongoing() {
                    self.skipped_update += 1;
                    return Ok(Ok(()));
                }
                let mut o = self.ctx.opts;
                match bit {
                    0 => o.english = !o.english,
                    1 => o.psug = !o.psug,
                    2 => o.fsug = !o.fsug,
                    3 => o.vowel = !o.vowel,
                    4 => o.chandra = !o.chandra,
                    5 => o.kar = !o.kar,
                    6 => o.reph = !o.reph,
                    7 => o.numpad = !o.numpad,
                    8 => o.karorder = !o.karorder,
                    9 => o.ansi = !o.ansi,
                    10 => o.smart = !o.smart,
                    _ => {
                        let cur = match o.layout {
                            Layout::Phonetic => 0,
                            Layout::Probhat => 1,
                            _ => 2,
                        };
                        o.layout = Layout::from_index(cur + if *bit == 11 { 1 } else { 2 });
                    }
                }
                self.exec(Ev::Update(o.letters()), observe)
            }
            AbsOp::Restart => self.exec(Ev::Restart, observe),
        }
    }
}

/// Replay a concrete trace in a fresh sandbox/context.
pub fn replay_trace(
    opts: Opts,
    sb: &Sandbox,
    trace: &[Ev],
    observe: &mut dyn FnMut(&Step) -> Result<(), crate::runner::Failure>,
) -> Result<Result<(), crate::runner::Failure>, EnginePanic> {
    let mut it = Interp::new(opts, sb)?;
    for ev in trace {
        if let Err(f) = it.exec(ev.clone(), observe)? {
            return Ok(Err(f));
        }
    }
    Ok(Ok(()))
}

pub fn trace_json(opts: &Opts, trace: &[Ev]) -> serde_json::Value {
    serde_json::json!({
        "opts": opts.letters(),
        "events": trace,
        "readable": trace.iter().map(ev_to_string).collect::<Vec<_>>(),
    })
}

/// A spelling for a LONG dictionary word: the inherent vowel is written as `o` between two consonant letters that are
/// not joined by a hasanta (never after the last letter); kept only if the independent oracle confirms that the
/// dictionary word is a direct candidate of the spelling.
pub fn romanise_long(word: &str) -> Option<String> {
    let cs: Vec<char> = word.chars().collect();
    let mut sp = String::new();
    for (i, c) in cs.iter().enumerate() {
        sp.push_str(rom_char(*c)?);
        let next = cs.get(i + 1).copied();
        if model::is_consonant(*c) && next.map(model::is_consonant).unwrap_or(false) {
            sp.push('o');
        }
    }
    if crate::phon::is_direct_dict(&sp, word) {
        Some(sp)
    } else {
        None
    }
}
pub fn rom_char(c: char) -> Option<&'static str> {
    Some(match c {
        '\u{0985}' => "o", '\u{0986}' => "a", '\u{0987}' => "i", '\u{0988}' => "i", '\u{0989}' => "u", '\u{098A}' => "u", '\u{098B}' => "rri",
        '\u{098F}' => "e", '\u{0990}' => "oi", '\u{0993}' => "o", '\u{0994}' => "ou",
        '\u{0995}' => "k", '\u{0996}' => "kh", '\u{0997}' => "g", '\u{0998}' => "gh", '\u{0999}' => "ng", '\u{099A}' => "c", '\u{099B}' => "ch",
        '\u{099C}' => "j", '\u{099D}' => "jh", '\u{099E}' => "n", '\u{099F}' => "t", '\u{09A0}' => "th", '\u{09A1}' => "d", '\u{09A2}' => "dh",
        '\u{09A3}' => "n", '\u{09A4}' => "t", '\u{09A5}' => "th", '\u{09A6}' => "d", '\u{09A7}' => "dh", '\u{09A8}' => "n", '\u{09AA}' => "p",
        '\u{09AB}' => "f", '\u{09AC}' => "b", '\u{09AD}' => "v", '\u{09AE}' => "m", '\u{09AF}' => "z", '\u{09B0}' => "r", '\u{09B2}' => "l",
        '\u{09B6}' => "sh", '\u{09B7}' => "sh", '\u{09B8}' => "s", '\u{09B9}' => "h", '\u{09DC}' => "r", '\u{09DD}' => "rh", '\u{09DF}' => "y",
        '\u{09CE}' => "t", '\u{0982}' => "ng", '\u{0983}' => "h", '\u{0981}' => "",
        '\u{09BE}' => "a", '\u{09BF}' => "i", '\u{09C0}' => "i", '\u{09C1}' => "u", '\u{09C2}' => "u", '\u{09C3}' => "rri", '\u{09C7}' => "e",
        '\u{09C8}' => "oi", '\u{09CB}' => "o", '\u{09CC}' => "ou", '\u{09CD}' => "",
        _ => return None,
    })
}

/// A Latin spelling under which `word` is a direct dictionary candidate (confirmed by the independent oracle), or
/// None.  First the rough inverse of the Avro table without inherent vowels; if the oracle does not confirm it, an
/// `o` is tried at every subset of the letter boundaries (shortest additions first, at most 512 variants).
pub fn romanise_validated(word: &str) -> Option<String> {
    let toks: Vec<&'static str> = word.chars().map(rom_char).collect::<Option<Vec<_>>>()?;
    let toks: Vec<&'static str> = toks.into_iter().filter(|t| !t.is_empty()).collect();
    if toks.is_empty() || toks.len() > 14 {
        return None;
    }
    let gaps = toks.len() - 1;
    let mut masks: Vec<u32> = (0..(1u32 << gaps.min(9))).collect();
    masks.sort_by_key(|m| m.count_ones());
    for m in masks {
        let mut sp = String::new();
        for (i, t) in toks.iter().enumerate() {
            sp.push_str(t);
            if i < gaps && i < 9 && m & (1 << i) != 0 {
                sp.push('o');
            }
        }
        if crate::phon::is_direct_dict(&sp, word) {
            return Some(sp);
        }
    }
    None
}

/// Dictionary words that the data lists more than once inside one section (the engine must still show them once).
pub fn twice_listed_words() -> Vec<String> {
    let mut out = vec![];
    for (_, words) in &model::data().sections {
        let mut seen = std::collections::HashSet::new();
        for w in words {
            if !seen.insert(w) && !out.contains(w) {
                out.push(w.clone());
            }
        }
    }
    out
}

/// Dictionary-guided spellings: short dictionary words romanised with a rough inverse of the Avro table
/// (no inherent vowels), kept only if the independent oracle confirms that the word is a direct
/// candidate of the spelling (okkhor pattern match).  Up to 12 per final character, so that bases
/// ending in every vowel sign, khanda-ta, anusvara, visarga ... are typed by C07 / C08.
pub fn guided_bases() -> &'static Vec<(String, String)> {
    static G: OnceLock<Vec<(String, String)>> = OnceLock::new();
    G.get_or_init(|| {
        let rom = rom_char;
        let mut per_final: std::collections::HashMap<char, usize> = std::collections::HashMap::new();
        let mut out = vec![];
        for w in model::data().all_words.iter().step_by(3) {
            let n = w.chars().count();
            if !(2..=5).contains(&n) {
                continue;
            }
            let last = w.chars().last().unwrap();
            if per_final.get(&last).copied().unwrap_or(0) >= 12 {
                continue;
            }
            let latin: Option<String> = w.chars().map(rom).collect::<Option<Vec<_>>>().map(|v| v.concat());
            let latin = match latin {
                Some(l) if !l.is_empty() && l.len() <= 9 => l,
                _ => continue,
            };
            if crate::phon::is_direct_dict(&latin, w) {
                *per_final.entry(last).or_insert(0) += 1;
                out.push((latin, w.clone()));
            }
        }
        out
    })
}

/// Crash journal (C01): when `VERIF_JOURNAL_DIR` is set every thread mirrors the history it is
/// executing to its own small file BEFORE each engine call (one `write` on tmpfs, ~1 us).  If the
/// process then dies (stack overflow, abort) or a call never returns, the supervising parent finds the
/// exact concrete trace up to the fatal event in that file.  `end()` empties the file.
pub mod journal {
    use super::Ev;
    use crate::driver::Opts;
    use std::cell::RefCell;
    use std::fs::File;
    use std::io::{Seek, SeekFrom, Write};
    use std::sync::atomic::{AtomicUsize, Ordering};

    static NEXT: AtomicUsize = AtomicUsize::new(0);
    thread_local! {
        static FILE: RefCell<Option<File>> = const { RefCell::new(None) };
    }

    fn with_file(f: impl FnOnce(&mut File)) {
        FILE.with(|cell| {
            let mut slot = cell.borrow_mut();
            if slot.is_none() {
                if let Ok(dir) = std::env::var("VERIF_JOURNAL_DIR") {
                    let _ = std::fs::create_dir_all(&dir);
                    let n = NEXT.fetch_add(1, Ordering::Relaxed);
                    *slot = File::create(format!("{dir}/thread{n}.jsonl")).ok();
                }
            }
            if let Some(file) = slot.as_mut() {
                f(file);
            }
        });
    }

    pub fn enabled() -> bool {
        std::env::var("VERIF_JOURNAL_DIR").is_ok()
    }

    pub fn begin(opts: &Opts) {
        if !enabled() {
            return;
        }
        with_file(|f| {
            let _ = f.set_len(0);
            let _ = f.seek(SeekFrom::Start(0));
            let _ = writeln!(f, "{}", serde_json::json!({"opts": opts.letters()}));
        });
    }

    pub fn event(ev: &Ev) {
        if !enabled() {
            return;
        }
        with_file(|f| {
            let _ = writeln!(f, "{}", serde_json::to_string(ev).unwrap_or_default());
        });
    }

    pub fn end() {
        if !enabled() {
            return;
        }
        with_file(|f| {
            let _ = f.set_len(0);
            let _ = f.seek(SeekFrom::Start(0));
        });
    }

    /// Parse a journal file into (opts letters, events).
    pub fn read(path: &std::path::Path) -> Option<(String, Vec<Ev>)> {
        let text = std::fs::read_to_string(path).ok()?;
        let mut lines = text.lines();
        let head: serde_json::Value = serde_json::from_str(lines.next()?).ok()?;
        let opts = head["opts"].as_str()?.to_string();
        let events: Vec<Ev> = lines.filter_map(|l| serde_json::from_str(l).ok()).collect();
        Some((opts, events))
    }
}

/// Spellings whose transliteration contains a joiner (ZWJ after `rZ`, ZWNJ after `,,`) while the dictionary has the
/// same word WITHOUT the joiner - confirmed by the independent oracle (the dictionary word is a direct candidate of
/// the spelling, and avro(spelling) differs from it only by joiners).  Up to `max` of each kind.
pub fn joiner_spellings(max: usize) -> &'static Vec<(String, String)> {
    static G: OnceLock<Vec<(String, String)>> = OnceLock::new();
    G.get_or_init(|| {
        let mut out: Vec<(String, String)> = vec![];
        let (mut n_rz, mut n_cc) = (0usize, 0usize);
        let strip = |s: &str| -> String { s.chars().filter(|c| *c != '\u{200C}' && *c != '\u{200D}').collect() };
        for w in model::data().all_words.iter().step_by(7) {
            let cs: Vec<char> = w.chars().collect();
            if !(3..=8).contains(&cs.len()) || n_rz >= max && n_cc >= max {
                continue;
            }
            // position of the first hasanta between two consonants
            let Some(h) = (1..cs.len() - 1).find(|i| cs[*i] == '\u{09CD}' && model::is_consonant(cs[*i - 1]) && model::is_consonant(cs[*i + 1])) else { continue };
            let toks: Option<Vec<&'static str>> = cs.iter().map(|c| rom_char(*c)).collect();
            let Some(toks) = toks else { continue };
            let is_rz = cs[h - 1] == '\u{09B0}' && cs[h + 1] == '\u{09AF}';
            if is_rz && n_rz >= max || !is_rz && n_cc >= max {
                continue;
            }
            // spelling: tokens, with the cluster written as "rZ" or C1 ",," C2; an 'o' is tried at the other gaps
            let gaps: Vec<usize> = (0..cs.len() - 1).filter(|i| *i != h - 1 && *i != h && !toks[*i].is_empty() && !toks[*i + 1].is_empty()).collect();
            let mut found = None;
            let mut masks: Vec<u32> = (0..(1u32 << gaps.len().min(6))).collect();
            masks.sort_by_key(|m| m.count_ones());
            for m in masks {
                let mut sp = String::new();
                for (i, t) in toks.iter().enumerate() {
                    if i == h {
                        continue;
                    }
                    if i == h + 1 {
                        if is_rz {
                            sp.push('Z');
                        } else {
                            sp.push_str(",,");
                            sp.push_str(t);
                        }
                    } else {
                        sp.push_str(t);
                    }
                    if let Some(gi) = gaps.iter().position(|g| *g == i) {
                        if gi < 6 && m & (1 << gi) != 0 {
                            sp.push('o');
                        }
                    }
                }
                let tr = model::avro(&sp);
                if tr != *w && strip(&tr) == *w && crate::phon::is_direct_dict(&sp, w) {
                    found = Some(sp);
                    break;
                }
            }
            if let Some(sp) = found {
                if is_rz {
                    n_rz += 1;
                } else {
                    n_cc += 1;
                }
                out.push((sp, w.clone()));
            }
        }
        out
    })
}
