pub mod driver;
pub mod fuzz;
pub mod gen;
pub mod model;
pub mod oracle;
pub mod phon;
pub mod props;
pub mod runner;
