//! Byte-coded event histories with the semantic oracles of C02 / C05 / C06 / C11 / C16 / C17 inside.
//!
//! One total decoder (every byte string is a history) feeds the per-property observers that the generated parts
//! of those checks already use.  The same function runs
//!   * in-process (quick and thorough tier: a committed, coverage-distilled corpus is replayed and random byte
//!     strings from proptest are executed), and
//!   * inside the libFuzzer target `fuzz/fuzz_targets/oracle.rs` (thorough tier: coverage-guided campaigns; a
//!     mutant's new branch is a coverage target, so the search is drawn to the changed code).
//! A run is a pure function of (mode, bytes, /repo, known_findings.json).
//!
//! Byte code: header `[layout][bits lo][bits hi][flags][user file][spare]`, then up to 64 ops:
//!   op & 15: 0-3 one typeable character, 4 any published key with a modifier pattern, 5-6 a word of the pools,
//!   7 a learned key + suffix key, 8-9 backspace, 10 ctrl-backspace, 11-12 commit(fraction), 13 finish,
//!   14 update-engine (single option flip / layout switch / new option set), 15 restart | user auto-correct edit.
//!   op >> 4 selects the selection byte (front-end protocol / zero / a valid fraction) or a variant.

use crate::driver::{keys, typeable, Ctx, Opts, PanicInfo, Rendered, Sandbox};
use crate::gen::{self, AbsOp, Ev, Interp, Outcome, SelPick, Step};
use crate::model;
use crate::props::c01::panic_kind;
use crate::props::{c02, c06, c16, c17};
use crate::runner::{hash_of, Failure, Run, Stats};
use serde_json::{json, Value};

#[derive(Clone, Copy, Debug, PartialEq, Eq)]
pub enum Mode {
    C02,
    C05,
    C06,
    C11,
    C16,
    C17,
}

impl Mode {
    pub fn parse(s: &str) -> Option<Mode> {
        Some(match s {
            "C02" => Mode::C02,
            "C05" => Mode::C05,
            "C06" => Mode::C06,
            "C11" => Mode::C11,
            "C16" => Mode::C16,
            "C17" => Mode::C17,
            _ => return None,
        })
    }
    pub fn id(self) -> &'static str {
        match self {
            Mode::C02 => "C02",
            Mode::C05 => "C05",
            Mode::C06 => "C06",
            Mode::C11 => "C11",
            Mode::C16 => "C16",
            Mode::C17 => "C17",
        }
    }
}

pub const MAX_OPS: usize = 40;
pub const MAX_LEN: usize = 200;

#[derive(Clone, Debug)]
pub enum XOp {
    Abs(AbsOp),
    /// rewrite the user's auto-correct list (flavour byte), time stamp moved forward, then update-engine with the
    /// current options (only while idle)
    UserEdit(u8),
}

#[derive(Clone, Debug)]
pub struct Decoded {
    pub opts: Opts,
    /// initial content of the user's auto-correct list
    pub user_file: Option<String>,
    pub ops: Vec<XOp>,
}

/// Contents a user's auto-correct list may have (all loadable; the unreadable ones are C10's business).
pub fn user_file_flavour(b: u8) -> Option<String> {
    let v = match b % 12 {
        0 => return None,
        1 => json!({"ami": "tumi", "a": "o"}),
        2 => json!({"kkk": "ami", "sesh": "shesh", "atm": "otm"}),
        3 => json!({"ebong": "\u{098f}\u{09ac}\u{0982}", "a": "\u{0985}"}),
        4 => json!({"amar": "tOmar", "ba": "bangla", "bangla": "ba"}),
        5 => json!({"cool": ":)", "smile": "\u{1f600}"}),
        6 => json!({"kotha": "kotha", "onno": "onZo"}),
        7 => json!({"i": "ami", "e": "ebong", "k": "kotha"}),
        8 => json!({}),
        9 => json!({"computer": "kompiutar", "help": "sahajZo"}),
        10 => json!({"ami": "ami", "tumi": "ami", "se": "ami"}),
        _ => json!({"hothat": "hoThat`", "rri": "ri", "a.": "o", "(k": "kotha", "ami,": "tumi"}),
    };
    Some(v.to_string())
}

struct Rd<'a> {
    d: &'a [u8],
    i: usize,
}
impl<'a> Rd<'a> {
    fn u8(&mut self) -> Option<u8> {
        let b = self.d.get(self.i).copied();
        self.i += 1;
        b
    }
}

fn sel_of(hi: u8) -> SelPick {
    match hi {
        0..=7 => SelPick::FrontEnd,
        8..=11 => SelPick::Zero,
        _ => SelPick::Frac(((hi as u16 - 12) << 14) + 8191),
    }
}

const MODIFIERS: [u8; 16] = [0, 0, 0, 0, 0, 2, 2, 2, 1, 3, 4, 6, 0x80, 0x82, 0xff, 0xfd];

pub fn decode(mode: Mode, bytes: &[u8]) -> Option<Decoded> {
    let mut rd = Rd { d: bytes, i: 0 };
    let layout = rd.u8()? as usize;
    let bits = u16::from(rd.u8()?) | (u16::from(rd.u8()?) << 8);
    let flags = rd.u8()?;
    let uf = rd.u8()?;
    let _spare = rd.u8()?;
    let mut opts = Opts::from_bits(layout, bits & 0x7ff);
    // the bundled data directory is fixed at creation (update-engine keeps it: "same data directory"); the
    // histories of C02 / C16 go through the shared interpreter, whose update-engine always names the directory
    opts.nodata = flags & 0x0f == 0x0f && !matches!(mode, Mode::C02 | Mode::C16);
    match mode {
        Mode::C05 => {
            opts.layout = crate::driver::Layout::Phonetic;
            if flags & 0x30 != 0 {
                opts.psug = true;
            }
        }
        Mode::C02 => {
            if flags & 0x30 != 0 {
                opts.psug = true;
                opts.fsug = true;
            }
        }
        Mode::C16 => {
            if flags & 0x30 != 0 {
                opts.ansi = true;
            }
        }
        Mode::C06 | Mode::C11 | Mode::C17 => {
            if flags & 0x10 != 0 {
                opts.psug = true;
                opts.fsug = true;
            }
        }
    }
    // C16 quantifies over typed texts and the bundled data; what a user's own list may hold (an emoji as the
    // replacement) is not part of its domain, so that flavour is not generated there
    let uf = if mode == Mode::C16 && uf % 12 == 5 { uf - 4 } else { uf };
    let user_file = if uf < 128 { None } else { user_file_flavour(uf) };
    let chars = typeable();
    let p = gen::pools();
    let mut cur = opts;
    let mut ops = vec![];
    while ops.len() < MAX_OPS {
        let Some(op) = rd.u8() else { break };
        let (lo, hi) = (op & 15, op >> 4);
        let x = match lo {
            0..=3 => {
                let Some(c) = rd.u8() else { break };
                let ch = chars[c as usize % chars.len()];
                XOp::Abs(AbsOp::Text { keys: vec![(keys().code_for(ch), 0)], sel: sel_of(hi) })
            }
            4 => {
                let Some(k) = rd.u8() else { break };
                XOp::Abs(AbsOp::Key { pick: k as u16, m: MODIFIERS[hi as usize], sel: SelPick::FrontEnd })
            }
            5 | 6 => {
                let Some(w) = rd.u8() else { break };
                let idx = ((hi as usize & 7) << 8) | w as usize;
                let ks: Vec<(u16, u8)> = if cur.is_phonetic() {
                    p.phonetic[idx % p.phonetic.len()].chars().map(|c| (keys().code_for(c), 0)).collect()
                } else {
                    p.fixed[idx % p.fixed.len()].clone()
                };
                XOp::Abs(AbsOp::Text { keys: ks, sel: if hi & 8 != 0 { SelPick::Zero } else { SelPick::FrontEnd } })
            }
            7 => {
                let Some(s) = rd.u8() else { break };
                XOp::Abs(AbsOp::LearnedPlusSuffix { kfrac: (hi as u16) << 12, sidx: (s as u16) << 8, sel: SelPick::FrontEnd })
            }
            8 | 9 => XOp::Abs(AbsOp::Backspace),
            10 => XOp::Abs(AbsOp::CtrlBackspace),
            11 | 12 => {
                let Some(f) = rd.u8() else { break };
                XOp::Abs(AbsOp::Commit { frac: (f as u16) << 8 | hi as u16 })
            }
            13 => XOp::Abs(AbsOp::Finish),
            14 => {
                let Some(a) = rd.u8() else { break };
                let mut o = cur;
                match hi {
                    0..=7 => {
                        let b = a % 11;
                        let mut bits = opts_bits(&o);
                        bits ^= 1 << b;
                        o = with_bits(&o, bits);
                    }
                    8..=11 => {
                        o.layout = crate::driver::Layout::from_index(a as usize);
                    }
                    _ => {
                        let Some(b2) = rd.u8() else { break };
                        let lay = o.layout;
                        o = with_bits(&o, (u16::from(a) | (u16::from(b2) << 8)) & 0x7ff);
                        o.layout = if hi & 1 != 0 { crate::driver::Layout::from_index(b2 as usize >> 3) } else { lay };
                    }
                }
                if mode == Mode::C05 {
                    o.layout = crate::driver::Layout::Phonetic;
                }
                cur = o;
                XOp::Abs(AbsOp::Update { layout: layout_index(&o), bits: opts_bits(&o) })
            }
            _ => {
                if hi < 8 {
                    XOp::Abs(AbsOp::Restart)
                } else {
                    let Some(f) = rd.u8() else { break };
                    XOp::UserEdit(f)
                }
            }
        };
        ops.push(x);
    }
    Some(Decoded { opts, user_file, ops })
}

fn layout_index(o: &Opts) -> usize {
    match o.layout {
        crate::driver::Layout::Phonetic => 0,
        crate::driver::Layout::Probhat => 1,
        _ => 2,
    }
}

pub fn opts_bits(o: &Opts) -> u16 {
    [o.english, o.psug, o.fsug, o.vowel, o.chandra, o.kar, o.reph, o.numpad, o.karorder, o.ansi, o.smart].iter().enumerate().map(|(i, b)| (*b as u16) << i).sum()
}

fn with_bits(o: &Opts, bits: u16) -> Opts {
    let mut n = Opts::from_bits(layout_index(o), bits);
    n.layout = o.layout;
    n.nodata = o.nodata;
    n
}

pub fn readable(d: &Decoded) -> Vec<String> {
    let mut out = vec![format!("options {:?} user-file {:?}", d.opts.letters(), d.user_file)];
    for op in &d.ops {
        out.push(match op {
            XOp::Abs(AbsOp::Text { keys: ks, sel }) => {
                let t: String = ks.iter().map(|(c, m)| keys().by_code(*c).and_then(|k| k.ascii).map(|a| if *m == 0 { a.to_string() } else { format!("<{a}+{m}>") }).unwrap_or_else(|| format!("<#{c}+{m}>"))).collect();
                format!("type {t:?} ({sel:?})")
            }
            XOp::Abs(o) => format!("{o:?}"),
            XOp::UserEdit(f) => format!("user auto-correct list := {:?}, update-engine", user_file_flavour(*f)),
        });
    }
    out
}

fn case_of(mode: Mode, bytes: &[u8], d: &Decoded) -> Value {
    json!({"oracle_mode": mode.id(), "bytes_hex": hex(bytes), "readable": readable(d)})
}

pub fn hex(b: &[u8]) -> String {
    b.iter().map(|x| format!("{x:02x}")).collect()
}
pub fn unhex(s: &str) -> Vec<u8> {
    (0..s.len() / 2).filter_map(|i| u8::from_str_radix(&s[2 * i..2 * i + 2], 16).ok()).collect()
}

fn pf(p: PanicInfo, case: &dyn Fn() -> Value) -> Failure {
    Failure::new(panic_kind(&p), p.to_string(), case())
}

/// Monotone, unmistakably different time stamps for user-file edits.
fn stamp(n: u64) -> std::time::SystemTime {
    std::time::UNIX_EPOCH + std::time::Duration::from_secs(1_600_000_000 + n * 1000)
}

fn write_user_file(sb: &Sandbox, content: Option<&str>, n: u64) {
    match content {
        Some(c) => {
            std::fs::write(sb.autocorrect_file(), c).expect("user file");
            if let Ok(f) = std::fs::File::options().write(true).open(sb.autocorrect_file()) {
                let _ = f.set_modified(stamp(n));
            }
        }
        None => {
            let _ = std::fs::remove_file(sb.autocorrect_file());
        }
    }
}

/// Execute one byte string under the oracle of `mode`.
pub fn run_bytes(run: &Run, mode: Mode, bytes: &[u8], st: &mut Stats) -> Result<(), Failure> {
    let bytes = &bytes[..bytes.len().min(MAX_LEN)];
    let Some(d) = decode(mode, bytes) else {
        st.skip("oracle-input-shorter-than-its-header");
        return Ok(());
    };
    st.count("oracle-histories", 1);
    let sb = Sandbox::new();
    write_user_file(&sb, d.user_file.as_deref(), 0);
    if d.user_file.is_some() {
        st.label("oracle-with-user-auto-correct-list");
    }
    let r = match mode {
        Mode::C02 | Mode::C16 => {
            let ops: Vec<AbsOp> = d.ops.iter().filter_map(|x| if let XOp::Abs(a) = x { Some(a.clone()) } else { None }).collect();
            let before = st.nontrivial.len();
            let r = if mode == Mode::C02 { c02::run_history_in(run, &d.opts, &ops, st, &sb) } else { c16::run_history_in(run, &d.opts, &ops, st, &sb) };
            if st.nontrivial.len() > before {
                st.label("oracle-nontrivial-history");
            }
            r.map_err(|mut f| {
                f.case = json!({"oracle_mode": mode.id(), "bytes_hex": hex(bytes), "readable": readable(&d), "trace": f.case});
                f
            })
        }
        Mode::C06 | Mode::C11 | Mode::C05 => shadow(run, mode, bytes, &d, &sb, st),
        Mode::C17 => pair(run, bytes, &d, st),
    };
    r
}

// ---------------------------------------------------------------------------------------------
// C06 / C11 / C05: the long-lived context against contexts created at that moment

struct Shadow {
    ctx: Option<(Ctx, Sandbox)>,
    /// a session boundary was crossed: the next event gets a newly created shadow
    stale: bool,
}

fn shadow(run: &Run, mode: Mode, bytes: &[u8], d: &Decoded, sb: &Sandbox, st: &mut Stats) -> Result<(), Failure> {
    let case = || case_of(mode, bytes, d);
    let mut it = match Interp::new(d.opts, sb) {
        Ok(it) => it,
        Err(p) => return Err(pf(p.info, &case)),
    };
    let mut fl = c06::Flags { was_ongoing: false, keys_in_word: 0, raw: String::new() };
    let mut sh = Shadow { ctx: None, stale: true };
    let mut updated = false; // C11: an update-engine has been executed in this context's life
    let mut edits = 0u64;
    let mut boundaries = 0u32;
    let mut compared_lists = 0u32;
    let mut compared_lists_after_update = 0u32;
    let mut c05_checks = 0u32;
    let mut c05_with_backspace = 0u32;
    let mut word_had_backspace = false;
    let mut last_key: Option<(char, u8)> = None; // C05: the last event of the current word was this key
    let mut result: Result<(), Failure> = Ok(());

    'ops: for (oi, x) in d.ops.iter().enumerate() {
        let op = match x {
            XOp::UserEdit(f) => {
                if mode == Mode::C06 || it.ctx.ongoing() {
                    st.skip("oracle-user-edit-not-applicable");
                    continue;
                }
                edits += 1;
                write_user_file(sb, user_file_flavour(*f).as_deref(), edits);
                st.label("oracle-user-list-edited-under-the-live-context");
                let o = it.ctx.opts;
                AbsOp::Update { layout: layout_index(&o), bits: opts_bits(&o) }
            }
            XOp::Abs(a) => a.clone(),
        };
        if mode == Mode::C06 && matches!(op, AbsOp::Update { .. } | AbsOp::Restart) {
            st.skip("oracle-c06-no-reconfiguration");
            continue;
        }
        // C05: before a word ends, the suggestion of its last key is compared with a brand-new context that types
        // the surviving text directly
        if mode == Mode::C05 && matches!(op, AbsOp::Commit { .. } | AbsOp::Finish | AbsOp::CtrlBackspace) {
            if let (Some((_, sel)), Some(got), true, true) = (last_key, it.last.clone(), it.ctx.opts.is_phonetic(), it.ctx.ongoing()) {
                if !fl.raw.is_empty() {
                    let copy = sb.duplicate();
                    let fresh = Ctx::new(it.ctx.opts, &copy).map_err(|p| pf(p, &case))?;
                    let chars: Vec<char> = fl.raw.chars().collect();
                    let mut want = None;
                    for (i, ch) in chars.iter().enumerate() {
                        want = Some(fresh.ch(*ch, if i + 1 == chars.len() { sel } else { 0 }).map_err(|p| pf(p, &case))?);
                    }
                    let want = want.unwrap();
                    c05_checks += 1;
                    if word_had_backspace {
                        c05_with_backspace += 1;
                    }
                    if want != got {
                        return Err(Failure::new(
                            "oracle:history-dependent-suggestion",
                            format!("op #{oi}: surviving text {:?} ({}): the used context shows {} but a brand-new context typing it directly shows {}", fl.raw, it.ctx.opts.letters(), got.short(), want.short()),
                            case(),
                        ));
                    }
                }
            }
        }
        // update-engine keeps the data directory the context was created with
        let update_to: Option<Opts> = if let AbsOp::Update { layout, bits } = &op {
            if it.ctx.ongoing() {
                st.skip("oracle-update-not-idle");
                continue;
            }
            let mut o = Opts::from_bits(*layout, *bits);
            o.nodata = it.ctx.opts.nodata;
            Some(o)
        } else {
            None
        };
        let mut obs = |s: &Step| -> Result<(), Failure> {
            // raw text model and the flag invariants of C06 (judged in C06 mode only; the model is needed everywhere)
            if mode == Mode::C06 {
                c06::invariants(run, st, &mut fl, s, &case)?;
            } else {
                match s.ev {
                    Ev::Key { code, .. } => {
                        if s.ctx.opts.is_phonetic() {
                            if let Some(c) = keys().by_code(*code).and_then(|k| k.ascii) {
                                fl.raw.push(c);
                            }
                        }
                    }
                    Ev::Backspace => {
                        fl.raw.pop();
                    }
                    _ => fl.raw.clear(),
                }
                if !s.ctx.ongoing() {
                    fl.raw.clear();
                }
            }
            match s.ev {
                Ev::Key { code, sel, .. } => last_key = keys().by_code(*code).and_then(|k| k.ascii).map(|c| (c, *sel)),
                Ev::Backspace => {
                    last_key = None;
                    word_had_backspace = true;
                }
                _ => {
                    last_key = None;
                    word_had_backspace = false;
                }
            }
            if !s.ctx.ongoing() {
                word_had_backspace = false;
            }
            if mode == Mode::C05 {
                return Ok(());
            }
            if matches!(s.ev, Ev::Update(_)) {
                updated = true;
            }
            // the shadow: a context created at the first event after a session boundary, over a copy of the user files
            let boundary_event = matches!(s.ev, Ev::Commit(_) | Ev::Finish | Ev::Update(_) | Ev::Restart);
            if sh.stale && !boundary_event {
                // created AFTER the used context handled the event: only commits write files, and a commit is a boundary
                let copy = sb.duplicate();
                let c = Ctx::new(s.ctx.opts, &copy).map_err(|p| pf(p, &case))?;
                sh.ctx = Some((c, copy));
                sh.stale = false;
                boundaries += 1;
            }
            let judged = mode == Mode::C06 || updated;
            if let Some((fresh, copy)) = &sh.ctx {
                if !sh.stale {
                    let twin: Option<Rendered> = match s.ev {
                        Ev::Key { code, m, sel } => Some(fresh.key(*code, *m, *sel).map_err(|p| pf(p, &case))?),
                        Ev::Backspace => Some(fresh.backspace(false).map_err(|p| pf(p, &case))?),
                        Ev::CtrlBackspace => Some(fresh.backspace(true).map_err(|p| pf(p, &case))?),
                        Ev::Commit(i) => {
                            fresh.commit(*i).map_err(|p| pf(p, &case))?;
                            None
                        }
                        Ev::Finish => {
                            fresh.finish().map_err(|p| pf(p, &case))?;
                            None
                        }
                        _ => None,
                    };
                    if judged {
                        if let (Outcome::Suggestion(r), Some(tw)) = (s.outcome, &twin) {
                            if !r.lonely && r.cands.len() >= 2 {
                                compared_lists += 1;
                                if updated {
                                    compared_lists_after_update += 1;
                                }
                            }
                            if r != tw {
                                return Err(Failure::new(
                                    if updated { "oracle:reconfigured-context-differs-from-new" } else { "oracle:used-context-differs-from-new" },
                                    format!("event #{} ({}) under {}: the used context returns {} but a context created at the last session boundary returns {}", s.index, gen::ev_to_string(s.ev), s.ctx.opts.letters(), r.short(), tw.short()),
                                    case(),
                                ));
                            }
                        }
                        if !matches!(s.ev, Ev::Update(_) | Ev::Restart) && s.ctx.ongoing() != fresh.ongoing() {
                            return Err(Failure::new("oracle:session-flag-differs-from-new", format!("event #{} ({}): used ongoing={} new ongoing={}", s.index, gen::ev_to_string(s.ev), s.ctx.ongoing(), fresh.ongoing()), case()));
                        }
                        if matches!(s.ev, Ev::Commit(_)) && sb.parsed_selections() != copy.parsed_selections() {
                            return Err(Failure::new(
                                "oracle:commit-effect-differs-from-new",
                                format!("event #{} ({}): the store after the commit is {:?} in the used context's directory but {:?} in the new context's", s.index, gen::ev_to_string(s.ev), sb.parsed_selections(), copy.parsed_selections()),
                                case(),
                            ));
                        }
                    }
                }
            }
            // what ends a session makes the shadow stale
            let ended = boundary_event
                || matches!(s.ev, Ev::CtrlBackspace)
                || (matches!(s.ev, Ev::Backspace) && !s.ctx.ongoing() && matches!(s.outcome, Outcome::Suggestion(r) if r.is_empty()));
            if ended {
                sh.stale = true;
                sh.ctx = None;
            }
            Ok(())
        };
        let r = match update_to {
            Some(o) => it.exec(Ev::Update(o.letters()), &mut obs),
            None => it.run_op(&op, &mut obs),
        };
        match r {
            Ok(Ok(())) => {}
            Ok(Err(f)) => {
                result = Err(f);
                break 'ops;
            }
            Err(p) => {
                result = Err(pf(p.info, &case));
                break 'ops;
            }
        }
    }
    st.count("oracle-events", it.trace.len() as u64);
    st.count("oracle-new-contexts-created-at-session-boundaries", boundaries as u64);
    st.count("oracle-lists-compared", compared_lists as u64);
    st.count("oracle-c05-final-key-comparisons", c05_checks as u64);
    let nontrivial = match mode {
        Mode::C06 => boundaries >= 2 && compared_lists >= 1,
        Mode::C11 => updated && compared_lists_after_update >= 1,
        _ => c05_with_backspace >= 1,
    };
    if nontrivial && result.is_ok() {
        st.label("oracle-nontrivial-history");
        st.nontrivial(hash_of(&(mode.id(), bytes)), || json!({"oracle_mode": mode.id(), "bytes_hex": hex(bytes), "readable": readable(d).into_iter().take(24).collect::<Vec<_>>()}));
    }
    result
}

// ---------------------------------------------------------------------------------------------
// C17: two contexts that differ in the smart-quote option only

fn pair(_run: &Run, bytes: &[u8], d: &Decoded, st: &mut Stats) -> Result<(), Failure> {
    let case = || case_of(Mode::C17, bytes, d);
    let (sb_on, sb_off) = (Sandbox::new(), Sandbox::new());
    write_user_file(&sb_on, d.user_file.as_deref(), 0);
    write_user_file(&sb_off, d.user_file.as_deref(), 0);
    let with = |o: Opts, smart: bool| {
        let mut n = o;
        n.smart = smart;
        n
    };
    let mut on = Interp::new(with(d.opts, true), &sb_on).map_err(|p| pf(p.info, &case))?;
    let mut off = Ctx::new(with(d.opts, false), &sb_off).map_err(|p| pf(p, &case))?;
    let mut raw = String::new();
    let mut nontrivial = false;
    let mut compared = 0u64;
    for x in &d.ops {
        let XOp::Abs(op) = x else { continue };
        let mut op = op.clone();
        // commits: the same index goes to both contexts; the raw typed text is not committed (known finding
        // C17-raw-english-curled-wrapper: the stored Latin word is re-wrapped differently)
        if let AbsOp::Commit { frac } = &op {
            let n = on.last.as_ref().map(|r| r.choices()).unwrap_or(0);
            if n > 0 {
                let idx = ((*frac as usize) * n) >> 16;
                let is_raw = on.last.as_ref().map(|r| !r.lonely && r.cands.get(idx).map(|c| model::uncurl(c) == raw || c.is_ascii()).unwrap_or(false)).unwrap_or(false);
                if is_raw {
                    st.skip("oracle-c17-commit-of-the-raw-text-not-generated");
                    op = AbsOp::Finish;
                }
            }
        }
        let mut update_to: Option<Opts> = None;
        if let AbsOp::Update { layout, bits } = &op {
            if on.ctx.ongoing() {
                continue;
            }
            let mut o = Opts::from_bits(*layout, *bits | (1 << 10));
            o.nodata = on.ctx.opts.nodata;
            update_to = Some(o);
        }
        if matches!(op, AbsOp::LearnedPlusSuffix { .. }) {
            continue;
        }
        let mut obs = |s: &Step| -> Result<(), Failure> {
            let fixed = !s.ctx.opts.is_phonetic();
            let b: Option<Rendered> = match s.ev {
                Ev::Key { code, m, sel } => {
                    if let Some(c) = keys().by_code(*code).and_then(|k| k.ascii) {
                        raw.push(c);
                    }
                    Some(off.key(*code, *m, *sel).map_err(|p| pf(p, &case))?)
                }
                Ev::Backspace => {
                    raw.pop();
                    Some(off.backspace(false).map_err(|p| pf(p, &case))?)
                }
                Ev::CtrlBackspace => {
                    raw.clear();
                    Some(off.backspace(true).map_err(|p| pf(p, &case))?)
                }
                Ev::Commit(i) => {
                    raw.clear();
                    off.commit(*i).map_err(|p| pf(p, &case))?;
                    None
                }
                Ev::Finish => {
                    raw.clear();
                    off.finish().map_err(|p| pf(p, &case))?;
                    None
                }
                Ev::Update(o) => {
                    raw.clear();
                    off.update(with(Opts::parse(o), false), &sb_off).map_err(|p| pf(p, &case))?;
                    None
                }
                Ev::Restart => {
                    raw.clear();
                    off = Ctx::new(off.opts, &sb_off).map_err(|p| pf(p, &case))?;
                    None
                }
            };
            if !s.ctx.ongoing() {
                raw.clear();
            }
            if let (Outcome::Suggestion(a), Some(b)) = (s.outcome, &b) {
                compared += 1;
                let r = raw.clone();
                let is_raw = move |c: &str| if fixed { c.is_ascii() } else { c == r };
                if c17::compare_with(a, b, fixed, &is_raw, &case)? {
                    nontrivial = true;
                }
            }
            if s.ctx.ongoing() != off.ongoing() {
                return Err(Failure::new("oracle:session-flag-differs-between-the-pair", format!("event #{}: on={} off={}", s.index, s.ctx.ongoing(), off.ongoing()), case()));
            }
            Ok(())
        };
        let r = match update_to {
            Some(o) => on.exec(Ev::Update(o.letters()), &mut obs),
            None => on.run_op(&op, &mut obs),
        };
        match r {
            Ok(Ok(())) => {}
            Ok(Err(f)) => return Err(f),
            Err(p) => return Err(pf(p.info, &case)),
        }
    }
    st.count("oracle-events-compared", compared);
    if nontrivial {
        st.label("oracle-nontrivial-history");
        st.nontrivial(hash_of(&("C17", bytes)), || json!({"oracle_mode": "C17", "bytes_hex": hex(bytes), "readable": readable(d).into_iter().take(24).collect::<Vec<_>>()}));
    }
    Ok(())
}

// ---------------------------------------------------------------------------------------------
// parts of a check: committed corpus, generated byte strings, coverage-guided campaign

/// The committed, coverage-distilled inputs of this mode: `/verif/corpus/oracle/<id>.hex`, one input per line.
pub fn corpus_file(mode: Mode) -> String {
    format!("{}/corpus/oracle/{}.hex", crate::runner::VERIF_ROOT, mode.id())
}

pub fn load_corpus(mode: Mode) -> Vec<Vec<u8>> {
    std::fs::read_to_string(corpus_file(mode)).map(|t| t.lines().filter(|l| !l.trim().is_empty() && !l.starts_with('#')).map(|l| unhex(l.trim())).collect()).unwrap_or_default()
}

/// Replay the committed corpus (every input once) and run `cases` generated byte strings per shard.
pub fn in_process_parts(run: &Run, mode: Mode, cases: u32) {
    use proptest::prelude::*;
    let corpus = load_corpus(mode);
    if !corpus.is_empty() {
        run.exhaustive(&format!("byte-coded histories: committed coverage-distilled corpus ({} inputs, oracle of {})", corpus.len(), mode.id()), &corpus, |_| (), |b: &Vec<u8>, st, _| run_bytes(run, mode, b, st));
    }
    // generated: header bytes free; half of the inputs free-form (op bytes biased towards typing), half structured
    let strat = || {
        let op = prop_oneof![
            6 => (0u8..16, any::<u8>()).prop_map(|(h, a)| vec![(h << 4) | 5, a]),
            6 => (0u8..16, any::<u8>()).prop_map(|(h, a)| vec![(h << 4) | 1, a]),
            1 => (0u8..16, any::<u8>()).prop_map(|(h, a)| vec![(h << 4) | 4, a]),
            1 => (0u8..16, any::<u8>()).prop_map(|(h, a)| vec![(h << 4) | 7, a]),
            3 => Just(vec![8u8]),
            1 => Just(vec![10u8]),
            3 => (0u8..16, any::<u8>()).prop_map(|(h, a)| vec![(h << 4) | 11, a]),
            1 => Just(vec![13u8]),
            2 => (0u8..16, any::<u8>(), any::<u8>()).prop_map(|(h, a, b)| vec![(h << 4) | 14, a, b]),
            1 => (0u8..16, any::<u8>()).prop_map(|(h, a)| vec![(h << 4) | 15, a]),
        ];
        let free = (proptest::collection::vec(any::<u8>(), 6), proptest::collection::vec(op, 1..40)).prop_map(|(h, ops)| {
            let mut v = h;
            for o in ops {
                v.extend(o);
            }
            v
        });
        // structured: a few texts (a pool word or a short run of characters) that come back again and again, each ended
        // in one of six ways, with at most one other thing in between (a single option flip, a layout switch, a
        // user-list edit, a restart): "the same text on both sides of X" for every X the byte code knows
        let text = prop_oneof![
            3 => (0u8..16, any::<u8>()).prop_map(|(h, a)| vec![(h << 4) | 5, a]),
            2 => proptest::collection::vec((0u8..8, any::<u8>()).prop_map(|(h, a)| vec![(h << 4) | 1, a]), 1..4).prop_map(|v| v.concat()),
        ];
        let ending = prop_oneof![
            2 => Just(vec![13u8]),
            2 => any::<u8>().prop_map(|f| vec![11u8, f]),
            1 => Just(vec![0x0bu8, 0]),
            1 => Just(vec![10u8]),
            2 => (1usize..7).prop_map(|k| vec![8u8; k]),
            1 => Just(vec![]),
        ];
        let between = prop_oneof![
            5 => Just(vec![]),
            3 => (0u8..8, 0u8..11).prop_map(|(h, b)| vec![(h << 4) | 14, b]),
            1 => (8u8..12, any::<u8>()).prop_map(|(h, a)| vec![(h << 4) | 14, a]),
            1 => (8u8..16, any::<u8>()).prop_map(|(h, f)| vec![(h << 4) | 15, f]),
            1 => Just(vec![0x0fu8]),
        ];
        let structured = (proptest::collection::vec(any::<u8>(), 6), proptest::collection::vec(text, 1..4), proptest::collection::vec((0usize..4, ending, between), 2..12)).prop_map(|(h, texts, steps)| {
            let mut v = h;
            for (ti, e, b) in steps {
                v.extend(&texts[ti % texts.len()]);
                v.extend(e);
                v.extend(b);
            }
            v
        });
        prop_oneof![1 => free, 1 => structured]
    };
    run.sharded(&format!("byte-coded histories: generated (oracle of {})", mode.id()), 16, cases, 300, strat, |_| (), |b: &Vec<u8>, st, _| run_bytes(run, mode, b, st));
}

pub fn replay_case(run: &Run, case: &Value) -> Option<Result<(), Failure>> {
    let mode = Mode::parse(case["oracle_mode"].as_str()?)?;
    let bytes = unhex(case["bytes_hex"].as_str()?);
    let mut st = Stats::new();
    Some(run_bytes(run, mode, &bytes, &mut st))
}

/// Called by the binary after the property module's own parts: the byte-coded parts of the six properties that
/// have an oracle mode.  `VERIF_ORACLE_CASES` overrides the number of generated byte strings per shard.
pub fn parts_of_check(run: &Run) {
    let Some(mode) = Mode::parse(run.id) else { return };
    let cases = std::env::var("VERIF_ORACLE_CASES").ok().and_then(|s| s.parse().ok()).unwrap_or(run.tier.pick(40, 1500));
    in_process_parts(run, mode, cases);
    run.require_label("oracle-nontrivial-history", 10);
    if run.tier == crate::runner::Tier::Thorough && !run.has_failures() {
        guided_campaign(run, mode);
    }
}

/// Thorough tier: coverage-guided libFuzzer campaign (target `oracle`, 16 jobs) seeded with the committed corpus.
/// A saved input is confirmed in-process before it is reported (the replay file is the saved input itself).
pub fn guided_campaign(run: &Run, mode: Mode) {
    use crate::fuzz;
    use std::path::{Path, PathBuf};
    let bin = fuzz::oracle_bin();
    if !Path::new(bin).exists() {
        run.health.lock().unwrap().push(format!("{bin} is missing (fuzz build failed?)"));
        return;
    }
    let root = crate::driver::scratch_root().join("oracle-fuzz");
    let _ = std::fs::remove_dir_all(&root);
    let out = crate::runner::out_root();
    let prefix = format!("{out}/replays/{}-oracle-", mode.id());
    let _ = std::fs::create_dir_all(format!("{out}/replays"));
    let before: std::collections::HashSet<PathBuf> = fuzz::run_dirs_once(bin, &[], &prefix, &root).artifacts.into_iter().collect();
    let runs: u64 = std::env::var("VERIF_ORACLE_RUNS").ok().and_then(|s| s.parse().ok()).unwrap_or(1500);
    let mut total = 0u64;
    for (name, seeded, share) in [("seeded with the committed corpus", true, 3u64), ("empty corpus", false, 1)] {
        let corpus = root.join(if seeded { "seeded" } else { "empty" });
        let seeds = corpus.join("seeds");
        std::fs::create_dir_all(&seeds).unwrap();
        if seeded {
            for (i, b) in load_corpus(mode).iter().enumerate() {
                let _ = std::fs::write(seeds.join(format!("c{i:05}")), b);
            }
        }
        let o = fuzz::campaign_env(bin, &corpus, runs * share / 4 + 1, 16, run.seed, MAX_LEN, &prefix, &root, true, &[("VERIF_ORACLE_MODE", mode.id())]);
        total += o.executed;
        run.parts.lock().unwrap().push(json!({"part": format!("libFuzzer campaign `oracle` mode {} ({name}, 16 jobs)", mode.id()), "runs_approximate": o.executed, "ok": o.ok}));
        {
            let mut st = run.stats.lock().unwrap();
            st.count("fuzz-slow-unit-notes-ignored", o.slow_units);
            st.count("fuzz-timeouts-under-load-not-reproduced", o.timeouts_not_reproduced);
        }
        if o.oom > 0 {
            run.health.lock().unwrap().push(format!("oracle campaign {name}: {} out-of-memory report(s) - inconclusive", o.oom));
        }
        let new: Vec<PathBuf> = o.artifacts.iter().filter(|a| !before.contains(*a)).cloned().collect();
        if !o.ok || !new.is_empty() {
            // confirm in-process: the saved input must fail again under the same oracle
            let mut confirmed = None;
            for a in &new {
                if let Ok(bytes) = std::fs::read(a) {
                    let mut st = Stats::new();
                    if let Err(f) = run_bytes(run, mode, &bytes, &mut st) {
                        confirmed = Some((a.clone(), f));
                        break;
                    }
                }
            }
            match confirmed {
                Some((a, mut f)) => {
                    f.message = format!("found by the guided campaign ({name}): {}", f.message);
                    f.artifact = Some(a);
                    run.fail(f);
                }
                None => run.health.lock().unwrap().push(format!("oracle campaign {name} stopped ({}) but no saved input fails again in-process - inconclusive", o.report.lines().take(4).collect::<Vec<_>>().join(" | "))),
            }
            break;
        }
    }
    run.stats.lock().unwrap().count("oracle_fuzz_runs_approximate", total);
    let _ = std::fs::remove_dir_all(&root);
}
