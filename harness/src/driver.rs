//! Driving the real engine: configuration through the C ABI, key table from riti.h, user-data
//! sandboxes, panic capture and a full read-out ("rendering") of every returned suggestion.

use riti::config::Config;
use riti::context::RitiContext;
use riti::suggestion::Suggestion;
use serde::{Deserialize, Serialize};
use std::cell::RefCell;
use std::collections::HashMap;
use std::ffi::CString;
use std::os::raw::c_char;
use std::panic::{catch_unwind, AssertUnwindSafe};
use std::path::{Path, PathBuf};
use std::sync::atomic::{AtomicU64, AtomicUsize, Ordering};
use std::sync::{Mutex, OnceLock};

#[allow(improper_ctypes)]
extern "C" {
    fn riti_config_new() -> *mut Config;
    fn riti_config_set_layout_file(p: *mut Config, path: *const c_char) -> bool;
    fn riti_config_set_database_dir(p: *mut Config, path: *const c_char) -> bool;
    fn riti_config_set_suggestion_include_english(p: *mut Config, o: bool);
    fn riti_config_set_phonetic_suggestion(p: *mut Config, o: bool);
    fn riti_config_set_fixed_suggestion(p: *mut Config, o: bool);
    fn riti_config_set_fixed_auto_vowel(p: *mut Config, o: bool);
    fn riti_config_set_fixed_auto_chandra(p: *mut Config, o: bool);
    fn riti_config_set_fixed_traditional_kar(p: *mut Config, o: bool);
    fn riti_config_set_fixed_old_reph(p: *mut Config, o: bool);
    fn riti_config_set_fixed_numpad(p: *mut Config, o: bool);
    fn riti_config_set_fixed_old_kar_order(p: *mut Config, o: bool);
    fn riti_config_set_ansi_encoding(p: *mut Config, o: bool);
    fn riti_config_set_smart_quote(p: *mut Config, o: bool);
}

/// Root of the riti checkout whose data files and header are read at run time.  Always /repo for the
/// registered checks; `VERIF_REPO` exists only so that a scratch copy of the harness can be pointed at a
/// scratch worktree (sensitivity experiments that must not touch /repo).
pub fn repo() -> &'static str {
    static R: OnceLock<String> = OnceLock::new();
    R.get_or_init(|| std::env::var("VERIF_REPO").unwrap_or_else(|_| "/repo".to_string()))
}
pub fn data_dir() -> &'static str {
    static R: OnceLock<String> = OnceLock::new();
    R.get_or_init(|| format!("{}/data", repo()))
}
pub fn probhat() -> &'static str {
    static R: OnceLock<String> = OnceLock::new();
    R.get_or_init(|| format!("{}/data/Probhat.json", repo()))
}
pub const SYNTHETIC: &str = "/verif/layouts/synthetic.json";
/// A different fixed layout stored under the SAME file name as the bundled Probhat.json, in another directory.
pub const TWIN: &str = "/verif/layouts/twin/Probhat.json";
/// Assignments a layout author may make and that are easy to mishandle: white space only, leading/trailing white
/// space, lone joiners, ASCII, emoji, long values (used by C04 only).
pub const EXOTIC: &str = "/verif/layouts/exotic.json";

#[derive(Clone, Copy, Debug, PartialEq, Eq, Hash, Serialize, Deserialize)]
pub enum Layout {
    Phonetic,
    Probhat,
    Synthetic,
    Twin,
    Exotic,
    /// a layout file in this process' scratch directory that a check rewrites between two loads (C04)
    Rewritten,
}

/// Path of the layout file of `Layout::Rewritten` (per process).
pub fn rewritten_layout_path() -> &'static str {
    static P: OnceLock<String> = OnceLock::new();
    P.get_or_init(|| scratch_root().join("rewritten-layout.json").to_string_lossy().to_string())
}

impl Layout {
    pub fn path(self) -> &'static str {
        match self {
            Layout::Phonetic => "avro_phonetic",
            Layout::Probhat => probhat(),
            Layout::Synthetic => SYNTHETIC,
            Layout::Twin => TWIN,
            Layout::Exotic => EXOTIC,
            Layout::Rewritten => rewritten_layout_path(),
        }
    }
    pub fn from_index(i: usize) -> Layout {
        [Layout::Phonetic, Layout::Probhat, Layout::Synthetic][i % 3]
    }
}

/// The 11 option booleans plus the layout.  Letter code (used in replays and samples):
/// P=Probhat S=synthetic (none = phonetic); e=English s=phonetic suggestion f=fixed suggestion
/// v=auto vowel c=auto chandrabindu k=traditional kar r=old reph n=numpad o=old kar order a=ANSI
/// q=smart quote; D = bundled data directory NOT set.
#[derive(Clone, Copy, Debug, PartialEq, Eq, Hash, Serialize, Deserialize)]
pub struct Opts {
    pub layout: Layout,
    pub english: bool,
    pub psug: bool,
    pub fsug: bool,
    pub vowel: bool,
    pub chandra: bool,
    pub kar: bool,
    pub reph: bool,
    pub numpad: bool,
    pub karorder: bool,
    pub ansi: bool,
    pub smart: bool,
    pub nodata: bool,
}

impl Opts {
    pub fn parse(s: &str) -> Opts {
        Opts {
            layout: if s.contains('P') {
                Layout::Probhat
            } else if s.contains('S') {
                Layout::Synthetic
            } else if s.contains('T') {
                Layout::Twin
            } else if s.contains('X') {
                Layout::Exotic
            } else if s.contains('W') {
                Layout::Rewritten
            } else {
                Layout::Phonetic
            },
            english: s.contains('e'),
            psug: s.contains('s'),
            fsug: s.contains('f'),
            vowel: s.contains('v'),
            chandra: s.contains('c'),
            kar: s.contains('k'),
            reph: s.contains('r'),
            numpad: s.contains('n'),
            karorder: s.contains('o'),
            ansi: s.contains('a'),
            smart: s.contains('q'),
            nodata: s.contains('D'),
        }
    }
    pub fn letters(&self) -> String {
        let mut s = String::new();
        match self.layout {
            Layout::Phonetic => {}
            Layout::Probhat => s.push('P'),
            Layout::Synthetic => s.push('S'),
            Layout::Twin => s.push('T'),
            Layout::Exotic => s.push('X'),
            Layout::Rewritten => s.push('W'),
        }
        for (b, c) in [
            (self.english, 'e'),
            (self.psug, 's'),
            (self.fsug, 'f'),
            (self.vowel, 'v'),
            (self.chandra, 'c'),
            (self.kar, 'k'),
            (self.reph, 'r'),
            (self.numpad, 'n'),
            (self.karorder, 'o'),
            (self.ansi, 'a'),
            (self.smart, 'q'),
            (self.nodata, 'D'),
        ] {
            if b {
                s.push(c);
            }
        }
        s
    }
    /// Build from a layout index and 11 option bits (bit order as in `letters`).
    pub fn from_bits(layout: usize, bits: u16) -> Opts {
        let b = |i: u16| bits & (1 << i) != 0;
        Opts {
            layout: Layout::from_index(layout),
            english: b(0),
            psug: b(1),
            fsug: b(2),
            vowel: b(3),
            chandra: b(4),
            kar: b(5),
            reph: b(6),
            numpad: b(7),
            karorder: b(8),
            ansi: b(9),
            smart: b(10),
            nodata: false,
        }
    }
    pub fn is_phonetic(&self) -> bool {
        self.layout == Layout::Phonetic
    }
    /// Does this configuration return list-style suggestions?
    pub fn lists(&self) -> bool {
        if self.is_phonetic() {
            self.psug
        } else {
            self.fsug
        }
    }
}

// ---------------------------------------------------------------------------------------------
// user-data sandboxes

static SCRATCH_ROOT: OnceLock<PathBuf> = OnceLock::new();
static SANDBOX_SEQ: AtomicUsize = AtomicUsize::new(0);
static ENV_LOCK: Mutex<()> = Mutex::new(());

pub fn scratch_root() -> &'static Path {
    SCRATCH_ROOT.get_or_init(|| {
        let base = std::env::var("VERIF_SCRATCH").map(PathBuf::from).unwrap_or_else(|_| {
            if Path::new("/dev/shm").is_dir() {
                PathBuf::from("/dev/shm")
            } else {
                PathBuf::from("/verif/.scratch")
            }
        });
        let p = base.join(format!("riti-verif-{}", std::process::id()));
        let _ = std::fs::remove_dir_all(&p);
        std::fs::create_dir_all(&p).expect("scratch root");
        p
    })
}

pub fn cleanup_scratch() {
    if let Some(p) = SCRATCH_ROOT.get() {
        let _ = std::fs::remove_dir_all(p);
    }
}

/// One XDG_DATA_HOME directory.  `user_dir()` is where riti looks for its two files.
pub struct Sandbox {
    base: PathBuf,
}

impl Sandbox {
    /// New sandbox whose user directory exists and is writable (the in-contract environment).
    pub fn new() -> Sandbox {
        let sb = Sandbox::new_bare();
        std::fs::create_dir_all(sb.user_dir()).expect("sandbox dir");
        sb
    }
    /// New sandbox base without the `openbangla-keyboard` directory inside.
    pub fn new_bare() -> Sandbox {
        let n = SANDBOX_SEQ.fetch_add(1, Ordering::Relaxed);
        let base = scratch_root().join(format!("sb{n}"));
        std::fs::create_dir_all(&base).expect("sandbox base");
        Sandbox { base }
    }
    pub fn base(&self) -> &Path {
        &self.base
    }
    pub fn user_dir(&self) -> PathBuf {
        self.base.join("openbangla-keyboard")
    }
    pub fn selection_file(&self) -> PathBuf {
        self.user_dir().join("phonetic-candidate-selection.json")
    }
    pub fn autocorrect_file(&self) -> PathBuf {
        self.user_dir().join("autocorrect.json")
    }
    pub fn read_selections(&self) -> Option<Vec<u8>> {
        std::fs::read(self.selection_file()).ok()
    }
    pub fn parsed_selections(&self) -> Option<HashMap<String, String>> {
        self.read_selections().and_then(|b| serde_json::from_slice(&b).ok())
    }
    /// Remove both user files (cheap reset between cases).
    pub fn reset(&self) {
        let _ = std::fs::remove_file(self.selection_file());
        let _ = std::fs::remove_file(self.autocorrect_file());
    }
    /// Copy of this sandbox's user files into a new sandbox (mtime of autocorrect preserved).
    pub fn duplicate(&self) -> Sandbox {
        let sb = Sandbox::new();
        for (from, to) in [
            (self.selection_file(), sb.selection_file()),
            (self.autocorrect_file(), sb.autocorrect_file()),
        ] {
            if let Ok(bytes) = std::fs::read(&from) {
                std::fs::write(&to, bytes).expect("copy user file");
                if let Ok(m) = std::fs::metadata(&from).and_then(|m| m.modified()) {
                    if let Ok(f) = std::fs::File::options().write(true).open(&to) {
                        let _ = f.set_modified(m);
                    }
                }
            }
        }
        sb
    }
}

impl Drop for Sandbox {
    fn drop(&mut self) {
        let _ = std::fs::remove_dir_all(&self.base);
    }
}

/// Build a `Config` exactly as a front-end does (C ABI), with the user directory frozen to `sb`.
/// update-engine calls made with the SAME configuration object, modified through its setters
pub static CONFIG_OBJECTS_KEPT: std::sync::atomic::AtomicU64 = std::sync::atomic::AtomicU64::new(0);

pub fn mk_config(o: &Opts, sb: &Sandbox) -> Box<Config> {
    mk_config_at(o, sb.base())
}

pub fn mk_config_at(o: &Opts, xdg_base: &Path) -> Box<Config> {
    let _g = ENV_LOCK.lock().unwrap_or_else(|e| e.into_inner());
    std::env::set_var("XDG_DATA_HOME", xdg_base);
    unsafe {
        let c = riti_config_new();
        let l = CString::new(o.layout.path()).unwrap();
        assert!(riti_config_set_layout_file(c, l.as_ptr()), "layout path rejected");
        if !o.nodata {
            let d = CString::new(data_dir()).unwrap();
            assert!(riti_config_set_database_dir(c, d.as_ptr()), "data dir rejected");
        }
        // A front-end may call the option setters in any order: the order is varied with the option
        // set itself (deterministically), so that no check depends on one particular order.
        let setters: [&dyn Fn(); 11] = [
            &|| riti_config_set_suggestion_include_english(c, o.english),
            &|| riti_config_set_phonetic_suggestion(c, o.psug),
            &|| riti_config_set_fixed_suggestion(c, o.fsug),
            &|| riti_config_set_fixed_auto_vowel(c, o.vowel),
            &|| riti_config_set_fixed_auto_chandra(c, o.chandra),
            &|| riti_config_set_fixed_traditional_kar(c, o.kar),
            &|| riti_config_set_fixed_old_reph(c, o.reph),
            &|| riti_config_set_fixed_numpad(c, o.numpad),
            &|| riti_config_set_fixed_old_kar_order(c, o.karorder),
            &|| riti_config_set_ansi_encoding(c, o.ansi),
            &|| riti_config_set_smart_quote(c, o.smart),
        ];
        let h = {
            use std::hash::{Hash, Hasher};
            let mut hs = std::collections::hash_map::DefaultHasher::new();
            o.hash(&mut hs);
            hs.finish() as usize
        };
        let (rot, rev) = (h % 11, (h / 11) % 2 == 1);
        for i in 0..11 {
            let j = (i + rot) % 11;
            setters[if rev { 10 - j } else { j }]();
        }
        Box::from_raw(c)
    }
}

// ---------------------------------------------------------------------------------------------
// key table: codes from include/riti.h; the character and layout-entry columns are transcribed by
// hand from the header's names and the layout file format (NOT from keycodes.rs / layout.rs).

#[derive(Clone, Debug)]
pub struct KeyInfo {
    pub name: String, // without the VC_ prefix
    pub code: u16,
    pub ascii: Option<char>,
    /// `Key_<x>` stem (planes `_Normal` / `_AltGr` are appended) or the `Num…` entry name.
    pub entry: Option<String>,
    pub numpad: bool,
}

const PUNCT_NAMES: &[(&str, char, &str)] = &[
    ("GRAVE", '`', "Grave"),
    ("TILDE", '~', "Tilde"),
    ("EXCLAIM", '!', "Exclaim"),
    ("AT", '@', "At"),
    ("HASH", '#', "Hash"),
    ("DOLLAR", '$', "Dollar"),
    ("PERCENT", '%', "Percent"),
    ("CIRCUM", '^', "Circum"),
    ("AMPERSAND", '&', "Ampersand"),
    ("ASTERISK", '*', "Asterisk"),
    ("PAREN_LEFT", '(', "ParenLeft"),
    ("PAREN_RIGHT", ')', "ParenRight"),
    ("UNDERSCORE", '_', "UnderScore"),
    ("PLUS", '+', "Plus"),
    ("MINUS", '-', "Minus"),
    ("EQUALS", '=', "Equals"),
    ("BRACKET_LEFT", '[', "BracketLeft"),
    ("BRACKET_RIGHT", ']', "BracketRight"),
    ("BACK_SLASH", '\\', "BackSlash"),
    ("BRACE_LEFT", '{', "BraceLeft"),
    ("BRACE_RIGHT", '}', "BraceRight"),
    ("BAR", '|', "Bar"),
    ("SEMICOLON", ';', "Semicolon"),
    ("APOSTROPHE", '\'', "Apostrophe"),
    ("COMMA", ',', "Comma"),
    ("PERIOD", '.', "Period"),
    ("SLASH", '/', "Slash"),
    ("COLON", ':', "Colon"),
    ("QUOTE", '"', "Quote"),
    ("LESS", '<', "Less"),
    ("GREATER", '>', "Greater"),
    ("QUESTION", '?', "Question"),
];

fn describe_key(name: &str) -> (Option<char>, Option<String>, bool) {
    if let Some(r) = name.strip_prefix("KP_") {
        return match r {
            "DIVIDE" => (Some('/'), Some("NumDivide".into()), true),
            "MULTIPLY" => (Some('*'), Some("NumMultiply".into()), true),
            "SUBTRACT" => (Some('-'), Some("NumSubtract".into()), true),
            "ADD" => (Some('+'), Some("NumAdd".into()), true),
            "DECIMAL" => (Some('.'), Some("NumDecimal".into()), true),
            // The layout file format has no entry for these two keys.
            "EQUALS" => (Some('='), None, true),
            "ENTER" => (None, None, true),
            d if d.len() == 1 && d.as_bytes()[0].is_ascii_digit() => {
                (d.chars().next(), Some(format!("Num{d}")), true)
            }
            _ => (None, None, true),
        };
    }
    if name.len() == 1 {
        let c = name.chars().next().unwrap();
        if c.is_ascii_uppercase() {
            let l = c.to_ascii_lowercase();
            return (Some(l), Some(format!("Key_{l}")), false);
        }
        if c.is_ascii_digit() {
            return (Some(c), Some(format!("Key_{c}")), false);
        }
    }
    if let Some(l) = name.strip_suffix("_SHIFT") {
        if l.len() == 1 {
            let c = l.chars().next().unwrap();
            return (Some(c), Some(format!("Key_{c}")), false);
        }
    }
    if let Some((_, c, e)) = PUNCT_NAMES.iter().find(|(n, _, _)| *n == name) {
        return (Some(*c), Some(format!("Key_{e}")), false);
    }
    (None, None, false)
}

pub struct KeyTable {
    pub keys: Vec<KeyInfo>,
    by_code: HashMap<u16, usize>,
    by_char: HashMap<char, u16>,
    by_name: HashMap<String, usize>,
}

impl KeyTable {
    fn load() -> KeyTable {
        let h = std::fs::read_to_string(format!("{}/include/riti.h", repo())).expect("riti.h");
        let mut keys = vec![];
        for l in h.lines() {
            if let Some(r) = l.strip_prefix("#define VC_") {
                let mut it = r.split_whitespace();
                let name = it.next().unwrap().to_string();
                let code: u16 = it.next().unwrap().parse().expect("key code");
                let (ascii, entry, numpad) = describe_key(&name);
                keys.push(KeyInfo { name, code, ascii, entry, numpad });
            }
        }
        let mut by_code = HashMap::new();
        let mut by_char = HashMap::new();
        let mut by_name = HashMap::new();
        for (i, k) in keys.iter().enumerate() {
            by_code.insert(k.code, i);
            by_name.insert(k.name.clone(), i);
            if let (Some(c), false) = (k.ascii, k.numpad) {
                by_char.insert(c, k.code);
            }
        }
        KeyTable { keys, by_code, by_char, by_name }
    }
    pub fn by_code(&self, code: u16) -> Option<&KeyInfo> {
        self.by_code.get(&code).map(|i| &self.keys[*i])
    }
    pub fn by_name(&self, name: &str) -> Option<&KeyInfo> {
        self.by_name.get(name).map(|i| &self.keys[*i])
    }
    /// Main-block key code producing this ASCII character.
    pub fn code_for(&self, c: char) -> u16 {
        *self.by_char.get(&c).unwrap_or_else(|| panic!("no key for {c:?}"))
    }
    pub fn has_char(&self, c: char) -> bool {
        self.by_char.contains_key(&c)
    }
    /// Number-pad key code producing this ASCII character, if the header publishes one (digits, . + - * / =).
    pub fn numpad_code_for(&self, c: char) -> Option<u16> {
        self.keys.iter().find(|k| k.numpad && k.ascii == Some(c)).map(|k| k.code)
    }
    pub fn len(&self) -> usize {
        self.keys.len()
    }
}

pub fn keys() -> &'static KeyTable {
    static T: OnceLock<KeyTable> = OnceLock::new();
    T.get_or_init(KeyTable::load)
}

/// The 94 typeable ASCII characters (0x21..=0x7E).
pub fn typeable() -> Vec<char> {
    (0x21u8..0x7f).map(|b| b as char).collect()
}

// ---------------------------------------------------------------------------------------------
// panic capture

#[derive(Clone, Debug, PartialEq, Eq, Serialize, Deserialize)]
pub struct PanicInfo {
    pub file: String,
    pub line: u32,
    pub msg: String,
}

impl std::fmt::Display for PanicInfo {
    fn fmt(&self, f: &mut std::fmt::Formatter) -> std::fmt::Result {
        write!(f, "panic at {}:{}: {}", self.file, self.line, self.msg)
    }
}

thread_local! {
    static LAST_PANIC: RefCell<Option<PanicInfo>> = const { RefCell::new(None) };
}

pub static ENGINE_EVENTS: AtomicU64 = AtomicU64::new(0);

pub fn install_panic_hook() {
    std::panic::set_hook(Box::new(|info| {
        let (file, line) = info
            .location()
            .map(|l| (l.file().to_string(), l.line()))
            .unwrap_or_default();
        let msg = info
            .payload()
            .downcast_ref::<&str>()
            .map(|x| x.to_string())
            .or_else(|| info.payload().downcast_ref::<String>().cloned())
            .unwrap_or_default();
        if std::env::var("VERIF_SHOW_PANICS").is_ok() {
            eprintln!("[panic] {file}:{line} {msg}");
        }
        LAST_PANIC.with(|p| *p.borrow_mut() = Some(PanicInfo { file, line, msg }));
    }));
}

/// Run `f` against the engine; a panic (an abort at the real ABI boundary) becomes `Err`.
pub fn guarded<T>(f: impl FnOnce() -> T) -> Result<T, PanicInfo> {
    LAST_PANIC.with(|p| *p.borrow_mut() = None);
    watchdog::enter();
    let r = catch_unwind(AssertUnwindSafe(f));
    watchdog::leave();
    r.map_err(|_| {
        LAST_PANIC.with(|p| p.borrow_mut().take()).unwrap_or(PanicInfo {
            file: "?".into(),
            line: 0,
            msg: "panic without hook data".into(),
        })
    })
}

/// Per-call watchdog: a monitor thread exits the process with status 2 ("inconclusive") when a
/// single engine call runs longer than the limit.  Never reported as a violation.
pub mod watchdog {
    use std::sync::atomic::{AtomicU64, Ordering};
    use std::sync::{Mutex, OnceLock};
    use std::time::{Duration, Instant};

    const LIMIT: Duration = Duration::from_secs(30);
    static SLOTS: OnceLock<Mutex<Vec<&'static AtomicU64>>> = OnceLock::new();
    static EPOCH: OnceLock<Instant> = OnceLock::new();

    thread_local! {
        static SLOT: &'static AtomicU64 = {
            let s: &'static AtomicU64 = Box::leak(Box::new(AtomicU64::new(0)));
            SLOTS.get_or_init(|| Mutex::new(vec![])).lock().unwrap().push(s);
            s
        };
    }

    fn now_ms() -> u64 {
        EPOCH.get_or_init(Instant::now).elapsed().as_millis() as u64 + 1
    }

    pub fn enter() {
        SLOT.with(|s| s.store(now_ms(), Ordering::Relaxed));
    }
    pub fn leave() {
        SLOT.with(|s| s.store(0, Ordering::Relaxed));
    }

    pub fn start() {
        let _ = now_ms();
        std::thread::spawn(|| loop {
            std::thread::sleep(Duration::from_millis(500));
            let now = now_ms();
            if let Some(slots) = SLOTS.get() {
                for s in slots.lock().unwrap().iter() {
                    let t = s.load(Ordering::Relaxed);
                    if t != 0 && now.saturating_sub(t) > LIMIT.as_millis() as u64 {
                        if std::env::var("VERIF_JOURNAL_DIR").is_ok() {
                            // supervised run (C01): the parent turns the journal into a replay file
                            println!("HANG one engine call exceeded {LIMIT:?}");
                            std::process::exit(3);
                        }
                        println!("INCONCLUSIVE watchdog: one engine call exceeded {LIMIT:?}");
                        super::cleanup_scratch();
                        std::process::exit(2);
                    }
                }
            }
        });
    }
}

// ---------------------------------------------------------------------------------------------
// rendering of a returned suggestion

#[derive(Clone, Debug, PartialEq, Eq, Serialize, Deserialize)]
pub struct Rendered {
    pub lonely: bool,
    /// lonely: the single string; list: auxiliary text
    pub text: String,
    pub cands: Vec<String>,
    pub sel: usize,
    /// pre-edit text per index (lonely: one entry); `Err` text when the read-out panicked
    pub pre: Vec<Result<String, String>>,
}

impl Rendered {
    pub fn is_empty(&self) -> bool {
        if self.lonely {
            self.text.is_empty()
        } else {
            self.cands.is_empty()
        }
    }
    /// number of committable indices
    pub fn choices(&self) -> usize {
        if self.lonely {
            usize::from(!self.text.is_empty())
        } else {
            self.cands.len()
        }
    }
    pub fn short(&self) -> String {
        if self.lonely {
            format!("Single({:?})", self.text)
        } else {
            format!("List(aux={:?} sel={} {:?})", self.text, self.sel, self.cands)
        }
    }
}

pub fn render(s: &Suggestion) -> Rendered {
    if s.is_lonely() {
        let text = s.get_lonely_suggestion().to_string();
        let pre = vec![guarded(|| s.get_pre_edit_text(0)).map_err(|p| p.to_string())];
        Rendered { lonely: true, text, cands: vec![], sel: 0, pre }
    } else {
        let cands = s.get_suggestions().to_vec();
        let pre = (0..s.len())
            .map(|i| guarded(|| s.get_pre_edit_text(i)).map_err(|p| p.to_string()))
            .collect();
        Rendered {
            lonely: false,
            text: s.get_auxiliary_text().to_string(),
            cands,
            sel: s.previously_selected_index(),
            pre,
        }
    }
}

// ---------------------------------------------------------------------------------------------
// context wrapper

/// How `Ctx::update_with` hands the new configuration to update-engine.
#[derive(Clone, Copy, Debug, PartialEq, Eq)]
pub enum UpdateMode {
    /// chosen from the pair (old options, new options)
    Auto,
    /// a newly built configuration object
    NewObject,
    /// the same object, only the setters of the options that changed
    KeepChanged,
    /// the same object, all setters
    KeepAll,
    /// the same object, all setters, in the given rotation of the order (English, phonetic list, fixed list, auto vowel,
    /// auto chandrabindu, traditional kar, old reph, number pad, old kar order, ANSI, smart quotes), reversed if true
    KeepAllRot(usize, bool),
}

pub struct Ctx {
    pub opts: Opts,
    pub cfg: Box<Config>,
    pub ctx: RitiContext,
    /// XDG base the configuration object was created under
    base: PathBuf,
}

impl Ctx {
    pub fn new(opts: Opts, sb: &Sandbox) -> Result<Ctx, PanicInfo> {
        Ctx::new_at(opts, sb.base())
    }
    pub fn new_at(opts: Opts, base: &Path) -> Result<Ctx, PanicInfo> {
        let cfg = mk_config_at(&opts, base);
        let ctx = guarded(|| RitiContext::new_with_config(&cfg))?;
        Ok(Ctx { opts, cfg, ctx, base: base.to_path_buf() })
    }
    /// A context whose data directory is `data` instead of the checkout's (a copy the check may rewrite).
    pub fn new_with_data(opts: Opts, base: &Path, data: &Path) -> Result<Ctx, PanicInfo> {
        let mut cfg = mk_config_at(&opts, base);
        let d = CString::new(data.to_string_lossy().to_string()).unwrap();
        unsafe {
            assert!(riti_config_set_database_dir(&mut *cfg, d.as_ptr()), "data dir rejected");
        }
        let ctx = guarded(|| RitiContext::new_with_config(&cfg))?;
        Ok(Ctx { opts, cfg, ctx, base: base.to_path_buf() })
    }
    pub fn key_raw(&self, key: u16, modifier: u8, sel: u8) -> Result<Suggestion, PanicInfo> {
        ENGINE_EVENTS.fetch_add(1, Ordering::Relaxed);
        guarded(|| self.ctx.get_suggestion_for_key(key, modifier, sel))
    }
    pub fn key(&self, key: u16, modifier: u8, sel: u8) -> Result<Rendered, PanicInfo> {
        self.key_raw(key, modifier, sel).map(|s| render(&s))
    }
    pub fn ch(&self, c: char, sel: u8) -> Result<Rendered, PanicInfo> {
        self.key(keys().code_for(c), 0, sel)
    }
    pub fn backspace(&self, ctrl: bool) -> Result<Rendered, PanicInfo> {
        ENGINE_EVENTS.fetch_add(1, Ordering::Relaxed);
        guarded(|| self.ctx.backspace_event(ctrl)).map(|s| render(&s))
    }
    pub fn commit(&self, index: usize) -> Result<(), PanicInfo> {
        ENGINE_EVENTS.fetch_add(1, Ordering::Relaxed);
        guarded(|| self.ctx.candidate_committed(index))
    }
    pub fn finish(&self) -> Result<(), PanicInfo> {
        ENGINE_EVENTS.fetch_add(1, Ordering::Relaxed);
        guarded(|| self.ctx.finish_input_session())
    }
    pub fn ongoing(&self) -> bool {
        self.ctx.ongoing_input_session()
    }
    /// update-engine with a new configuration.  A front-end either builds a new configuration object or keeps
    /// its object and calls the setters that changed (or all of them) before update-engine; both happen here,
    /// chosen deterministically from the pair (old options, new options).  The object can only be kept when
    /// the user directory and the presence of the data directory are the same (both are fixed at creation).
    pub fn update(&mut self, opts: Opts, sb: &Sandbox) -> Result<(), PanicInfo> {
        self.update_with(opts, sb, UpdateMode::Auto)
    }
    pub fn update_with(&mut self, opts: Opts, sb: &Sandbox, mode: UpdateMode) -> Result<(), PanicInfo> {
        ENGINE_EVENTS.fetch_add(1, Ordering::Relaxed);
        let h = {
            use std::hash::{Hash, Hasher};
            let mut hs = std::collections::hash_map::DefaultHasher::new();
            (self.opts, opts).hash(&mut hs);
            hs.finish() as usize
        };
        let possible = sb.base() == self.base.as_path() && self.opts.nodata == opts.nodata;
        let keep = possible && match mode {
            UpdateMode::Auto => h % 2 == 0,
            UpdateMode::NewObject => false,
            UpdateMode::KeepChanged | UpdateMode::KeepAll | UpdateMode::KeepAllRot(..) => true,
        };
        if keep {
            let c: *mut Config = &mut *self.cfg;
            let only_changed = match mode {
                UpdateMode::KeepChanged => true,
                UpdateMode::KeepAll | UpdateMode::KeepAllRot(..) => false,
                _ => (h / 2) % 2 == 0,
            };
            let old = self.opts;
            unsafe {
                if old.layout != opts.layout || !only_changed {
                    let l = CString::new(opts.layout.path()).unwrap();
                    assert!(riti_config_set_layout_file(c, l.as_ptr()), "layout path rejected");
                }
                let setters: [(bool, &dyn Fn()); 11] = [
                    (old.english != opts.english, &|| riti_config_set_suggestion_include_english(c, opts.english)),
                    (old.psug != opts.psug, &|| riti_config_set_phonetic_suggestion(c, opts.psug)),
                    (old.fsug != opts.fsug, &|| riti_config_set_fixed_suggestion(c, opts.fsug)),
                    (old.vowel != opts.vowel, &|| riti_config_set_fixed_auto_vowel(c, opts.vowel)),
                    (old.chandra != opts.chandra, &|| riti_config_set_fixed_auto_chandra(c, opts.chandra)),
                    (old.kar != opts.kar, &|| riti_config_set_fixed_traditional_kar(c, opts.kar)),
                    (old.reph != opts.reph, &|| riti_config_set_fixed_old_reph(c, opts.reph)),
                    (old.numpad != opts.numpad, &|| riti_config_set_fixed_numpad(c, opts.numpad)),
                    (old.karorder != opts.karorder, &|| riti_config_set_fixed_old_kar_order(c, opts.karorder)),
                    (old.ansi != opts.ansi, &|| riti_config_set_ansi_encoding(c, opts.ansi)),
                    (old.smart != opts.smart, &|| riti_config_set_smart_quote(c, opts.smart)),
                ];
                let (rot, rev) = match mode {
                    UpdateMode::KeepAllRot(r, v) => (r % 11, v),
                    _ => ((h / 4) % 11, (h / 44) % 2 == 1),
                };
                for i in 0..11 {
                    let j = (i + rot) % 11;
                    let (changed, f) = setters[if rev { 10 - j } else { j }];
                    if changed || !only_changed {
                        f();
                    }
                }
            }
            let (ctx, cfg) = (&mut self.ctx, &self.cfg);
            guarded(|| ctx.update_engine(cfg))?;
            CONFIG_OBJECTS_KEPT.fetch_add(1, Ordering::Relaxed);
        } else {
            let cfg = mk_config(&opts, sb);
            let ctx = &mut self.ctx;
            guarded(|| ctx.update_engine(&cfg))?;
            self.cfg = cfg;
            self.base = sb.base().to_path_buf();
        }
        self.opts = opts;
        Ok(())
    }
    /// Type ASCII text with selection byte 0, pressing the NUMBER-PAD key for every character that has one (in the phonetic
    /// method a character is a character, whichever key produced it).
    pub fn type_text_numpad(&self, text: &str) -> Result<Option<Rendered>, PanicInfo> {
        let mut last = None;
        for c in text.chars() {
            let code = keys().numpad_code_for(c).unwrap_or_else(|| keys().code_for(c));
            last = Some(self.key(code, 0, 0)?);
        }
        Ok(last)
    }
    /// Type ASCII text with selection byte 0; returns the last rendering.
    pub fn type_text(&self, text: &str) -> Result<Option<Rendered>, PanicInfo> {
        let mut last = None;
        for c in text.chars() {
            last = Some(self.ch(c, 0)?);
        }
        Ok(last)
    }
    /// Type ASCII text the way a front-end does: the selection byte of each key is the
    /// preselected index of the list returned by the previous key.
    pub fn type_frontend(&self, text: &str) -> Result<Option<Rendered>, PanicInfo> {
        let mut sel = 0u8;
        let mut last = None;
        for c in text.chars() {
            let r = self.ch(c, sel)?;
            sel = if r.lonely { 0 } else { r.sel.min(255) as u8 };
            last = Some(r);
        }
        Ok(last)
    }
}

/// Fixed layout read independently from its JSON file: entry name -> value.
pub fn load_layout_json(layout: Layout) -> HashMap<String, String> {
    let v: serde_json::Value =
        serde_json::from_str(&std::fs::read_to_string(layout.path()).expect("layout file"))
            .expect("layout json");
    v["layout"]
        .as_object()
        .expect("layout object")
        .iter()
        .map(|(k, v)| (k.clone(), v.as_str().unwrap_or_default().to_string()))
        .collect()
}

/// Expected value of a key according to the layout file (None = the key changes nothing).
pub fn layout_value(
    lay: &HashMap<String, String>,
    key: &KeyInfo,
    altgr: bool,
    numpad_on: bool,
) -> Option<String> {
    let entry = key.entry.as_ref()?;
    let name = if key.numpad {
        if !numpad_on {
            return None;
        }
        entry.clone()
    } else {
        format!("{entry}_{}", if altgr { "AltGr" } else { "Normal" })
    };
    lay.get(&name).filter(|v| !v.is_empty()).cloned()
}

/// A typing plan for fixed layouts: value string -> (key code, modifier).  Prefers the Normal
/// plane, then the lowest code, so that the choice is deterministic.
pub fn layout_inverse(layout: Layout) -> HashMap<String, (u16, u8)> {
    layout_inverse_opt(layout, false)
}

/// As `layout_inverse`; with `numpad` the number-pad entries are used for values no other key has
/// (e.g. the ASCII period of Probhat).  Only meaningful while the numpad option is on.
pub fn layout_inverse_opt(layout: Layout, numpad: bool) -> HashMap<String, (u16, u8)> {
    let lay = load_layout_json(layout);
    let mut inv: HashMap<String, (u16, u8)> = HashMap::new();
    // (priority, value, code, modifier): Normal plane, then AltGr, then number pad
    let mut cands: Vec<(u8, String, u16, u8)> = vec![];
    for k in &keys().keys {
        if k.numpad {
            if numpad {
                if let Some(v) = layout_value(&lay, k, false, true) {
                    cands.push((2, v, k.code, 0));
                }
            }
            continue;
        }
        for altgr in [false, true] {
            if let Some(v) = layout_value(&lay, k, altgr, false) {
                cands.push((u8::from(altgr), v, k.code, if altgr { 2 } else { 0 }));
            }
        }
    }
    cands.sort_by_key(|(p, _, code, _)| (*p, *code));
    for (_, v, code, m) in cands {
        inv.entry(v).or_insert((code, m));
    }
    inv
}

/// CPU time (user + system) consumed so far by the calling thread, in milliseconds (10 ms resolution), read from
/// /proc/thread-self/stat.  Used for the C01 time bound so that a loaded machine cannot produce a false alarm.
/// `None` when procfs cannot be read (then only the wall clock is available).
pub fn thread_cpu_ms() -> Option<u128> {
    let s = std::fs::read_to_string("/proc/thread-self/stat").ok()?;
    let rest = &s[s.rfind(')')? + 1..];
    let f: Vec<&str> = rest.split_whitespace().collect();
    // after the command name: state is field 3 => index 0; utime/stime are fields 14/15 => indices 11/12
    let ut: u128 = f.get(11)?.parse().ok()?;
    let stt: u128 = f.get(12)?.parse().ok()?;
    Some((ut + stt) * 10)
}
