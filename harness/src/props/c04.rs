//! C04 — a fixed-layout key emits exactly the text the layout file assigns to it.

use crate::driver::{keys, layout_value, load_layout_json, Ctx, Layout, Opts, Sandbox};
use crate::props::c01::panic_kind;
use crate::runner::{hash_of, Failure, Run, Tier};
use serde_json::{json, Value};
use std::collections::HashMap;

pub const LEVEL: &str = "exploration";
pub const EXHAUSTIVE: bool = true;
pub const RULE: &str = "enumerated completely: every key code 0..=65535 x modifier byte (quick: 16 patterns covering all 4 Shift/AltGr combinations plus stray low and high bits; thorough: all 256) x numpad on/off x {bundled Probhat, synthetic layout, a layout of exotic values: white space only, leading/trailing white space, lone joiners, ASCII, emoji, long values} x start state {idle, after the neutral digit key}; all composition helpers and suggestions off. Oracle: layout JSON read independently through a key-name table transcribed from riti.h: expected text = entry for the key in the plane selected by the AltGr bit only (numpad entries only while the option is on); empty / missing / unknown => pre-edit text and session flag unchanged. Non-trivial: the key has a non-empty assignment in at least one plane or on the number pad; distinct by (layout, numpad, state, code, modifier).";
pub const ASSUMPTIONS: &[&str] = &[
    "key-name table transcribed by hand from include/riti.h and the layout file format",
    "the digit key 1 is neutral for every always-on composition rule",
];

fn modifiers(tier: Tier) -> Vec<u8> {
    match tier {
        Tier::Quick => vec![0, 1, 2, 3, 4, 5, 6, 7, 0x80, 0x81, 0x82, 0x83, 0xFC, 0xFD, 0xFE, 0xFF],
        Tier::Thorough => (0..=255).collect(),
    }
}

struct Item {
    layout: Layout,
    numpad: bool,
    after_neutral: bool,
    chunk: u32,
}

fn check_one(
    ctx: &Ctx,
    lay: &HashMap<String, String>,
    it: &Item,
    code: u16,
    m: u8,
    neutral: (u16, &str),
) -> Result<bool, Failure> {
    let case = || json!({"layout": format!("{:?}", it.layout), "numpad": it.numpad, "after_neutral": it.after_neutral, "code": code, "modifier": m});
    let pf = |p: crate::driver::PanicInfo| Failure::new(panic_kind(&p), p.to_string(), case());
    ctx.finish().map_err(pf)?;
    let mut before = String::new();
    if it.after_neutral {
        let r = ctx.key(neutral.0, 0, 0).map_err(pf)?;
        before = r.text;
        if before != neutral.1 {
            return Err(Failure::new("neutral-key", format!("neutral key gave {before:?}"), case()));
        }
    }
    let info = keys().by_code(code);
    let expected = info.and_then(|k| layout_value(lay, k, m & 2 != 0, it.numpad));
    let r = ctx.key(code, m, 0).map_err(pf)?;
    let ongoing = ctx.ongoing();
    if !r.lonely {
        return Err(Failure::new("not-single", "list returned with suggestions off", case()));
    }
    let want = format!("{before}{}", expected.clone().unwrap_or_default());
    if r.text != want {
        return Err(Failure::new(
            "wrong-text",
            format!(
                "key {} (code {code}) modifier {m:#x} numpad={} : pre-edit {:?}, layout file says {:?}",
                info.map(|k| k.name.as_str()).unwrap_or("unpublished"),
                it.numpad,
                r.text,
                want
            ),
            case(),
        ));
    }
    if ongoing != !want.is_empty() {
        return Err(Failure::new("wrong-session-flag", format!("ongoing={ongoing} with pre-edit {want:?}"), case()));
    }
    if r.pre[0].as_deref() != Ok(want.as_str()) {
        return Err(Failure::new("pre-edit-mismatch", format!("pre-edit read-out {:?} vs {:?}", r.pre[0], want), case()));
    }
    let assigned = info
        .map(|k| layout_value(lay, k, false, true).is_some() || layout_value(lay, k, true, true).is_some())
        .unwrap_or(false);
    Ok(assigned)
}

/// "... only while the number-pad option is on" and "for the current AltGr state", for a context whose options are
/// changed by update-engine: every published key x {no modifier, AltGr} is pressed as the LAST key before the change
/// and again as the FIRST key after it (number pad on -> off, off -> on, layout A -> layout B), so that anything the
/// engine remembers about "the key it saw last" meets the same key under the new configuration.
fn same_key_across_update(run: &Run) {
    let lays: HashMap<Layout, HashMap<String, String>> = [Layout::Probhat, Layout::Synthetic, Layout::Exotic].into_iter().map(|l| (l, load_layout_json(l))).collect();
    let mut items: Vec<(Layout, bool, Layout, bool)> = vec![];
    for l in [Layout::Probhat, Layout::Synthetic, Layout::Exotic] {
        items.push((l, true, l, false));
        items.push((l, false, l, true));
    }
    items.push((Layout::Probhat, true, Layout::Synthetic, true));
    items.push((Layout::Synthetic, false, Layout::Exotic, true));
    run.exhaustive(
        "same-key-last-before-and-first-after-update-engine",
        &items,
        |_| Sandbox::new(),
        |&(l1, n1, l2, n2), st, sb| {
            let mk = |l: Layout, n: bool| {
                let mut o = Opts::parse("D");
                o.layout = l;
                o.numpad = n;
                o
            };
            let (o1, o2) = (mk(l1, n1), mk(l2, n2));
            let mut ctx = Ctx::new(o1, sb).map_err(|p| Failure::new(panic_kind(&p), p.to_string(), json!({})))?;
            for k in &keys().keys {
                for m in [0u8, 2] {
                    let case = || json!({"same_key_across_update": {"from": o1.letters(), "to": o2.letters(), "code": k.code, "modifier": m}});
                    let pf = |p: crate::driver::PanicInfo| Failure::new(panic_kind(&p), p.to_string(), case());
                    ctx.finish().map_err(pf)?;
                    ctx.update(o1, sb).map_err(pf)?;
                    let before = ctx.key(k.code, m, 0).map_err(pf)?;
                    let want1 = layout_value(&lays[&l1], k, m & 2 != 0, n1).unwrap_or_default();
                    ctx.finish().map_err(pf)?;
                    ctx.update(o2, sb).map_err(pf)?;
                    let after = ctx.key(k.code, m, 0).map_err(pf)?;
                    let want2 = layout_value(&lays[&l2], k, m & 2 != 0, n2).unwrap_or_default();
                    st.evals(1);
                    if before.text != want1 || after.text != want2 {
                        return Err(Failure::new(
                            "wrong-text-across-update-engine",
                            format!("key {} modifier {m}: under {} it gave {:?} (layout file: {want1:?}); after update-engine to {} the same key gave {:?} (layout file: {want2:?})", k.name, o1.letters(), before.text, o2.letters(), after.text),
                            case(),
                        ));
                    }
                    if want1 != want2 {
                        st.nontrivial(hash_of(&(o1.letters(), o2.letters(), k.code, m)), || json!({"from": o1.letters(), "to": o2.letters(), "key": k.name, "modifier": m, "before": want1, "after": want2}));
                        st.label("same-key-different-assignment-across-update");
                    }
                }
            }
            Ok(())
        },
    );
    run.require_label("same-key-different-assignment-across-update", 100);
}

/// "pressing a key appends exactly the string the layout file assigns to that key" - also when the composition is
/// not empty: every ordered pair of assigned keys (both planes, number pad on and off).  The always-on rewriting
/// rules (C12: hasanta + sign, double hasanta, hasanta + length mark, zo-fola after ra) are left to C12: a pair is
/// judged here exactly when the independent rule table says "plain appending" for it.
fn key_pairs(run: &Run) {
    use crate::model::{compose_step, FixedOpts};
    let lays: HashMap<Layout, HashMap<String, String>> = [Layout::Probhat, Layout::Synthetic, Layout::Exotic].into_iter().map(|l| (l, load_layout_json(l))).collect();
    let mut items: Vec<(Layout, bool, usize)> = vec![];
    for l in [Layout::Probhat, Layout::Synthetic, Layout::Exotic] {
        for numpad in [false, true] {
            for chunk in 0..8usize {
                items.push((l, numpad, chunk));
            }
        }
    }
    run.exhaustive(
        "every-ordered-pair-of-assigned-keys",
        &items,
        |_| Sandbox::new(),
        |&(layout, numpad, chunk), st, sb| {
            let mut opts = Opts::parse("D");
            opts.layout = layout;
            opts.numpad = numpad;
            let ctx = Ctx::new(opts, sb).map_err(|p| Failure::new(panic_kind(&p), p.to_string(), json!({})))?;
            let lay = &lays[&layout];
            let mut assigned: Vec<(u16, u8, String)> = vec![];
            for k in &keys().keys {
                for m in [0u8, 2] {
                    if let Some(v) = layout_value(lay, k, m & 2 != 0, numpad) {
                        if !(k.numpad && m == 2) {
                            assigned.push((k.code, m, v));
                        }
                    }
                }
            }
            let off = FixedOpts { vowel: false, chandra: false, kar: false, reph: false };
            for (i, (c1, m1, v1)) in assigned.iter().enumerate() {
                if i % 8 != chunk {
                    continue;
                }
                for (c2, m2, v2) in &assigned {
                    let case = || json!({"key_pair": {"layout": format!("{layout:?}"), "numpad": numpad, "first": [c1, m1], "second": [c2, m2]}});
                    let pf = |p: crate::driver::PanicInfo| Failure::new(panic_kind(&p), p.to_string(), case());
                    let (rule, want) = compose_step(v1, v2, off);
                    let plain = format!("{v1}{v2}");
                    if want.as_deref() != Some(plain.as_str()) {
                        st.skip("pair-rewritten-by-an-always-on-rule-or-open-class (C12)");
                        let _ = rule;
                        continue;
                    }
                    ctx.finish().map_err(pf)?;
                    let a = ctx.key(*c1, *m1, 0).map_err(pf)?;
                    if a.text != *v1 {
                        continue; // the single-key sweep reports that
                    }
                    let b = ctx.key(*c2, *m2, 0).map_err(pf)?;
                    st.evals(1);
                    if b.text != plain || b.pre[0].as_deref() != Ok(plain.as_str()) || !b.lonely {
                        return Err(Failure::new(
                            "wrong-text-after-another-key",
                            format!("{layout:?} numpad={numpad}: after {v1:?} the key with the assignment {v2:?} gives {:?}, the layout file says {plain:?}", b.text),
                            case(),
                        ));
                    }
                    st.label("ordered-key-pairs-judged");
                    if i % 8 == chunk && (c2 % 16 == 0) {
                        st.nontrivial(hash_of(&(layout, numpad, c1, m1, c2, m2)), || json!({"layout": format!("{layout:?}"), "numpad": numpad, "first": v1, "second": v2}));
                    }
                }
            }
            ctx.finish().map_err(|p| Failure::new(panic_kind(&p), p.to_string(), json!({})))?;
            Ok(())
        },
    );
    run.require_label("ordered-key-pairs-judged", 50000);
}

/// "with all composition helpers off" - also when they were ON a moment ago: a context composes a word with every
/// helper on (old vowel-sign order, old reph, automatic vowel / chandrabindu, traditional joining), the word is ended in
/// one of five ways, update-engine (idle) switches every helper off, and then each assigned key must emit exactly its
/// assignment.  Whatever a helper kept for later (a waiting sign, a remembered last character) must not survive.
fn helpers_switched_off(run: &Run) {
    let lays: HashMap<Layout, HashMap<String, String>> = [Layout::Probhat, Layout::Synthetic].into_iter().map(|l| (l, load_layout_json(l))).collect();
    // words as ASCII key text (both layouts share Probhat's main block): consonant + left-standing sign, lone sign,
    // hasanta, chandrabindu, two signs, zo-fola, reph position, digits
    let words = ["ki", "i", "[", "k/", "k>", "k[a", "kZ", "rk", "k/i", "1", "k[/"];
    let mut items: Vec<(Layout, usize, u8)> = vec![];
    for l in [Layout::Probhat, Layout::Synthetic] {
        for w in 0..words.len() {
            for end in 0..5u8 {
                items.push((l, w, end));
            }
        }
    }
    run.exhaustive(
        "keys-after-update-engine-switched-every-helper-off",
        &items,
        |_| Sandbox::new(),
        |&(layout, wi, end), st, sb| {
            let mut on = Opts::parse("Dvckro");
            on.layout = layout;
            let mut off = Opts::parse("D");
            off.layout = layout;
            let lay = &lays[&layout];
            let mut ctx = Ctx::new(on, sb).map_err(|p| Failure::new(panic_kind(&p), p.to_string(), json!({})))?;
            for k in &keys().keys {
                for m in [0u8, 2] {
                    let Some(want) = layout_value(lay, k, m & 2 != 0, false) else { continue };
                    let case = || json!({"helpers_switched_off": {"layout": format!("{layout:?}"), "word": words[wi], "ending": end, "code": k.code, "modifier": m}});
                    let pf = |p: crate::driver::PanicInfo| Failure::new(panic_kind(&p), p.to_string(), case());
                    ctx.finish().map_err(pf)?;
                    ctx.update(on, sb).map_err(pf)?;
                    let shown = ctx.type_text(words[wi]).map_err(pf)?.map(|r| r.choices() > 0).unwrap_or(false);
                    match end {
                        0 => ctx.finish().map_err(pf)?,
                        1 => {
                            // commit only when something is shown (the caller's contract); else a finish request
                            if shown {
                                ctx.commit(0).map_err(pf)?;
                            } else {
                                ctx.finish().map_err(pf)?;
                            }
                        }
                        2 => {
                            ctx.backspace(true).map_err(pf)?;
                        }
                        3 => {
                            // plain backspaces until one returns an empty suggestion (that ends the word)
                            for _ in 0..12 {
                                if ctx.backspace(false).map_err(pf)?.is_empty() {
                                    break;
                                }
                            }
                        }
                        _ => {
                            ctx.backspace(false).map_err(pf)?;
                            ctx.finish().map_err(pf)?;
                        }
                    }
                    // each of the five endings ends the word (C06), so the caller is entitled to call update-engine now;
                    // the session flag is deliberately not consulted - a front-end that just erased the word does not ask
                    ctx.update(off, sb).map_err(pf)?;
                    let r = ctx.key(k.code, m, 0).map_err(pf)?;
                    st.evals(1);
                    if r.text != want {
                        return Err(Failure::new(
                            "wrong-text-after-helpers-were-switched-off",
                            format!("{layout:?}: word {:?} composed with every helper on, ended (way {end}), update-engine to all helpers off, then key {} modifier {m}: pre-edit {:?}, the layout file says {want:?}", words[wi], k.name, r.text),
                            case(),
                        ));
                    }
                }
            }
            st.label("helpers-switched-off-by-update-engine");
            st.nontrivial(hash_of(&(layout, wi, end)), || json!({"layout": format!("{layout:?}"), "word": words[wi], "ending": end}));
            Ok(())
        },
    );
}

fn layout_file_rewritten_case(st: &mut crate::runner::Stats, sb: &Sandbox) -> Result<(), Failure> {
    let path = crate::driver::rewritten_layout_path();
    let base: serde_json::Value = serde_json::from_str(&std::fs::read_to_string(Layout::Probhat.path()).expect("Probhat.json")).expect("layout json");
    let revisions = ["\u{0996}", "\u{0997}\u{09CD}", "x", "\u{0995}\u{09CD}\u{09B7}"];
    let mut opts = Opts::parse("D");
    opts.layout = Layout::Rewritten;
    let phon = Opts::parse("D");
    let fail = |msg: String, rev: usize| Failure::new("wrong-text-after-the-layout-file-was-rewritten", msg, json!({"layout_file_rewritten": rev}));
    let pf = |p: crate::driver::PanicInfo| Failure::new(panic_kind(&p), p.to_string(), json!({"layout_file_rewritten": 0}));
    let mut live: Option<Ctx> = None;
    for (rev, val) in revisions.iter().enumerate() {
        let mut doc = base.clone();
        doc["layout"]["Key_k_Normal"] = json!(val);
        doc["layout"]["Key_1_AltGr"] = json!(format!("{val}{val}"));
        std::fs::write(path, doc.to_string()).expect("write layout");
        let lay = load_layout_json(Layout::Rewritten);
        // (a) a newly created context
        let fresh = Ctx::new(opts, sb).map_err(pf)?;
        // (b) the live context: away to the phonetic method and back
        if let Some(c) = live.as_mut() {
            c.finish().map_err(pf)?;
            c.update(phon, sb).map_err(pf)?;
            c.type_text("k").map_err(pf)?;
            c.finish().map_err(pf)?;
            c.update(opts, sb).map_err(pf)?;
        }
        for (who, ctx) in [("a newly created context", Some(&fresh)), ("a live context that went to the phonetic method and back", live.as_ref())] {
            let Some(ctx) = ctx else { continue };
            for k in &keys().keys {
                for m in [0u8, 2] {
                    let Some(want) = layout_value(&lay, k, m & 2 != 0, false) else { continue };
                    ctx.finish().map_err(pf)?;
                    let r = ctx.key(k.code, m, 0).map_err(pf)?;
                    st.evals(1);
                    if r.text != want {
                        return Err(fail(format!("revision {rev} of the layout file assigns {want:?} to {} (modifier {m}); {who} emits {:?}", k.name, r.text), rev));
                    }
                }
            }
            ctx.finish().map_err(pf)?;
        }
        if live.is_none() {
            live = Some(fresh);
        }
        st.label("layout-file-revisions-loaded");
    }
    let _ = std::fs::remove_file(path);
    Ok(())
}

/// "the LOADED layout file": a layout file is rewritten on disk between two loads of the same path - by a newly created
/// context, and by a live context that goes to the phonetic method and comes back (update-engine, idle).  Every assigned
/// key must emit what the file says NOW (the test keys get a new value in each of four revisions).
fn layout_file_rewritten(run: &Run) {
    let items: Vec<u8> = vec![0];
    run.exhaustive(
        "layout-file-rewritten-between-two-loads",
        &items,
        |_| Sandbox::new(),
        |_, st, sb| {
            layout_file_rewritten_case(st, sb)?;
            st.nontrivial(hash_of(&"layout-file-rewritten"), || json!({"layout_file_revisions": 4}));
            Ok(())
        },
    );
}

/// "appends exactly" after longer compositions too: every assigned key after each of ~40 prepared texts (conjuncts with
/// ro-fola / hasanta + ra at the start and inside a word, texts ending in every character class, joiners, marks) -
/// judged, like the pairs, exactly when the independent rule table says plain appending for (text, key).
fn keys_after_prepared_texts(run: &Run) {
    use crate::model::{compose_step, FixedOpts};
    let prefixes: Vec<&str> = vec![
        "\u{0995}\u{0995}", "\u{0995}\u{09CD}\u{09B0}", "\u{0995}\u{0995}\u{09CD}\u{09B0}", "\u{09AE}\u{0995}\u{09CD}\u{09B0}", "\u{09AE}\u{09BE}\u{09A4}\u{09CD}\u{09B0}", "\u{0995}\u{09CD}\u{0995}\u{09B0}",
        "\u{0995}\u{09B0}", "\u{09B0}\u{0995}", "\u{0985}\u{09B0}", "\u{0995}\u{09BF}\u{09B0}", "\u{0995}\u{09CD}\u{0995}", "\u{0995}\u{09BE}", "\u{0995}\u{09BF}", "\u{0995}\u{0981}", "\u{0995}\u{09BE}\u{0981}",
        "\u{0985}", "\u{0985}\u{0995}", "\u{09E7}\u{0995}", "!\u{0995}", "\u{0995}!", "\u{0995}\u{200C}", "\u{0995}\u{200D}", "\u{200D}\u{0995}", "\u{0995}\u{09CD}\u{09AF}", "\u{09B0}\u{09CD}\u{0995}", "\u{0995}\u{0982}",
        "\u{0995}\u{09CE}", "\u{09DF}\u{09BE}", "\u{09A1}\u{09BC}", "\u{0995}\u{09C7}", "\u{0995}\u{09CB}", "\u{0995}\u{09CC}", "\u{0995}\u{09C3}", "\u{0995}\u{09D7}", "\u{0995}\u{0964}", "\u{0995}\u{0995}\u{0995}\u{0995}\u{0995}\u{0995}\u{0995}\u{09B0}",
    ];
    let mut items: Vec<(Layout, usize)> = vec![];
    for l in [Layout::Probhat, Layout::Synthetic] {
        for p in 0..prefixes.len() {
            items.push((l, p));
        }
    }
    let lays: HashMap<Layout, HashMap<String, String>> = [Layout::Probhat, Layout::Synthetic].into_iter().map(|l| (l, load_layout_json(l))).collect();
    run.exhaustive(
        "every-assigned-key-after-prepared-texts",
        &items,
        |_| Sandbox::new(),
        |&(layout, pi), st, sb| {
            let inv = crate::driver::layout_inverse(layout);
            // the text is typed one key per code point where the layout allows (fola keys for the two-code-point values)
            let Some(ks): Option<Vec<(u16, u8)>> = prefixes[pi].chars().map(|c| inv.get(&c.to_string()).copied()).collect() else {
                st.skip("prepared-text-not-typeable-through-this-layout");
                return Ok(());
            };
            let mut opts = Opts::parse("D");
            opts.layout = layout;
            let ctx = Ctx::new(opts, sb).map_err(|p| Failure::new(panic_kind(&p), p.to_string(), json!({})))?;
            let lay = &lays[&layout];
            let off = FixedOpts { vowel: false, chandra: false, kar: false, reph: false };
            for k in &keys().keys {
                for m in [0u8, 2] {
                    let Some(v) = layout_value(lay, k, m & 2 != 0, false) else { continue };
                    let case = || json!({"after_prepared_text": {"layout": format!("{layout:?}"), "text": prefixes[pi], "code": k.code, "modifier": m}});
                    let pf = |p: crate::driver::PanicInfo| Failure::new(panic_kind(&p), p.to_string(), case());
                    ctx.finish().map_err(pf)?;
                    let mut shown = String::new();
                    for (c, md) in &ks {
                        shown = ctx.key(*c, *md, 0).map_err(pf)?.text;
                    }
                    // what the prepared keys composed is C12's business; the key under test is judged against what is shown
                    let (_, want) = compose_step(&shown, &v, off);
                    let plain = format!("{shown}{v}");
                    if want.as_deref() != Some(plain.as_str()) {
                        st.skip("key-after-prepared-text-rewritten-by-an-always-on-rule-or-open-class (C12)");
                        continue;
                    }
                    let r = ctx.key(k.code, m, 0).map_err(pf)?;
                    st.evals(1);
                    if r.text != plain {
                        return Err(Failure::new(
                            "wrong-text-after-a-prepared-text",
                            format!("{layout:?}: after {shown:?} the key {} (modifier {m}) with the assignment {v:?} gives {:?}, the layout file says {plain:?}", k.name, r.text),
                            case(),
                        ));
                    }
                }
            }
            ctx.finish().map_err(|p| Failure::new(panic_kind(&p), p.to_string(), json!({})))?;
            st.label("keys-after-prepared-texts");
            st.nontrivial(hash_of(&("prepared", layout, pi)), || json!({"layout": format!("{layout:?}"), "prepared_text": prefixes[pi]}));
            Ok(())
        },
    );
}

pub fn run(run: &Run) {
    keys_after_prepared_texts(run);
    layout_file_rewritten(run);
    helpers_switched_off(run);
    after_layout_switch(run);
    same_key_across_update(run);
    key_pairs(run);
    let mods = modifiers(run.tier);
    let mut items = vec![];
    for layout in [Layout::Probhat, Layout::Synthetic, Layout::Exotic] {
        for numpad in [false, true] {
            for after_neutral in [false, true] {
                for chunk in 0..64u32 {
                    items.push(Item { layout, numpad, after_neutral, chunk });
                }
            }
        }
    }
    let lays: HashMap<Layout, HashMap<String, String>> =
        [Layout::Probhat, Layout::Synthetic, Layout::Exotic].into_iter().map(|l| (l, load_layout_json(l))).collect();
    let neutral_code = keys().code_for('1');
    run.exhaustive(
        "all-key-codes",
        &items,
        |_| Sandbox::new(),
        |it, st, sb| {
            let mut opts = Opts::parse("");
            opts.layout = it.layout;
            opts.numpad = it.numpad;
            opts.nodata = true;
            let ctx = Ctx::new(opts, sb).map_err(|p| Failure::new(panic_kind(&p), p.to_string(), json!({})))?;
            let lay = &lays[&it.layout];
            let neutral_val = lay.get("Key_1_Normal").cloned().unwrap_or_default();
            for code in (it.chunk * 1024)..((it.chunk + 1) * 1024) {
                let code = code as u16;
                for &m in &mods {
                    st.evals(1);
                    let assigned = check_one(&ctx, lay, it, code, m, (neutral_code, &neutral_val))?;
                    if assigned {
                        let name = keys().by_code(code).map(|k| k.name.clone()).unwrap_or_default();
                        st.nontrivial(hash_of(&(it.layout, it.numpad, it.after_neutral, code, m)), || {
                            json!({"layout": format!("{:?}", it.layout), "numpad": it.numpad, "after_neutral": it.after_neutral, "key": name, "modifier": m})
                        });
                        st.label("assigned-key-cases");
                    } else if keys().by_code(code).is_some() {
                        st.label("published-key-without-assignment-cases");
                    } else {
                        st.label("unpublished-code-cases");
                    }
                }
            }
            Ok(())
        },
    );
}

/// "the loaded layout file": a live context re-configured with another fixed layout must emit the new
/// layout's texts.  Every published key x 4 modifiers x numpad, for each ordered pair of layouts
/// (incl. phonetic -> fixed), from idle.
fn after_layout_switch(run: &Run) {
    let lays: HashMap<Layout, HashMap<String, String>> = [Layout::Probhat, Layout::Synthetic, Layout::Twin, Layout::Exotic].into_iter().map(|l| (l, load_layout_json(l))).collect();
    let mut items = vec![];
    // Twin = another layout under the same file NAME as the bundled Probhat.json (another directory)
    for from in [Layout::Phonetic, Layout::Probhat, Layout::Synthetic, Layout::Twin, Layout::Exotic] {
        for to in [Layout::Probhat, Layout::Synthetic, Layout::Twin, Layout::Exotic] {
            if from != to {
                for numpad in [false, true] {
                    items.push((from, to, numpad));
                }
            }
        }
    }
    run.exhaustive(
        "keys-after-update-engine-to-another-layout",
        &items,
        |_| Sandbox::new(),
        |&(from, to, numpad), st, sb| {
            let mut o1 = Opts::parse("D");
            o1.layout = from;
            o1.numpad = numpad;
            let mut o2 = o1;
            o2.layout = to;
            let mut ctx = Ctx::new(o1, sb).map_err(|p| Failure::new(panic_kind(&p), p.to_string(), json!({})))?;
            // type and finish a word first, so that the old method has been used
            let _ = ctx.type_text("k1");
            let _ = ctx.finish();
            ctx.update(o2, sb).map_err(|p| Failure::new(panic_kind(&p), p.to_string(), json!({})))?;
            let it = Item { layout: to, numpad, after_neutral: false, chunk: 0 };
            let lay = &lays[&to];
            let nv = lay.get("Key_1_Normal").cloned().unwrap_or_default();
            for k in &keys().keys {
                for m in 0u8..4 {
                    st.evals(1);
                    check_one(&ctx, lay, &it, k.code, m, (keys().code_for('1'), &nv)).map_err(|mut f| {
                        f.kind = format!("after-layout-switch:{}", f.kind);
                        f.message = format!("context created with {from:?}, update-engine to {to:?}: {}", f.message);
                        f.case["switched_from"] = json!(format!("{from:?}"));
                        f
                    })?;
                }
            }
            st.label("layout-switch-pairs");
            Ok(())
        },
    );
}

pub fn replay(_run: &Run, case: &Value) -> Result<(), Failure> {
    if let Some(a) = case.get("after_prepared_text") {
        let layout = if a["layout"].as_str() == Some("Synthetic") { Layout::Synthetic } else { Layout::Probhat };
        let inv = crate::driver::layout_inverse(layout);
        let text = a["text"].as_str().unwrap_or_default();
        let (code, m) = (a["code"].as_u64().unwrap_or(0) as u16, a["modifier"].as_u64().unwrap_or(0) as u8);
        let ks: Vec<(u16, u8)> = text.chars().filter_map(|c| inv.get(&c.to_string()).copied()).collect();
        let sb = Sandbox::new();
        let mut opts = Opts::parse("D");
        opts.layout = layout;
        let pf = |p: crate::driver::PanicInfo| Failure::new(panic_kind(&p), p.to_string(), case.clone());
        let ctx = Ctx::new(opts, &sb).map_err(pf)?;
        let mut shown = String::new();
        for (c, md) in &ks {
            shown = ctx.key(*c, *md, 0).map_err(pf)?.text;
        }
        let v = keys().by_code(code).and_then(|k| layout_value(&load_layout_json(layout), k, m & 2 != 0, false)).unwrap_or_default();
        let r = ctx.key(code, m, 0).map_err(pf)?;
        let plain = format!("{shown}{v}");
        if r.text != plain {
            return Err(Failure::new("wrong-text-after-a-prepared-text", format!("after {shown:?}: got {:?}, the layout file says {plain:?}", r.text), case.clone()));
        }
        return Ok(());
    }
    if case.get("layout_file_rewritten").is_some() {
        return layout_file_rewritten_case(&mut crate::runner::Stats::new(), &Sandbox::new());
    }
    if let Some(h) = case.get("helpers_switched_off") {
        let layout = if h["layout"].as_str() == Some("Synthetic") { Layout::Synthetic } else { Layout::Probhat };
        let (word, end) = (h["word"].as_str().unwrap_or_default(), h["ending"].as_u64().unwrap_or(0));
        let (code, m) = (h["code"].as_u64().unwrap_or(0) as u16, h["modifier"].as_u64().unwrap_or(0) as u8);
        let mut on = Opts::parse("Dvckro");
        on.layout = layout;
        let mut off = Opts::parse("D");
        off.layout = layout;
        let sb = Sandbox::new();
        let pf = |p: crate::driver::PanicInfo| Failure::new(panic_kind(&p), p.to_string(), case.clone());
        let mut ctx = Ctx::new(on, &sb).map_err(pf)?;
        let shown = ctx.type_text(word).map_err(pf)?.map(|r| r.choices() > 0).unwrap_or(false);
        match end {
            0 => ctx.finish().map_err(pf)?,
            1 => {
                if shown {
                    ctx.commit(0).map_err(pf)?;
                } else {
                    ctx.finish().map_err(pf)?;
                }
            }
            2 => {
                ctx.backspace(true).map_err(pf)?;
            }
            3 => {
                for _ in 0..12 {
                    if ctx.backspace(false).map_err(pf)?.is_empty() {
                        break;
                    }
                }
            }
            _ => {
                ctx.backspace(false).map_err(pf)?;
                ctx.finish().map_err(pf)?;
            }
        }
        ctx.update(off, &sb).map_err(pf)?;
        let r = ctx.key(code, m, 0).map_err(pf)?;
        let want = keys().by_code(code).and_then(|k| layout_value(&load_layout_json(layout), k, m & 2 != 0, false)).unwrap_or_default();
        if r.text != want {
            return Err(Failure::new("wrong-text-after-helpers-were-switched-off", format!("got {:?}, the layout file says {want:?}", r.text), case.clone()));
        }
        return Ok(());
    }
    if let Some(kp) = case.get("key_pair") {
        let by_name = |n: Option<&str>| match n {
            Some("Synthetic") => Layout::Synthetic,
            Some("Exotic") => Layout::Exotic,
            _ => Layout::Probhat,
        };
        let layout = by_name(kp["layout"].as_str());
        let numpad = kp["numpad"].as_bool().unwrap_or(false);
        let g = |v: &Value, i: usize| v[i].as_u64().unwrap_or(0);
        let (c1, m1, c2, m2) = (g(&kp["first"], 0) as u16, g(&kp["first"], 1) as u8, g(&kp["second"], 0) as u16, g(&kp["second"], 1) as u8);
        let lay = load_layout_json(layout);
        let val = |c: u16, m: u8| keys().by_code(c).and_then(|k| layout_value(&lay, k, m & 2 != 0, numpad)).unwrap_or_default();
        let plain = format!("{}{}", val(c1, m1), val(c2, m2));
        let sb = Sandbox::new();
        let mut opts = Opts::parse("D");
        opts.layout = layout;
        opts.numpad = numpad;
        let pf = |p: crate::driver::PanicInfo| Failure::new(panic_kind(&p), p.to_string(), case.clone());
        let ctx = Ctx::new(opts, &sb).map_err(pf)?;
        ctx.key(c1, m1, 0).map_err(pf)?;
        let b = ctx.key(c2, m2, 0).map_err(pf)?;
        if b.text != plain {
            return Err(Failure::new("wrong-text-after-another-key", format!("got {:?}, the layout file says {plain:?}", b.text), case.clone()));
        }
        return Ok(());
    }
    if let Some(sk) = case.get("same_key_across_update") {
        let (o1, o2) = (Opts::parse(sk["from"].as_str().unwrap_or_default()), Opts::parse(sk["to"].as_str().unwrap_or_default()));
        let (code, m) = (sk["code"].as_u64().unwrap_or(0) as u16, sk["modifier"].as_u64().unwrap_or(0) as u8);
        let sb = Sandbox::new();
        let pf = |p: crate::driver::PanicInfo| Failure::new(panic_kind(&p), p.to_string(), case.clone());
        let mut ctx = Ctx::new(o1, &sb).map_err(pf)?;
        let before = ctx.key(code, m, 0).map_err(pf)?;
        ctx.finish().map_err(pf)?;
        ctx.update(o2, &sb).map_err(pf)?;
        let after = ctx.key(code, m, 0).map_err(pf)?;
        let k = keys().by_code(code);
        let want1 = k.and_then(|k| layout_value(&load_layout_json(o1.layout), k, m & 2 != 0, o1.numpad)).unwrap_or_default();
        let want2 = k.and_then(|k| layout_value(&load_layout_json(o2.layout), k, m & 2 != 0, o2.numpad)).unwrap_or_default();
        if before.text != want1 || after.text != want2 {
            return Err(Failure::new("wrong-text-across-update-engine", format!("before {:?} (want {want1:?}), after {:?} (want {want2:?})", before.text, after.text), case.clone()));
        }
        return Ok(());
    }
    let by_name = |n: Option<&str>| match n {
        Some("Synthetic") => Layout::Synthetic,
        Some("Twin") => Layout::Twin,
        Some("Exotic") => Layout::Exotic,
        Some("Phonetic") => Layout::Phonetic,
        _ => Layout::Probhat,
    };
    let layout = by_name(case["layout"].as_str());
    let it = Item {
        layout,
        numpad: case["numpad"].as_bool().unwrap_or(false),
        after_neutral: case["after_neutral"].as_bool().unwrap_or(false),
        chunk: 0,
    };
    let sb = Sandbox::new();
    let mut opts = Opts::parse("");
    opts.layout = layout;
    opts.numpad = it.numpad;
    opts.nodata = true;
    let mut ctx = Ctx::new(opts, &sb).map_err(|p| Failure::new(panic_kind(&p), p.to_string(), case.clone()))?;
    if let Some(from) = case["switched_from"].as_str() {
        let mut o1 = opts;
        o1.layout = by_name(Some(from));
        ctx = Ctx::new(o1, &sb).map_err(|p| Failure::new(panic_kind(&p), p.to_string(), case.clone()))?;
        let _ = ctx.type_text("k1");
        let _ = ctx.finish();
        ctx.update(opts, &sb).map_err(|p| Failure::new(panic_kind(&p), p.to_string(), case.clone()))?;
    }
    let lay = load_layout_json(layout);
    let nv = lay.get("Key_1_Normal").cloned().unwrap_or_default();
    check_one(&ctx, &lay, &it, case["code"].as_u64().unwrap_or(0) as u16, case["modifier"].as_u64().unwrap_or(0) as u8, (keys().code_for('1'), &nv)).map(|_| ())
}
