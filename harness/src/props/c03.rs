//! C03 — phonetic output is the Avro transliteration of exactly what was typed.

use crate::driver::{keys, Ctx, Opts, Sandbox};
use crate::model::{avro, curl_close, curl_open, ref_split, uncurl};
use crate::props::c01::panic_kind;
use crate::runner::{hash_of, with_fresh_retry, Failure, Run, Stats};
use proptest::prelude::*;
use serde_json::{json, Value};

pub const LEVEL: &str = "exploration";
pub const EXHAUSTIVE: bool = false;
pub const RULE: &str = "generated: (a) constructed triples lead.word.trail with word in [A-Za-z0-9]{0,12} (biased to Avro's context-sensitive letters) and lead, trail of 0..3 characters of the statement's punctuation set, exhaustive for |word| <= 2 over a 20-letter sub-alphabet with every single lead and trail; (b) arbitrary strings of 1..16 of the 94 typeable characters biased to back-tick, colon and period runs; options English / smart quote / ANSI free. Oracle: suggestions off => the single string == okkhor(lead)+okkhor(word)+okkhor(trail) computed on the CONSTRUCTED parts (whole-text conversion when the word is empty), i.e. by an oracle that never splits; for (b) the parts come from the reference split transcribed from the documentation. Suggestions on => some candidate un-curls to that string, and for (a) with smart quotes the candidate curl_open(lead')+word'+curl_close(trail') is present. Non-trivial: converting the whole text differs from converting the parts (the split matters) or the text contains a back-tick or colon; distinct by text. (d) commit-then-type: for every punctuation-only text of 1..2 characters, every emoticon and a few words, under all 8 option sets, EVERY candidate index is committed once and a probe text typed next in the same context - without a finish request in between - is judged by (a)-(c).";
pub const ASSUMPTIONS: &[&str] = &[
    "okkhor::parser::Parser::new_phonetic().convert is the definition of the Avro transliteration",
    "header-derived key table",
    "reference split (self-tested against the 13 ASCII examples of riti's unit test) for arbitrary strings",
];

pub const PUNCT27: &str = "-]~!@#%&*()_=+[{}'\";<>/?|.,";

pub struct Local {
    sb: Sandbox,
    off: Ctx,
    on: Vec<Ctx>, // index = english | smart<<1 | ansi<<2
}

pub fn mk_local() -> Local {
    let sb = Sandbox::new();
    let off = Ctx::new(Opts::parse("qD"), &sb).expect("context");
    let mut on = vec![];
    for i in 0..8 {
        let mut o = Opts::parse("s");
        o.english = i & 1 != 0;
        o.smart = i & 2 != 0;
        o.ansi = i & 4 != 0;
        on.push(Ctx::new(o, &sb).expect("context"));
    }
    Local { sb, off, on }
}

#[derive(Clone, Debug)]
pub struct Case {
    pub lead: String,
    pub word: String,
    pub trail: String,
    /// arbitrary text (then lead/word/trail are empty)
    pub raw: Option<String>,
    pub optidx: usize,
}

impl Case {
    pub fn text(&self) -> String {
        match &self.raw {
            Some(t) => t.clone(),
            None => format!("{}{}{}", self.lead, self.word, self.trail),
        }
    }
}

fn check(c: &Case, lo: &mut Local, st: &mut Stats) -> Result<(), Failure> {
    check_opt(c, lo, st, true)
}

/// `finish_first` = false: the suggestions-on context is NOT sent a finish request before the text is typed (the
/// previous word was ended by a commit, which must be enough).
fn check_opt(c: &Case, lo: &mut Local, st: &mut Stats, finish_first: bool) -> Result<(), Failure> {
    let text = c.text();
    if text.is_empty() {
        return Ok(());
    }
    let case = || json!({"text": text, "lead": c.lead, "word": c.word, "trail": c.trail, "raw": c.raw, "optidx": c.optidx});
    let pf = |p: crate::driver::PanicInfo| Failure::new(panic_kind(&p), p.to_string(), case());
    let (lead, word, trail) = match &c.raw {
        None => (c.lead.clone(), c.word.clone(), c.trail.clone()),
        Some(t) => ref_split(t, false),
    };
    let expected = if word.is_empty() { avro(&text) } else { format!("{}{}{}", avro(&lead), avro(&word), avro(&trail)) };
    lo.off.finish().map_err(pf)?;
    let r = lo.off.type_text(&text).map_err(pf)?.unwrap();
    lo.off.finish().map_err(pf)?;
    if !r.lonely {
        return Err(Failure::new("not-single", "list returned with suggestions off", case()));
    }
    if r.text != expected {
        return Err(Failure::new(
            "transliteration",
            format!("typed {text:?}: got {:?}, expected {:?} = avro({lead:?})+avro({word:?})+avro({trail:?})", r.text, expected),
            case(),
        ));
    }
    let on = &lo.on[c.optidx % 8];
    if finish_first {
        on.finish().map_err(pf)?;
    }
    lo.off.finish().map_err(pf)?;
    // every prefix is a typed text of its own: the single string of the suggestions-off context must be
    // one of the candidates of the suggestions-on context after every key
    let mut l = None;
    let mut typed = String::new();
    for ch in text.chars() {
        typed.push(ch);
        let single = lo.off.ch(ch, 0).map_err(pf)?;
        let list = on.ch(ch, 0).map_err(pf)?;
        if list.lonely {
            return Err(Failure::new("not-list", "single string returned with suggestions on", case()));
        }
        if !list.cands.iter().any(|x| uncurl(x) == single.text) {
            return Err(Failure::new(
                "transliteration-not-offered",
                format!("typed {typed:?} ({}): the transliteration {:?} (suggestions off) is not among the {} candidates {:?}", on.opts.letters(), single.text, list.cands.len(), list.cands),
                case(),
            ));
        }
        st.count("prefixes-compared", 1);
        l = Some(list);
    }
    lo.off.finish().map_err(pf)?;
    on.finish().map_err(pf)?;
    let l = l.unwrap();
    if !l.cands.iter().any(|x| uncurl(x) == expected) {
        return Err(Failure::new(
            "transliteration-not-offered",
            format!("typed {text:?} ({}): transliteration {:?} is not among {:?}", on.opts.letters(), expected, l.cands),
            case(),
        ));
    }
    if c.raw.is_none() && !word.is_empty() {
        let want = if on.opts.smart {
            format!("{}{}{}", curl_open(&avro(&lead)), avro(&word), curl_close(&avro(&trail)))
        } else {
            expected.clone()
        };
        if !l.cands.contains(&want) {
            return Err(Failure::new(
                "transliteration-candidate-form",
                format!("typed {text:?} ({}): expected candidate {:?} in {:?}", on.opts.letters(), want, l.cands),
                case(),
            ));
        }
    }
    let split_matters = !word.is_empty() && avro(&text) != expected;
    if split_matters {
        st.label("split-matters");
    }
    if text.contains('`') {
        st.label("has-backtick");
    }
    if text.contains(':') {
        st.label("has-colon");
    }
    if split_matters || text.contains('`') || text.contains(':') {
        st.nontrivial(hash_of(&text), || json!({"text": text, "expected": expected, "options": on.opts.letters()}));
    }
    Ok(())
}

fn checked(c: &Case, lo: &mut Local, st: &mut Stats) -> Result<(), Failure> {
    with_fresh_retry(lo, mk_local, |l, s| check(c, l, s), st)
}

pub fn strategy() -> impl Strategy<Value = Case> {
    let punct: Vec<char> = PUNCT27.chars().chain("....,,''\"\"".chars()).collect();
    let letters: Vec<char> = "aeiouOIUEkKgGcCjJtTdDnNpPbBmMyYrRlLsSzZhHwWvxqfFAQXV0123456789oorrZwyy".chars().collect();
    let any94: Vec<char> = crate::driver::typeable().into_iter().chain("```:::...''\"\"".chars()).collect();
    let wrap = || proptest::collection::vec(proptest::sample::select(punct.clone()), 0..=3).prop_map(|v| v.into_iter().collect::<String>());
    let word = proptest::collection::vec(proptest::sample::select(letters), 0..=12).prop_map(|v| v.into_iter().collect::<String>());
    let raw = proptest::collection::vec(proptest::sample::select(any94), 1..=16).prop_map(|v| v.into_iter().collect::<String>());
    prop_oneof![
        6 => (wrap(), word, wrap(), 0usize..8).prop_map(|(lead, word, trail, optidx)| Case { lead, word, trail, raw: None, optidx }),
        4 => (raw, 0usize..8).prop_map(|(r, optidx)| Case { lead: String::new(), word: String::new(), trail: String::new(), raw: Some(r), optidx }),
    ]
}

/// One live context per shard, switched between suggestions off and on by update-engine (while idle)
/// for the whole run: the single string must be the transliteration no matter what the context converted
/// in between - off(T), on(another text), off(T) again, on(T).
pub struct Toggling {
    sb: Sandbox,
    ctx: Ctx,
    prev: String,
}

fn mk_toggling(shard: usize) -> Toggling {
    let sb = Sandbox::new();
    let mut o = Opts::parse("q");
    o.english = shard & 1 != 0;
    o.ansi = shard & 2 != 0 && shard & 4 != 0;
    Toggling { ctx: Ctx::new(o, &sb).expect("context"), sb, prev: "kot".to_string() }
}

fn toggling_case(c: &Case, lo: &mut Toggling, st: &mut Stats) -> Result<(), Failure> {
    let text = c.text();
    if text.is_empty() {
        return Ok(());
    }
    let case = || json!({"toggling": true, "text": text, "lead": c.lead, "word": c.word, "trail": c.trail, "raw": c.raw, "previous_text": lo.prev});
    let pf = |p: crate::driver::PanicInfo| Failure::new(panic_kind(&p), p.to_string(), case());
    let (lead, word, trail) = match &c.raw {
        None => (c.lead.clone(), c.word.clone(), c.trail.clone()),
        Some(t) => ref_split(t, false),
    };
    let expected = if word.is_empty() { avro(&text) } else { format!("{}{}{}", avro(&lead), avro(&word), avro(&trail)) };
    let mut off = lo.ctx.opts;
    off.psug = false;
    let mut on = off;
    on.psug = true;
    let other = lo.prev.clone();
    for (round, between) in [(0, &other), (1, &text)] {
        lo.ctx.update(off, &lo.sb).map_err(pf)?;
        let r = lo.ctx.type_text(&text).map_err(pf)?.unwrap();
        lo.ctx.finish().map_err(pf)?;
        if !r.lonely || r.text != expected {
            return Err(Failure::new(
                "transliteration-after-toggling-suggestions",
                format!("one context switched off/on by update-engine, round {round}: typed {text:?} with suggestions off: got {}, expected {expected:?} (text converted before with suggestions on: {:?})", r.short(), if round == 0 { "-" } else { other.as_str() }),
                case(),
            ));
        }
        lo.ctx.update(on, &lo.sb).map_err(pf)?;
        let l = lo.ctx.type_text(between).map_err(pf)?.unwrap();
        lo.ctx.finish().map_err(pf)?;
        if round == 1 && !l.cands.iter().any(|x| uncurl(x) == expected) {
            return Err(Failure::new("transliteration-not-offered", format!("toggled context, suggestions on: typed {text:?}: {expected:?} not among {:?}", l.cands), case()));
        }
    }
    st.label("toggled-context-cases");
    lo.prev = text;
    Ok(())
}

/// A word can also be ended by committing ANY of the candidates shown for it.  For every punctuation-only text of
/// one or two characters, every emoticon of the table and a few words, under all 8 option sets, EVERY candidate
/// index is committed once, and the text typed next in the same context must still get its transliteration.
fn commit_then_type(run: &Run) {
    let punct: Vec<char> = crate::driver::typeable().into_iter().filter(|c| !c.is_ascii_alphanumeric()).collect();
    let mut texts: Vec<String> = punct.iter().map(|c| c.to_string()).collect();
    for a in &punct {
        for b in &punct {
            texts.push(format!("{a}{b}"));
        }
    }
    texts.extend(crate::gen::pools().emoticons.iter().cloned());
    texts.extend(["a", "ami", "(ami)", "smile", "sesh.", "\"k\"", "k:", "o`", "1", "a1"].iter().map(|s| s.to_string()));
    let items: Vec<(usize, String)> = texts.into_iter().enumerate().flat_map(|(i, t)| (0..8usize).map(move |k| (i * 8 + k, t.clone()))).collect();
    run.exhaustive(
        "commit-every-candidate-then-type",
        &items,
        |_| mk_local(),
        |(n, text), st, lo| commit_then_type_case(text, *n % 8, None, lo, st),
    );
    run.require_label("committed-a-non-preselected-candidate-then-typed", 1000);
}

fn commit_then_type_case(text: &str, optidx: usize, only_index: Option<usize>, lo: &mut Local, st: &mut Stats) -> Result<(), Failure> {
    let probes = [("", "ami", ""), ("(", "kotha", ")"), (";", "", ")")];
    let mut i = only_index.unwrap_or(0);
    loop {
        let case = || json!({"commit_then_type": {"text": text, "index": i, "optidx": optidx}});
        let pf = |p: crate::driver::PanicInfo| Failure::new(panic_kind(&p), p.to_string(), case());
        let on = &lo.on[optidx];
        on.finish().map_err(pf)?;
        let Some(l) = on.type_frontend(text).map_err(pf)? else { return Ok(()) };
        if l.lonely || i >= l.cands.len() {
            on.finish().map_err(pf)?;
            return Ok(());
        }
        on.commit(i).map_err(pf)?;
        st.evals(1);
        if i != l.sel {
            st.label("committed-a-non-preselected-candidate-then-typed");
        }
        let (pl, pw, pt) = probes[(i + text.len()) % probes.len()];
        let probe = Case { lead: pl.to_string(), word: pw.to_string(), trail: pt.to_string(), raw: None, optidx };
        check_opt(&probe, lo, st, false).map_err(|mut f| {
            f.kind = format!("after-commit:{}", f.kind);
            f.message = format!("after typing {text:?} and committing candidate {i} of {:?} ({}): {}", l.cands, lo.on[optidx].opts.letters(), f.message);
            f.case = case();
            f
        })?;
        if only_index.is_some() {
            return Ok(());
        }
        i += 1;
    }
}

/// Long words: nothing in the statement bounds the length of the word.  Lengths around powers of two and a few
/// odd ones, built from chained suffix keys, dictionary-guided spellings and random letters, bare and wrapped.
fn long_words(run: &Run) {
    let p = crate::gen::pools();
    let lens = [13usize, 16, 17, 24, 31, 32, 33, 40, 47, 48, 49, 50, 63, 64, 65, 80, 96, 127, 128, 129, 160];
    let mut items: Vec<Case> = vec![];
    for (li, &len) in lens.iter().enumerate() {
        for kind in 0..3usize {
            let mut w = String::new();
            let mut n = li * 7 + kind;
            while w.len() < len {
                match kind {
                    0 => w.push_str(&p.suffix_keys[(n * 131) % p.suffix_keys.len()]),
                    1 => w.push_str(&crate::gen::guided_bases()[(n * 37) % crate::gen::guided_bases().len()].0),
                    _ => w.push("aeioukhgnrtsdlmbpcjyzwOTDNSR".as_bytes()[(hash_of(&(li, n)) as usize) % 28] as char),
                }
                n += 1;
            }
            let w: String = w.chars().filter(|c| c.is_ascii_alphanumeric()).take(len).collect();
            for (l, t) in [("", ""), ("(", ")"), ("", "."), ("\"", "\"!"), ("-", "")] {
                items.push(Case { lead: l.to_string(), word: w.clone(), trail: t.to_string(), raw: None, optidx: li + kind });
            }
        }
    }
    run.exhaustive("long-words", &items, |_| mk_local(), |c, st, lo| {
        st.label("long-word-cases");
        checked(c, lo, st)
    });
    run.require_label("long-word-cases", 300);
}

/// Words whose transliteration carries a joiner (ZWJ from `rZ`, ZWNJ from `,,`) while the dictionary lists the same
/// word without it: the transliteration and the dictionary word are two different candidates and both must be there.
fn joiner_words(run: &Run) {
    let sp = crate::gen::joiner_spellings(60);
    let mut items: Vec<Case> = vec![];
    for (i, (s, _)) in sp.iter().enumerate() {
        for (l, t) in [("", ""), ("\"", "\""), ("{", "}."), ("", "?")] {
            items.push(Case { lead: String::new(), word: String::new(), trail: String::new(), raw: Some(format!("{l}{s}{t}")), optidx: i });
        }
    }
    run.exhaustive("joiner-words-with-a-joinerless-dictionary-twin", &items, |_| mk_local(), |c, st, lo| {
        st.label("joiner-word-cases");
        checked(c, lo, st)
    });
    run.require_label("joiner-word-cases", 100);
}

/// "the transliteration of exactly what was typed": a character is a character whichever key produced it.  Every text of
/// up to three characters over digits, the number-pad marks (. + - * / =) and two letters is typed once with the
/// number-pad keys (for every character that has one) and once with the main-block keys; list off, list on, list +
/// English: the two contexts must show the same thing after every key.
fn number_pad_keys_are_characters(run: &Run) {
    let alphabet: Vec<char> = "12.+-*/=ak".chars().collect();
    let mut texts: Vec<String> = vec![];
    for a in &alphabet {
        texts.push(a.to_string());
        for b in &alphabet {
            texts.push(format!("{a}{b}"));
            for c in &alphabet {
                texts.push(format!("{a}{b}{c}"));
            }
        }
    }
    run.exhaustive(
        "number-pad-keys-are-characters-too",
        &texts,
        |_| {
            let sb = Sandbox::new();
            let ctxs: Vec<(Ctx, Ctx)> = ["q", "sq", "sqe"].iter().map(|o| (Ctx::new(Opts::parse(o), &sb).expect("context"), Ctx::new(Opts::parse(o), &sb).expect("context"))).collect();
            (sb, ctxs)
        },
        |text, st, (_sb, ctxs)| {
            if !text.chars().any(|c| keys().numpad_code_for(c).is_some()) {
                return Ok(());
            }
            for (pad, main) in ctxs.iter() {
                let case = || json!({"number_pad_text": text, "opts": pad.opts.letters()});
                let pf = |p: crate::driver::PanicInfo| Failure::new(panic_kind(&p), p.to_string(), case());
                pad.finish().map_err(pf)?;
                main.finish().map_err(pf)?;
                for (i, ch) in text.chars().enumerate() {
                    let code = keys().numpad_code_for(ch).unwrap_or_else(|| keys().code_for(ch));
                    let a = pad.key(code, 0, 0).map_err(pf)?;
                    let b = main.ch(ch, 0).map_err(pf)?;
                    st.evals(1);
                    if a != b {
                        return Err(Failure::new(
                            "number-pad-key-is-another-character",
                            format!("typed {:?} ({}): with the number-pad keys {} but with the main-block keys {}", text.chars().take(i + 1).collect::<String>(), pad.opts.letters(), a.short(), b.short()),
                            case(),
                        ));
                    }
                }
                pad.finish().map_err(pf)?;
                main.finish().map_err(pf)?;
            }
            st.label("typed-with-number-pad-keys");
            st.nontrivial(hash_of(&("numpad", text)), || json!({"typed_with_number_pad_keys": text}));
            Ok(())
        },
    );
}

/// A key that produces no character (number-pad Enter) pressed in the middle of a word types nothing: what is returned
/// for it is what was returned for the key before it, and the word goes on as if it had not been pressed.  List off (the
/// single string), list on, list + English; the context has shown other words before.
fn characterless_key_inside_a_word(run: &Run) {
    let words = ["ko", "ami", "(a)", "sesh.", "rZ", "k", "x`y", "100", "\"ami"];
    let items: Vec<(usize, usize)> = (0..words.len()).flat_map(|w| (0..3usize).map(move |o| (w, o))).collect();
    let enter = keys().by_name("KP_ENTER").map(|k| k.code).unwrap_or(0);
    run.exhaustive(
        "a-key-without-a-character-inside-a-word",
        &items,
        |_| Sandbox::new(),
        |&(wi, oi), st, sb| {
            let opts = Opts::parse(["q", "sq", "sqe"][oi]);
            let case = || json!({"characterless_key": {"word": words[wi], "opts": opts.letters()}});
            let pf = |p: crate::driver::PanicInfo| Failure::new(panic_kind(&p), p.to_string(), case());
            let mut on = Opts::parse("sqe");
            on.smart = opts.smart;
            // the context has built lists before (created with the list on, then told the options under test)
            let mut with = Ctx::new(on, sb).map_err(pf)?;
            with.type_text("ami").map_err(pf)?;
            with.finish().map_err(pf)?;
            with.update(opts, sb).map_err(pf)?;
            let plain = Ctx::new(opts, sb).map_err(pf)?;
            for pos in 1..=words[wi].chars().count() {
                with.finish().map_err(pf)?;
                plain.finish().map_err(pf)?;
                for (i, ch) in words[wi].chars().enumerate() {
                    let a = with.ch(ch, 0).map_err(pf)?;
                    let b = plain.ch(ch, 0).map_err(pf)?;
                    if a != b {
                        return Err(Failure::new("characterless-key-changes-the-word", format!("typed {:?} ({}) with number-pad Enter pressed after {pos} characters: {} but without it {}", words[wi], opts.letters(), a.short(), b.short()), case()));
                    }
                    if i + 1 == pos {
                        let e = with.key(enter, 0, if a.lonely { 0 } else { a.sel.min(255) as u8 }).map_err(pf)?;
                        st.evals(1);
                        if e != a {
                            return Err(Failure::new(
                                "characterless-key-changes-the-word",
                                format!("typed {:?} ({}), then number-pad Enter (a key without a character): returned {} instead of what the key before it returned, {}", words[wi].chars().take(pos).collect::<String>(), opts.letters(), e.short(), a.short()),
                                case(),
                            ));
                        }
                    }
                }
            }
            st.label("characterless-key-inside-a-word");
            st.nontrivial(hash_of(&("enter", wi, oi)), || json!({"word": words[wi], "opts": opts.letters()}));
            Ok(())
        },
    );
}

pub fn run(run: &Run) {
    characterless_key_inside_a_word(run);
    number_pad_keys_are_characters(run);
    commit_then_type(run);
    long_words(run);
    joiner_words(run);
    run.sharded("one-context-toggled-off-on", 16, run.tier.pick(600, 12000), 0, strategy, mk_toggling, |c: &Case, st, lo| toggling_case(c, lo, st));
    run.require_label("toggled-context-cases", 1000);
    // exhaustive short words
    let sub: Vec<char> = "aeiouOkgtdnrsZhwy1.0".chars().filter(|c| c.is_ascii_alphanumeric()).collect();
    let mut words: Vec<String> = vec![String::new()];
    for a in &sub {
        words.push(a.to_string());
        for b in &sub {
            words.push(format!("{a}{b}"));
        }
    }
    let wraps: Vec<String> = std::iter::once(String::new()).chain(PUNCT27.chars().map(|c| c.to_string())).collect();
    let stride = run.tier.pick(3, 1);
    let items: Vec<(usize, usize)> = (0..words.len()).flat_map(|w| (0..wraps.len()).map(move |l| (w, l))).collect();
    run.exhaustive(
        "short-words-x-single-wrappers",
        &items,
        |_| mk_local(),
        |&(wi, li), st, lo| {
            for (ti, t) in wraps.iter().enumerate() {
                if (wi + li + ti) % stride != 0 {
                    continue;
                }
                st.evals(1);
                let c = Case { lead: wraps[li].clone(), word: words[wi].clone(), trail: t.clone(), raw: None, optidx: wi + li * 3 + ti };
                checked(&c, lo, st)?;
            }
            Ok(())
        },
    );
    run.sharded(
        "generated-texts",
        16,
        run.tier.pick(2500, 60000),
        1500,
        strategy,
        |_| mk_local(),
        |c: &Case, st, lo| checked(c, lo, st),
    );
    run.require_label("split-matters", 20);
    run.require_label("has-backtick", 20);
    run.require_label("has-colon", 20);
}

pub fn replay(_run: &Run, case: &Value) -> Result<(), Failure> {
    let s = |k: &str| case[k].as_str().unwrap_or_default().to_string();
    if let Some(ct) = case.get("commit_then_type") {
        let mut lo = mk_local();
        return commit_then_type_case(ct["text"].as_str().unwrap_or_default(), ct["optidx"].as_u64().unwrap_or(0) as usize % 8, Some(ct["index"].as_u64().unwrap_or(0) as usize), &mut lo, &mut Stats::new());
    }
    let c = Case { lead: s("lead"), word: s("word"), trail: s("trail"), raw: case["raw"].as_str().map(|x| x.to_string()), optidx: case["optidx"].as_u64().unwrap_or(0) as usize };
    let mut lo = mk_local();
    let _ = &lo.sb;
    check(&c, &mut lo, &mut Stats::new())
}
