//! C08 — dictionary-derived candidates are justified, and suffix forms are complete.

use crate::driver::{Ctx, Opts, Sandbox};
use crate::gen::pools;
use crate::model::{self, data, join};
use crate::phon::{analyse, classify, direct_cores, join_class};
use crate::props::c01::panic_kind;
use crate::runner::{hash_of, with_fresh_retry, Failure, Run, Stats};
use proptest::prelude::*;
use serde_json::{json, Value};
use std::collections::HashMap;

pub const LEVEL: &str = "exploration";
pub const EXHAUSTIVE: bool = false;
pub const RULE: &str = "words W = K.s typed key by key, stratified over ALL 737 suffix keys s (every suffix key meets N bases: quick N=24, thorough N=400) with K drawn from: every lower-case string of length 1..2, every bundled auto-correct key, generated Avro-biased strings of 2..5 letters; 1 in 4 wrapped in punctuation; plus generated (K, s, wrapper) triples. Soundness (every list after every key): each candidate that is not the auto-correct entry, the transliteration, a table emoji or the raw text must be a dictionary word matching the okkhor pattern of the word, or b joined to suffix[s'] for a split W = K'.s' where b is a dictionary match / the auto-correct entry of K' (the inverse of the three joining rules enumerates every possible b). Completeness (|W| > 2): the direct candidates offered after typing K (judged by the same independent test) must all be offered in joined form after s is typed in the same context: join inserts U+09DF between a final vowel(sign) and an initial vowel sign, turns final U+09CE into U+09A4 and final U+0982 into U+0999, else concatenates. Non-trivial: K has >= 1 direct candidate; distinct by (K, s, wrapper); the evidence lists the joining-rule combinations met. Plus: a base known only to the USER's auto-correct list, typed with suffix keys before and after its entry is changed / removed / added (file edited, update-engine while idle): soundness and completeness judged against the list in force.";
pub const ASSUMPTIONS: &[&str] = &[
    "dictionary / suffix / auto-correct JSON read independently; okkhor regex",
    "'final vowel' includes vowel signs (DESIGN section 6)",
    "base words are alphanumeric, so every prefix of the word was itself the word part earlier",
];

pub struct Local {
    _sb: Sandbox,
    ctx: Ctx,
}

pub fn mk_local() -> Local {
    let sb = Sandbox::new();
    let ctx = Ctx::new(Opts::parse("sq"), &sb).expect("context");
    Local { _sb: sb, ctx }
}

#[derive(Clone, Debug)]
pub struct Case {
    pub lead: String,
    pub base: String,
    pub suffix: String,
    pub trail: String,
}

fn case_json(c: &Case) -> Value {
    json!({"lead": c.lead, "base": c.base, "suffix": c.suffix, "trail": c.trail})
}

fn check(c: &Case, lo: &mut Local, st: &mut Stats) -> Result<(), Failure> {
    let user: HashMap<String, String> = HashMap::new();
    check_with(&lo.ctx, &user, c, st, &|| case_json(c))
}

fn check_with(ctx: &Ctx, user: &HashMap<String, String>, c: &Case, st: &mut Stats, case: &dyn Fn() -> Value) -> Result<(), Failure> {
    let user = user.clone();
    let pf = |p: crate::driver::PanicInfo| Failure::new(panic_kind(&p), p.to_string(), case());
    ctx.finish().map_err(pf)?;
    let full = format!("{}{}{}{}", c.lead, c.base, c.suffix, c.trail);
    let base_end = c.lead.chars().count() + c.base.chars().count();
    let mut typed = String::new();
    let mut direct: Vec<String> = vec![];
    let mut last = None;
    for (i, ch) in full.chars().enumerate() {
        typed.push(ch);
        let r = ctx.ch(ch, 0).map_err(pf)?;
        let info = analyse(&typed, true, false, &user);
        // soundness
        for cand in &r.cands {
            let cl = classify(&info, cand, &user);
            st.count("candidates-judged", 1);
            if !cl.any() {
                return Err(Failure::new(
                    "unjustified-candidate",
                    format!("typed {typed:?}: candidate {cand:?} is neither auto-correct, transliteration, emoji, raw text, a matching dictionary word nor a direct candidate of a prefix joined to a known suffix; list {:?}", r.cands),
                    case(),
                ));
            }
            if cl.suffix_built {
                st.count("suffix-built-candidates", 1);
                for (a, b) in &cl.joins {
                    st.label(&format!("join:{a}+{b}"));
                }
            }
        }
        if i + 1 == base_end && !c.base.is_empty() {
            direct = direct_cores(&info, &r.cands);
        }
        last = Some((r, info));
    }
    ctx.finish().map_err(pf)?;
    // completeness
    let word = format!("{}{}", c.base, c.suffix);
    if let (Some((r, info)), Some(sbn)) = (last, data().suffix.get(&c.suffix)) {
        if word.len() > 2 && !c.base.is_empty() && info.word == word {
            for d in &direct {
                let want = format!("{}{}{}", info.p, join(d, sbn), info.t);
                st.count("completeness-checks", 1);
                if !r.cands.contains(&want) {
                    return Err(Failure::new(
                        "suffix-form-missing",
                        format!("typed {full:?}: base {:?} offered {d:?}, so {want:?} (joined with {sbn:?}) must be offered; list {:?}", c.base, r.cands),
                        case(),
                    ));
                }
                st.label(&format!("complete:{}+{}", join_class(d.chars().last().unwrap_or_default()), join_class(sbn.chars().next().unwrap_or_default())));
                let (lc, fc) = (d.chars().last().unwrap_or_default(), sbn.chars().next().unwrap_or_default());
                if model::is_any_sign(lc) && model::is_any_sign(fc) {
                    st.label(&format!("complete-sign-pair:U+{:04X}+U+{:04X}", lc as u32, fc as u32));
                }
            }
            if !direct.is_empty() {
                st.nontrivial(hash_of(&(&c.lead, &c.base, &c.suffix, &c.trail)), || json!({"typed": full, "direct_candidates_of_base": direct, "list": r.cands}));
            }
        }
    }
    Ok(())
}

/// The user's auto-correct list is one source of direct candidates, and it can change under a live context
/// (file edited, update-engine while idle).  A base that only the user's list knows is typed with suffixes before
/// and after its entry is changed / removed / added: soundness and completeness are judged against the list that
/// is in force at that moment.
fn user_list_edited(run: &Run) {
    let sk = &crate::gen::pools().suffix_keys;
    let keys = ["dhk", "qxk", "abcx", "kolkt"];
    let vals = ["dhaka", "DhakeshworI", "kolkata", "bangla", "boi"];
    let mut items: Vec<(usize, usize, usize, usize, usize)> = vec![];
    for k in 0..keys.len() {
        for v1 in 0..vals.len() {
            for edit in 0..3usize {
                for sfx in 0..run.tier.pick(6usize, 40usize) {
                    items.push((k, v1, (v1 + 1 + sfx) % vals.len(), edit, (k * 131 + v1 * 17 + sfx * 53 + edit) % sk.len()));
                }
            }
        }
    }
    run.exhaustive(
        "user-auto-correct-list-edited-under-a-live-context",
        &items,
        |_| (),
        |&(k, v1, v2, edit, si), st, _| user_list_case(keys[k], vals[v1], vals[v2], edit, &sk[si], st),
    );
}

fn user_list_case(key: &str, val1: &str, val2: &str, edit: usize, suffix: &str, st: &mut Stats) -> Result<(), Failure> {
    use std::time::{Duration, UNIX_EPOCH};
    let case = || json!({"user_list_edited": {"key": key, "value_before": val1, "value_after": val2, "edit": edit, "suffix": suffix}});
    let pf = |p: crate::driver::PanicInfo| Failure::new(panic_kind(&p), p.to_string(), case());
    let sb = Sandbox::new();
    let write = |m: &HashMap<String, String>, secs: u64| {
        std::fs::write(sb.autocorrect_file(), serde_json::to_string(m).unwrap()).expect("write");
        std::fs::File::options().write(true).open(sb.autocorrect_file()).expect("open").set_modified(UNIX_EPOCH + Duration::from_secs(secs)).expect("mtime");
    };
    // edit 0: value changed; 1: entry removed (another entry stays); 2: entry added
    let mut before: HashMap<String, String> = HashMap::new();
    before.insert("zzq".to_string(), "boi".to_string());
    if edit != 2 {
        before.insert(key.to_string(), val1.to_string());
    }
    let mut after = before.clone();
    match edit {
        0 => {
            after.insert(key.to_string(), val2.to_string());
        }
        1 => {
            after.remove(key);
        }
        _ => {
            after.insert(key.to_string(), val2.to_string());
        }
    }
    write(&before, 3_000_000);
    let mut ctx = Ctx::new(Opts::parse("sq"), &sb).map_err(pf)?;
    let c = Case { lead: String::new(), base: key.to_string(), suffix: suffix.to_string(), trail: String::new() };
    check_with(&ctx, &before, &c, st, &case)?;
    write(&after, 3_000_100);
    ctx.update(Opts::parse("sq"), &sb).map_err(pf)?;
    check_with(&ctx, &after, &c, st, &case).map_err(|mut f| {
        f.kind = format!("after-user-list-edit:{}", f.kind);
        f.message = format!("user auto-correct list changed from {before:?} to {after:?}, update-engine: {}", f.message);
        f
    })?;
    st.label("user-list-edited");
    Ok(())
}

/// Data corner: auto-correct keys that are another auto-correct key followed by a suffix key (`office` = `offic`+`e`):
/// the word has an entry of its own AND a base with an entry.  All such pairs of the data, bare and wrapped.
fn autocorrect_key_pairs(run: &Run) {
    let d = data();
    let mut items: Vec<Case> = vec![];
    let mut keys: Vec<&String> = d.autocorrect.keys().collect();
    keys.sort();
    for k in keys {
        for i in 1..k.len() {
            if !k.is_char_boundary(i) {
                continue;
            }
            let (b, s) = k.split_at(i);
            if d.autocorrect.contains_key(b) && d.suffix.contains_key(s) && k.chars().all(|c| crate::driver::keys().has_char(c)) && b.chars().all(|c| c.is_ascii_alphanumeric()) {
                for (l, t) in [("", ""), ("(", ")")] {
                    items.push(Case { lead: l.to_string(), base: b.to_string(), suffix: s.to_string(), trail: t.to_string() });
                }
            }
        }
    }
    run.exhaustive("auto-correct-key-that-is-an-auto-correct-key-plus-suffix", &items, |_| mk_local(), |c, st, lo| {
        st.label("auto-correct-key-pairs");
        checked(c, lo, st)
    });
    run.require_label("auto-correct-key-pairs", 60);
}

fn checked(c: &Case, lo: &mut Local, st: &mut Stats) -> Result<(), Failure> {
    with_fresh_retry(lo, mk_local, |l, s| check(c, l, s), st)
}

fn base_pool() -> Vec<String> {
    let mut v: Vec<String> = vec![];
    for a in 'a'..='z' {
        v.push(a.to_string());
        for b in 'a'..='z' {
            v.push(format!("{a}{b}"));
        }
    }
    v.extend(pools().ac_keys.iter().filter(|k| k.chars().all(|c| c.is_ascii_alphanumeric())).cloned());
    v.extend(crate::gen::guided_bases().iter().map(|(l, _)| l.clone()));
    for w in ["hothat", "ebong", "i", "onno", "kkhet", "form", "format", "computer", "sesh", "bangla", "kotha", "jibon", "desh", "manush", "boi", "nodi", "ma", "baba", "din", "rat", "sat", "ut", "sot", "bhobishyot", "sonG", "rong", "dhong", "ong"] {
        v.push(w.to_string());
    }
    v
}

pub fn strategy() -> impl Strategy<Value = Case> {
    let letters: Vec<char> = "aaeiioukhgnrtsdlmbpcjyzwvfxqOTDNSRng".chars().collect();
    let punct: Vec<char> = "-]~!@#%&*()_=+[{}'\";<>/?|.,".chars().collect();
    let base = prop_oneof![
        2 => proptest::sample::select(base_pool()),
        3 => proptest::collection::vec(proptest::sample::select(letters), 2..6).prop_map(|v| v.into_iter().collect::<String>()),
    ];
    let sfx = prop_oneof![6 => proptest::sample::select(pools().suffix_keys.clone()), 1 => Just(String::new())];
    let wrap = || proptest::collection::vec(proptest::sample::select(punct.clone()), 0..3).prop_map(|v| v.into_iter().collect::<String>());
    let wr = prop_oneof![3 => Just((String::new(), String::new())), 1 => (wrap(), wrap())];
    (base, sfx, wr).prop_map(|(base, suffix, (lead, trail))| Case { lead, base, suffix, trail })
}

/// A learned choice must not widen the list: for bases whose list mixes kinds (emoji of a name, the plain transliteration,
/// the raw English text, dictionary words, the auto-correct entry) EVERY candidate index is learned in turn, then the
/// base is typed with suffixes in the same context and in a restarted one; every candidate must still be justified and
/// every direct candidate of the base still be offered in joined form.
fn learned_choice_then_suffix(run: &Run) {
    let p = crate::gen::pools();
    let mut bases: Vec<String> = ["smile", "cool", "sesh", "ami", "help", "boi", "kotha", "park", "ok", "atm", "a"].iter().map(|s| s.to_string()).collect();
    bases.extend(p.emoji_names.iter().filter(|n| n.len() >= 3 && n.chars().all(|c| c.is_ascii_lowercase())).step_by(run.tier.pick(41, 7)).cloned());
    let suffixes = ["r", "e", "er", "ke", "te", "gulo", "ta", "i"];
    run.exhaustive(
        "every-candidate-of-the-base-learned-then-base-plus-suffix",
        &bases,
        |_| (),
        |base, st, _| {
            for english in [false, true] {
                let sb = Sandbox::new();
                let mut opts = Opts::parse("sq");
                opts.english = english;
                let user: HashMap<String, String> = HashMap::new();
                let mk = || Ctx::new(opts, &sb).map_err(|p| Failure::new(panic_kind(&p), p.to_string(), json!({"learned_then_suffix": base})));
                let mut ctx = mk()?;
                let n = match ctx.type_frontend(base).map_err(|p| Failure::new(panic_kind(&p), p.to_string(), json!({"learned_then_suffix": base})))? {
                    Some(r) if !r.lonely => r.cands.len(),
                    _ => continue,
                };
                ctx.finish().map_err(|p| Failure::new(panic_kind(&p), p.to_string(), json!({})))?;
                for idx in 0..n {
                    let case = || json!({"learned_then_suffix": {"base": base, "index": idx, "english": english}});
                    let pf = |p: crate::driver::PanicInfo| Failure::new(panic_kind(&p), p.to_string(), case());
                    ctx.type_frontend(base).map_err(pf)?;
                    ctx.commit(idx).map_err(pf)?;
                    for (si, sfx) in suffixes.iter().enumerate() {
                        if si % 2 == 1 {
                            ctx = mk()?; // a restarted context reads the choice from the file
                        }
                        let c = Case { lead: String::new(), base: base.clone(), suffix: sfx.to_string(), trail: String::new() };
                        check_with(&ctx, &user, &c, st, &case)?;
                    }
                    st.count("learned-index-then-suffix-checks", suffixes.len() as u64);
                }
            }
            st.label("learned-choice-then-suffix");
            Ok(())
        },
    );
}

/// Long words: validated spellings of the longest dictionary words (17 to 30 Latin letters), alone and followed by suffix
/// keys.  Whatever the engine does differently beyond some length (a cut-off pattern, a skipped look-up) shows as an
/// unjustified candidate or a missing joined form here; random and short guided bases never get that long.
fn long_dictionary_words(run: &Run) {
    let mut spellings: Vec<String> = vec![];
    let mut seen = std::collections::HashSet::new();
    for w in data().all_words.iter().filter(|w| w.chars().count() >= 10) {
        if let Some(sp) = crate::gen::romanise_long(w).or_else(|| crate::gen::romanise_validated(w)) {
            if (17..=30).contains(&sp.len()) && seen.insert(sp.clone()) {
                spellings.push(sp);
            }
        }
        if spellings.len() >= 4000 {
            break;
        }
    }
    // every length present, up to 40 spellings per length
    let mut by_len: std::collections::BTreeMap<usize, Vec<String>> = Default::default();
    for sp in spellings {
        let v = by_len.entry(sp.len()).or_default();
        if v.len() < run.tier.pick(40, 400) {
            v.push(sp);
        }
    }
    let items: Vec<String> = by_len.into_values().flatten().collect();
    run.stats.lock().unwrap().count("long-dictionary-spellings", items.len() as u64);
    run.exhaustive(
        "validated-spellings-of-the-longest-dictionary-words-with-suffixes",
        &items,
        |_| mk_local(),
        |sp, st, lo| {
            for sfx in ["", "i", "gulo", "e", "r"] {
                let c = Case { lead: String::new(), base: sp.clone(), suffix: sfx.to_string(), trail: String::new() };
                checked(&c, lo, st)?;
            }
            st.label("long-dictionary-word-with-suffixes");
            Ok(())
        },
    );
}

pub fn run(run: &Run) {
    long_dictionary_words(run);
    learned_choice_then_suffix(run);
    user_list_edited(run);
    autocorrect_key_pairs(run);
    run.require_label("user-list-edited", 300);
    let bases = base_pool();
    let sk = pools().suffix_keys.clone();
    let per = run.tier.pick(24usize, 400usize);
    let items: Vec<usize> = (0..sk.len()).collect();
    run.exhaustive(
        "every-suffix-key-x-bases",
        &items,
        |_| mk_local(),
        |&si, st, lo| {
            for k in 0..per {
                st.evals(1);
                let h = hash_of(&(si, k, run.seed)) as usize;
                let base = bases[h % bases.len()].clone();
                let (lead, trail) = if h / 7 % 4 == 0 { (["(", "\"", "", "'["][h / 28 % 4].to_string(), [")", "\".", "?", "]'"][h / 28 % 4].to_string()) } else { (String::new(), String::new()) };
                let c = Case { lead, base, suffix: sk[si].clone(), trail };
                checked(&c, lo, st)?;
            }
            st.label("suffix-keys-covered");
            Ok(())
        },
    );
    // joining-rule matrix: every guided base (all final characters of dictionary words) x one suffix key
    // per distinct first character of a Bengali suffix form
    let mut reps: std::collections::BTreeMap<char, Vec<String>> = std::collections::BTreeMap::new();
    for k in &sk {
        if let Some(c) = model::data().suffix.get(k).and_then(|v| v.chars().next()) {
            let e = reps.entry(c).or_default();
            if e.len() < 2 {
                e.push(k.clone());
            }
        }
    }
    let rep_keys: Vec<String> = reps.values().flatten().cloned().collect();
    let guided: Vec<String> = crate::gen::guided_bases().iter().map(|(l, _)| l.clone()).collect();
    run.exhaustive(
        "joining-rule-matrix",
        &guided,
        |_| mk_local(),
        |base, st, lo| {
            for s in &rep_keys {
                st.evals(1);
                let c = Case { lead: String::new(), base: base.clone(), suffix: s.clone(), trail: String::new() };
                checked(&c, lo, st)?;
            }
            Ok(())
        },
    );
    run.stats.lock().unwrap().count("distinct-first-characters-of-suffix-forms", reps.len() as u64);
    run.sharded("generated-triples", 16, run.tier.pick(600, 20000), 800, strategy, |_| mk_local(), |c: &Case, st, lo| checked(c, lo, st));
    run.require_label("suffix-keys-covered", model::data().suffix_keys.len() as u64 - 5);
    run.require_label("join:t+s", 1);
    run.require_label("join:n+c", 1);
    run.require_label("join:s+s", 1);
    run.stats.lock().unwrap().count("guided-bases-in-pool", crate::gen::guided_bases().len() as u64);
}

pub fn replay(_run: &Run, case: &Value) -> Result<(), Failure> {
    if let Some(l) = case.get("learned_then_suffix").filter(|l| l.is_object()) {
        let (base, idx, english) = (l["base"].as_str().unwrap_or_default().to_string(), l["index"].as_u64().unwrap_or(0) as usize, l["english"].as_bool().unwrap_or(false));
        let sb = Sandbox::new();
        let mut opts = Opts::parse("sq");
        opts.english = english;
        let pf = |p: crate::driver::PanicInfo| Failure::new(panic_kind(&p), p.to_string(), case.clone());
        let mut ctx = Ctx::new(opts, &sb).map_err(pf)?;
        ctx.type_frontend(&base).map_err(pf)?;
        ctx.commit(idx).map_err(pf)?;
        for (si, sfx) in ["r", "e", "er", "ke", "te", "gulo", "ta", "i"].iter().enumerate() {
            if si % 2 == 1 {
                ctx = Ctx::new(opts, &sb).map_err(pf)?;
            }
            let c = Case { lead: String::new(), base: base.clone(), suffix: sfx.to_string(), trail: String::new() };
            check_with(&ctx, &HashMap::new(), &c, &mut Stats::new(), &|| case.clone())?;
        }
        return Ok(());
    }
    if let Some(u) = case.get("user_list_edited") {
        let g = |k: &str| u[k].as_str().unwrap_or_default().to_string();
        return user_list_case(&g("key"), &g("value_before"), &g("value_after"), u["edit"].as_u64().unwrap_or(0) as usize, &g("suffix"), &mut Stats::new());
    }
    let s = |k: &str| case[k].as_str().unwrap_or_default().to_string();
    let c = Case { lead: s("lead"), base: s("base"), suffix: s("suffix"), trail: s("trail") };
    check(&c, &mut mk_local(), &mut Stats::new())
}
