//! C12 — fixed-layout composition helpers rewrite the text exactly as documented.

use crate::driver::{keys, layout_inverse, layout_value, load_layout_json, Ctx, Layout, Opts, Sandbox};
use crate::model::{self, compose_step, reph_check, FixedOpts, Rule};
use crate::props::c01::panic_kind;
use crate::runner::{hash_of, Failure, Run, Stats};
use proptest::prelude::*;
use serde_json::{json, Value};

pub const LEVEL: &str = "exploration";
pub const EXHAUSTIVE: bool = true;
pub const RULE: &str = "enumerated: ALL key histories of length <= L (quick L=4, thorough L=5) over a 20-symbol alphabet of the synthetic layout (ra, ka, a, i, aa-sign, i-sign, u-sign, au-sign, hasanta, chandrabindu, AU length mark, '!', digit, anusvara, ZWNJ, zo-fola, ro-fola, reph, ksha, backspace) x all 16 settings of {auto vowel, auto chandrabindu, traditional joining, old reph}, old vowel-sign order and suggestions off; plus generated histories of 5..24 keys over every key of both fixed layouts. Oracle: after every key the pre-edit text must equal compose_step(previous actual text, key value, options), a pure function transcribed from the statement's priority chain; the reph key under old reph is judged by C13's conservation/placement oracle; backspace removes one code point. Steps whose previous character has a class the statement leaves open are not judged (counted). Non-trivial: some step fired a rule other than plain append; distinct by (options, sequence of rules fired). Plus: after a word typed under old vowel-sign order (3 preludes, with or without a sign still waiting) was ended in each of four ways and update-engine switched the order off, every two-key history over the alphabet (backspace included) is judged by the same rules.";
pub const ASSUMPTIONS: &[&str] = &[
    "rule table written from the property statement (model::compose_step)",
    "punctuation class limited to undisputed members; ' & danda khanda-ta and Sanskrit vocalic letters are not judged as previous characters",
    "key values come from the layout JSON through the header-derived key table",
];

/// alphabet: values looked up in the synthetic layout by value
fn sigma() -> Vec<(String, (u16, u8))> {
    let inv = layout_inverse(Layout::Synthetic);
    let vals = [
        "\u{09B0}", "\u{0995}", "\u{0985}", "\u{0987}", "\u{09BE}", "\u{09BF}", "\u{09C1}", "\u{09CC}", "\u{09CD}",
        "\u{0981}", "\u{09D7}", "!", "\u{09E7}", "\u{0982}", "\u{200C}", model::ZOFOLA, model::ROFOLA, model::REPH,
        "\u{0995}\u{09CD}\u{09B7}",
    ];
    vals.iter().map(|v| (v.to_string(), *inv.get(*v).unwrap_or_else(|| panic!("synthetic layout lacks {v:?}")))).collect()
}

fn fixed_opts(bits: u32) -> (Opts, FixedOpts) {
    let f = FixedOpts { vowel: bits & 1 != 0, chandra: bits & 2 != 0, kar: bits & 4 != 0, reph: bits & 8 != 0 };
    let mut o = Opts::parse("SD");
    o.vowel = f.vowel;
    o.chandra = f.chandra;
    o.kar = f.kar;
    o.reph = f.reph;
    (o, f)
}

/// One step: returns the rule fired; Err on divergence.
fn judge(prev: &str, value: Option<&str>, now: &str, f: FixedOpts) -> Result<Rule, String> {
    match value {
        None => {
            let mut e = prev.to_string();
            e.pop();
            if e != now {
                return Err(format!("backspace on {prev:?} gave {now:?}, expected {e:?}"));
            }
            Ok(Rule::Backspace)
        }
        Some(v) => {
            let (rule, exp) = compose_step(prev, v, f);
            match (rule, exp) {
                (Rule::Reph, _) => reph_check(prev, now).map(|_| Rule::Reph),
                (Rule::Unjudged, _) => Ok(Rule::Unjudged),
                (r, Some(e)) => {
                    if e != now {
                        Err(format!("{prev:?} + key {v:?} gave {now:?}, the rules say {e:?} (rule {r:?})"))
                    } else {
                        Ok(r)
                    }
                }
                (r, None) => Ok(r),
            }
        }
    }
}

fn exhaustive(run: &Run, maxlen: usize) {
    let sig = sigma();
    let nk = sig.len() + 1;
    // item: (option bits, first symbol)
    let mut items = vec![];
    for bits in 0..16u32 {
        for first in 0..nk {
            items.push((bits, first));
        }
    }
    run.exhaustive(
        "all-histories-up-to-L",
        &items,
        |_| Sandbox::new(),
        |&(bits, first), st, sb| {
            let (opts, f) = fixed_opts(bits);
            let ctx = Ctx::new(opts, sb).map_err(|p| Failure::new(panic_kind(&p), p.to_string(), json!({})))?;
            let rest = (nk as u64).pow(maxlen as u32 - 1);
            let mut hist = vec![0usize; maxlen];
            for code in 0..rest {
                let mut x = code;
                hist[0] = first;
                for h in hist.iter_mut().skip(1) {
                    *h = (x % nk as u64) as usize;
                    x /= nk as u64;
                }
                let _ = ctx.finish();
                let mut prev = String::new();
                let mut rules = [Rule::Append; 8];
                let mut interesting = false;
                for (step, &k) in hist.iter().enumerate() {
                    let case = || {
                        json!({"opts": opts.letters(), "keys": hist[..=step].iter().map(|&i| if i == sig.len() { "BS".to_string() } else { sig[i].0.clone() }).collect::<Vec<_>>()})
                    };
                    let r = if k == sig.len() { ctx.backspace(false) } else { ctx.key(sig[k].1 .0, sig[k].1 .1, 0) };
                    let r = r.map_err(|p| Failure::new(panic_kind(&p), format!("{p}"), case()))?;
                    let value = if k == sig.len() { None } else { Some(sig[k].0.as_str()) };
                    match judge(&prev, value, &r.text, f) {
                        Ok(rule) => {
                            rules[step] = rule;
                            if !matches!(rule, Rule::Append | Rule::Backspace | Rule::SignPlain | Rule::Zofola | Rule::Unjudged) {
                                interesting = true;
                            }
                        }
                        Err(m) => return Err(Failure::new("composition-rule", m, case())),
                    }
                    prev = r.text;
                }
                st.evals(1);
                if interesting {
                    st.nontrivial(hash_of(&(bits, &rules[..maxlen])), || {
                        json!({"opts": opts.letters(), "keys": hist.iter().map(|&i| if i == sig.len() { "BS".to_string() } else { sig[i].0.clone() }).collect::<Vec<_>>(), "rules": format!("{:?}", &rules[..maxlen]), "text": prev})
                    });
                    st.label("histories-with-a-rule-other-than-append");
                }
            }
            Ok(())
        },
    );
}

#[derive(Clone, Debug)]
pub enum K {
    Key(u16, u8),
    Bs,
}

fn all_fixed_keys(layout: Layout) -> Vec<(u16, u8, String)> {
    let lay = load_layout_json(layout);
    let mut v = vec![];
    for k in &keys().keys {
        for altgr in [false, true] {
            if let Some(val) = layout_value(&lay, k, altgr, true) {
                v.push((k.code, if altgr { 2 } else { 0 }, val));
            }
        }
    }
    v
}

pub fn random_case(layout: Layout) -> impl Strategy<Value = (u32, Vec<K>)> {
    let ks: Vec<(u16, u8)> = all_fixed_keys(layout).into_iter().map(|(c, m, _)| (c, m)).collect();
    let sig: Vec<(u16, u8)> = if layout == Layout::Synthetic { sigma().into_iter().map(|(_, k)| k).collect() } else { ks.clone() };
    let key = prop_oneof![
        5 => proptest::sample::select(ks).prop_map(|(c, m)| K::Key(c, m)),
        5 => proptest::sample::select(sig).prop_map(|(c, m)| K::Key(c, m)),
        1 => Just(K::Bs),
    ];
    (0u32..16, proptest::collection::vec(key, 5..24))
}

fn run_random(layout: Layout, bits: u32, ks: &[K], st: &mut Stats, sb: &Sandbox) -> Result<(), Failure> {
    let (mut opts, f) = fixed_opts(bits);
    opts.layout = layout;
    opts.numpad = true;
    let lay = load_layout_json(layout);
    let ctx = Ctx::new(opts, sb).map_err(|p| Failure::new(panic_kind(&p), p.to_string(), json!({})))?;
    let mut prev = String::new();
    let mut rules = vec![];
    let mut shown: Vec<String> = vec![];
    for k in ks {
        let (r, value) = match k {
            K::Bs => {
                shown.push("BS".into());
                (ctx.backspace(false), None)
            }
            K::Key(c, m) => {
                let v = keys().by_code(*c).and_then(|ki| layout_value(&lay, ki, m & 2 != 0, true));
                shown.push(format!("{}:{}", keys().by_code(*c).map(|k| k.name.as_str()).unwrap_or("?"), m));
                (ctx.key(*c, *m, 0), v)
            }
        };
        let case = || json!({"opts": opts.letters(), "random_keys": shown});
        let r = r.map_err(|p| Failure::new(panic_kind(&p), p.to_string(), case()))?;
        let res = match (k, &value) {
            (K::Key(..), None) => {
                if r.text == prev { Ok(Rule::Append) } else { Err(format!("key without value changed {prev:?} to {:?}", r.text)) }
            }
            _ => judge(&prev, value.as_deref(), &r.text, f),
        };
        match res {
            Ok(rule) => rules.push(rule),
            Err(m) => return Err(Failure::new("composition-rule", m, case())),
        }
        prev = r.text;
    }
    let unj = rules.iter().filter(|r| **r == Rule::Unjudged).count();
    st.count("steps-not-judged-open-class", unj as u64);
    st.count("random-steps", rules.len() as u64);
    if rules.iter().any(|r| !matches!(r, Rule::Append | Rule::Backspace | Rule::SignPlain | Rule::Zofola | Rule::Unjudged)) {
        st.nontrivial(hash_of(&(bits, &rules, layout)), || json!({"opts": opts.letters(), "random_keys": shown, "text": prev}));
    }
    Ok(())
}

/// The rules must not depend on WHICH member of a class is typed: all three-key histories k1 k2 k3 with k1 and k3 over
/// EVERY assigned key of the layout (both planes, number pad) and k2 over the class representatives the layout has
/// (hasanta, chandrabindu, signs, length mark, joiners, digits, marks ...), judged step by step like every other history.
fn full_layout_triples(run: &Run) {
    let settings: Vec<u32> = run.tier.pick(vec![0, 0b0111], (0..16).collect());
    let reps: Vec<String> = sigma().into_iter().map(|(v, _)| v).chain(["\u{200D}".to_string(), "\u{09A4}".to_string(), "\u{09C7}".to_string()]).collect();
    let mut items: Vec<(Layout, u32, usize)> = vec![];
    for layout in [Layout::Probhat, Layout::Synthetic] {
        for &bits in &settings {
            for chunk in 0..8usize {
                items.push((layout, bits, chunk));
            }
        }
    }
    run.exhaustive(
        "three-key-histories-all-keys-x-class-representative-x-all-keys",
        &items,
        |_| Sandbox::new(),
        |&(layout, bits, chunk), st, sb| {
            let (mut opts, f) = fixed_opts(bits);
            opts.layout = layout;
            opts.numpad = true;
            let all = all_fixed_keys(layout);
            let mid: Vec<&(u16, u8, String)> = all.iter().filter(|(_, _, v)| reps.contains(v)).collect();
            let ctx = Ctx::new(opts, sb).map_err(|p| Failure::new(panic_kind(&p), p.to_string(), json!({})))?;
            let name = |c: u16, m: u8| format!("{}:{}", keys().by_code(c).map(|k| k.name.as_str()).unwrap_or("?"), m);
            for (i, k1) in all.iter().enumerate() {
                if i % 8 != chunk {
                    continue;
                }
                for k2 in &mid {
                    for k3 in &all {
                        let _ = ctx.finish();
                        let mut prev = String::new();
                        let mut fired = false;
                        for (n, k) in [k1, *k2, k3].into_iter().enumerate() {
                            let case = || {
                                let shown: Vec<String> = [k1, *k2, k3].iter().take(n + 1).map(|k| name(k.0, k.1)).collect();
                                json!({"opts": opts.letters(), "random_keys": shown})
                            };
                            let r = ctx.key(k.0, k.1, 0).map_err(|p| Failure::new(panic_kind(&p), p.to_string(), case()))?;
                            match judge(&prev, Some(k.2.as_str()), &r.text, f) {
                                Ok(rule) => fired |= !matches!(rule, Rule::Append | Rule::SignPlain | Rule::Zofola | Rule::Unjudged),
                                Err(m) => return Err(Failure::new("composition-rule", m, case())),
                            }
                            prev = r.text;
                        }
                        st.evals(1);
                        if fired && (k3.0 % 32 == 0) {
                            st.nontrivial(hash_of(&(layout, bits, k1.0, k1.1, k2.0, k2.1, k3.0, k3.1)), || json!({"opts": opts.letters(), "keys": [&k1.2, &k2.2, &k3.2], "text": prev}));
                        }
                    }
                }
            }
            let _ = ctx.finish();
            st.label("full-layout-triples");
            Ok(())
        },
    );
}

/// One history of the part below.  `prelude` 0 = a left-standing sign alone, 1 = consonant + sign typed the old way (sign
/// first), 2 = sign, consonant, sign (one placed, one waiting); `ending` 0 = commit, 1 = finish, 2 = ctrl-backspace,
/// 3 = plain backspaces until nothing is left.
fn after_old_order_case(ctx: &mut Ctx, sb: &Sandbox, bits: u32, prelude: u8, ending: u8, hist: &[usize], sig: &[(String, (u16, u8))]) -> Result<Vec<Rule>, Failure> {
    let (off, f) = fixed_opts(bits);
    let mut on = off;
    on.karorder = true;
    let names = |upto: usize| hist[..upto].iter().map(|&i| if i == sig.len() { "BS".to_string() } else { sig[i].0.clone() }).collect::<Vec<_>>();
    let case = |upto: usize| json!({"after_old_order": {"bits": bits, "prelude": prelude, "ending": ending, "keys": names(upto)}});
    let pf = |p: crate::driver::PanicInfo| Failure::new(panic_kind(&p), p.to_string(), case(hist.len()));
    if ctx.ongoing() {
        ctx.finish().map_err(pf)?;
    }
    ctx.update(on, sb).map_err(pf)?;
    let (ka, i_kar) = (sig[1].1, sig[5].1);
    let pre: &[(u16, u8)] = match prelude {
        0 => &[i_kar],
        1 => &[i_kar, ka],
        _ => &[i_kar, ka, i_kar],
    };
    let mut typed = 0;
    for (c, m) in pre {
        ctx.key(*c, *m, 0).map_err(pf)?;
        typed += 1;
    }
    match ending {
        0 if ctx.ongoing() => ctx.commit(0).map_err(pf)?,
        2 if ctx.ongoing() => {
            ctx.backspace(true).map_err(pf)?;
        }
        3 => {
            for _ in 0..(4 * typed + 2) {
                if !ctx.ongoing() {
                    break;
                }
                ctx.backspace(false).map_err(pf)?;
            }
        }
        _ => ctx.finish().map_err(pf)?,
    }
    // commit, finish and ctrl-backspace end the word by contract: the front-end is idle now and does not ask
    ctx.update(off, sb).map_err(pf)?;
    let mut prev = String::new();
    let mut rules = vec![];
    for (step, &k) in hist.iter().enumerate() {
        let r = if k == sig.len() { ctx.backspace(false) } else { ctx.key(sig[k].1 .0, sig[k].1 .1, 0) }.map_err(pf)?;
        let value = if k == sig.len() { None } else { Some(sig[k].0.as_str()) };
        match judge(&prev, value, &r.text, f) {
            Ok(rule) => rules.push(rule),
            Err(m) => return Err(Failure::new("composition-rule", format!("after a word typed under old vowel-sign order was ended and the option switched off: {m}"), case(step + 1))),
        }
        prev = r.text;
    }
    Ok(rules)
}

/// A word is typed under old vowel-sign order, ends (each of the four ways) with or without a sign still waiting for its
/// consonant; update-engine switches the order option off (idle); then EVERY two-key history over the class alphabet
/// (backspace included) is judged by the rules of the remaining options: nothing of the ended word may take part.
fn after_a_word_under_old_vowel_sign_order(run: &Run) {
    let sig = sigma();
    let nk = sig.len() + 1;
    let mut items = vec![];
    for bits in run.tier.pick(vec![0u32, 1, 2, 7, 8, 15], (0..16).collect()) {
        for prelude in 0..3u8 {
            for ending in 0..4u8 {
                items.push((bits, prelude, ending));
            }
        }
    }
    run.exhaustive("two-key-histories-after-a-word-under-old-vowel-sign-order", &items, |_| Sandbox::new(), |&(bits, prelude, ending), st, sb| {
        let (off, _) = fixed_opts(bits);
        let mut ctx = Ctx::new(off, sb).map_err(|p| Failure::new(panic_kind(&p), p.to_string(), json!({})))?;
        for code in 0..nk * nk {
            let hist = [code % nk, code / nk];
            let rules = after_old_order_case(&mut ctx, sb, bits, prelude, ending, &hist, &sig)?;
            st.evals(1);
            st.label("history-after-old-order-word");
            if prelude != 1 {
                st.nontrivial(hash_of(&(bits, prelude, ending, &rules)), || json!({"bits": bits, "prelude": prelude, "ending": ending, "keys": hist.iter().map(|&i| if i == sig.len() { "BS".to_string() } else { sig[i].0.clone() }).collect::<Vec<_>>()}));
            }
        }
        Ok(())
    });
}

pub fn run(run: &Run) {
    after_a_word_under_old_vowel_sign_order(run);
    full_layout_triples(run);
    exhaustive(run, run.tier.pick(4, 5));
    let cases = run.tier.pick(20000, 300000);
    for layout in [Layout::Synthetic, Layout::Probhat] {
        run.sharded(
            if layout == Layout::Synthetic { "random-long-synthetic" } else { "random-long-probhat" },
            16,
            cases,
            2000,
            || random_case(layout),
            |_| Sandbox::new(),
            |(bits, ks): &(u32, Vec<K>), st, sb| run_random(layout, *bits, ks, st, sb),
        );
    }
}

pub fn replay(_run: &Run, case: &Value) -> Result<(), Failure> {
    if let Some(a) = case.get("after_old_order") {
        let sig = sigma();
        let bits = a["bits"].as_u64().unwrap_or(0) as u32;
        let hist: Vec<usize> = a["keys"].as_array().map(|ks| ks.iter().map(|k| { let v = k.as_str().unwrap_or_default(); sig.iter().position(|(s, _)| s == v).unwrap_or(sig.len()) }).collect()).unwrap_or_default();
        let sb = Sandbox::new();
        let mut ctx = Ctx::new(fixed_opts(bits).0, &sb).map_err(|p| Failure::new(panic_kind(&p), p.to_string(), case.clone()))?;
        return after_old_order_case(&mut ctx, &sb, bits, a["prelude"].as_u64().unwrap_or(0) as u8, a["ending"].as_u64().unwrap_or(0) as u8, &hist, &sig).map(|_| ());
    }
    let opts = Opts::parse(case["opts"].as_str().unwrap_or_default());
    let f = FixedOpts { vowel: opts.vowel, chandra: opts.chandra, kar: opts.kar, reph: opts.reph };
    let sb = Sandbox::new();
    let ctx = Ctx::new(opts, &sb).map_err(|p| Failure::new(panic_kind(&p), p.to_string(), case.clone()))?;
    let lay = load_layout_json(opts.layout);
    let inv = layout_inverse(opts.layout);
    let mut prev = String::new();
    let mut steps: Vec<(Option<(u16, u8)>, Option<String>)> = vec![];
    if let Some(ks) = case["keys"].as_array() {
        for k in ks {
            let v = k.as_str().unwrap_or_default();
            if v == "BS" { steps.push((None, None)); } else { steps.push((inv.get(v).copied(), Some(v.to_string()))); }
        }
    } else if let Some(ks) = case["random_keys"].as_array() {
        for k in ks {
            let t = k.as_str().unwrap_or_default();
            if t == "BS" { steps.push((None, None)); continue; }
            let (n, m) = t.rsplit_once(':').unwrap_or((t, "0"));
            let m: u8 = m.parse().unwrap_or(0);
            let ki = keys().by_name(n);
            let v = ki.and_then(|ki| layout_value(&lay, ki, m & 2 != 0, true));
            steps.push((ki.map(|k| (k.code, m)), v));
        }
    }
    for (key, value) in steps {
        let r = match key {
            None if value.is_none() => ctx.backspace(false),
            Some((c, m)) => ctx.key(c, m, 0),
            None => continue,
        }
        .map_err(|p| Failure::new(panic_kind(&p), p.to_string(), case.clone()))?;
        let res = if key.is_some() && value.is_none() {
            if r.text == prev { Ok(Rule::Append) } else { Err("key without value changed the text".to_string()) }
        } else {
            judge(&prev, value.as_deref(), &r.text, f)
        };
        if let Err(m) = res {
            return Err(Failure::new("composition-rule", m, case.clone()));
        }
        prev = r.text;
    }
    Ok(())
}
