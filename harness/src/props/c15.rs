//! C15 — fixed-layout suggestions are prefix completions of what was typed.

use crate::driver::{keys, layout_inverse_opt, layout_value, load_layout_json, Ctx, Layout, Opts, Rendered, Sandbox};
use crate::model::{curl_close, curl_open, data, emoji, levenshtein, ref_split, ZWNJ};
use crate::props::c01::panic_kind;
use crate::runner::{hash_of, with_fresh_retry, Failure, Run, Stats};
use proptest::prelude::*;
use serde_json::{json, Value};
use std::collections::HashMap;

pub const LEVEL: &str = "exploration";
pub const EXHAUSTIVE: bool = false;
pub const RULE: &str = "dictionary-driven: words of dictionary.json mapped to Probhat key sequences through the inverse of the layout file (one key per code point; words the layout cannot type are counted and skipped), typed key by key with EVERY prefix judged; quick: every 13th word (offset by seed), thorough: ALL words (data-exhaustive); option setting per word chosen by hash over {traditional joining, smart quote, English, ANSI}; plus generated cases with 0..2 leading / trailing punctuation characters incl. quotes and with delete-and-retype steps. Oracle per returned list: candidate 0 == composed text with the wrapping quotes curled; every other candidate that is neither a table emoji (Bengali name of the word part, or emoticon of the raw key text) nor the final raw-key item must, after un-wrapping and dropping ZWNJ, be a member of dictionary.json and start with the typed word stripped of punctuation and ZWNJ; own Levenshtein distance to the typed word non-decreasing over those candidates in list order; at most 9 candidates; no text twice; English on, ANSI off and no backspace used => last candidate == the ASCII characters of the value-bearing keys pressed (own model) unless that equals the composed text. Non-trivial: the list has >= 3 dictionary completions; distinct by (options, composed text). Generated words also carry backspace bursts (1..5 backspaces after a key, typing then goes on), and a directed part types quote(s) + consonant + every sign + 1..4 backspaces + one more key under all 16 option sets (a traditionally joined sign is two code points for one key).";
pub const ASSUMPTIONS: &[&str] = &[
    "dictionary JSON read independently; own Levenshtein over code points",
    "layout inverse derived from the layout file through the header-derived key table",
    "punctuation = ASCII punctuation and danda",
];

const N_OPT: usize = 16;

fn opts_of(i: usize) -> Opts {
    let mut o = Opts::parse("Pf");
    o.kar = i & 1 != 0;
    o.smart = i & 2 != 0;
    o.english = i & 4 != 0;
    o.ansi = i & 8 != 0;
    o.numpad = true;
    o
}

pub struct Local {
    _sb: Sandbox,
    ctxs: Vec<Ctx>,
    lay: HashMap<String, String>,
    inv: HashMap<String, (u16, u8)>,
}

pub fn mk_local() -> Local {
    let sb = Sandbox::new();
    // a context reaches its option set either at creation or - every odd one - by update-engine from the set with
    // ANSI flipped, with the SAME configuration object and only that setter called (a front-end keeps its object)
    let ctxs = (0..N_OPT)
        .map(|i| {
            if i % 2 == 1 {
                let mut c = Ctx::new(opts_of(i ^ 8), &sb).expect("context");
                c.update_with(opts_of(i), &sb, crate::driver::UpdateMode::KeepChanged).expect("update-engine");
                c
            } else {
                Ctx::new(opts_of(i), &sb).expect("context")
            }
        })
        .collect();
    Local { _sb: sb, ctxs, lay: load_layout_json(Layout::Probhat), inv: layout_inverse_opt(Layout::Probhat, true) }
}

fn strip(s: &str) -> String {
    s.chars().filter(|c| !(c.is_ascii_punctuation() || *c == '\u{0964}' || *c == ZWNJ)).collect()
}

/// Judge one list.  `raw` = ASCII of the value-bearing keys; `used_backspace` for the English clause.
pub fn judge(opts: &Opts, r: &Rendered, raw: &str, used_backspace: bool, st: &mut Stats, case: &dyn Fn() -> Value) -> Result<(), Failure> {
    if r.lonely {
        return Err(Failure::new("not-list", format!("single string {:?} with suggestions on", r.text), case()));
    }
    let buffer = &r.text;
    let cands = &r.cands;
    let fail = |kind: &str, msg: String| Failure::new(kind, format!("composed {buffer:?} ({}): {msg}; list {cands:?}", opts.letters()), case());
    let (pre, word, trail) = ref_split(buffer, true);
    let (p, t) = if opts.smart && !word.is_empty() { (curl_open(&pre), curl_close(&trail)) } else { (pre.clone(), trail.clone()) };
    let first = format!("{p}{word}{t}");
    if cands.first() != Some(&first) {
        return Err(fail("first-not-composed-text", format!("candidate 0 must be {first:?}")));
    }
    if cands.len() > 9 {
        return Err(fail("more-than-nine", format!("{} candidates", cands.len())));
    }
    for i in 0..cands.len() {
        for j in i + 1..cands.len() {
            if cands[i] == cands[j] {
                return Err(fail("repeated-candidate", format!("{:?} at {i} and {j}", cands[i])));
            }
        }
    }
    let e = emoji();
    let mut allowed_emoji: Vec<String> = vec![];
    if !opts.ansi {
        if let Some(em) = e.emoticon_map.get(raw) {
            allowed_emoji.push(em.clone());
        } else if let Some(list) = e.bn_map.get(&word) {
            allowed_emoji.extend(list.iter().map(|x| format!("{p}{x}{t}")));
        }
    }
    let english_expected = opts.english && !opts.ansi && raw != buffer;
    if english_expected && !used_backspace && cands.last().map(|c| c.as_str()) != Some(raw) {
        return Err(fail("raw-key-text-not-last", format!("English on: the last candidate must be the raw key text {raw:?}")));
    }
    let typed_stripped = strip(&word);
    let mut prev = 0usize;
    let mut completions = 0;
    for (i, c) in cands.iter().enumerate().skip(1) {
        if allowed_emoji.contains(c) {
            continue;
        }
        if used_backspace && !c.chars().any(crate::model::is_bengali_block) && !c.is_ascii() {
            // an emoji whose source is the raw key text; after a backspace the raw key text is not specified
            continue;
        }
        if i == cands.len() - 1 && opts.english && !opts.ansi && (c == raw || used_backspace) && !c.chars().any(crate::model::is_bengali_block) {
            continue; // the raw key item (after a backspace its exact text is not specified)
        }
        let core = if c.len() >= p.len() + t.len() && c.starts_with(&p) && c.ends_with(&t) { &c[p.len()..c.len() - t.len()] } else { c.as_str() };
        let clean: String = core.chars().filter(|ch| *ch != ZWNJ).collect();
        if !data().dict_nozwnj.contains(&clean) {
            return Err(fail("not-a-dictionary-word", format!("candidate {i} {c:?} is not in dictionary.json")));
        }
        if !clean.starts_with(&typed_stripped) {
            return Err(fail("not-a-completion", format!("candidate {i} {c:?} does not begin with the typed word {typed_stripped:?}")));
        }
        let d = levenshtein(&word, core);
        if d < prev {
            return Err(fail("distance-order", format!("candidate {i} {c:?} has distance {d} after a candidate with distance {prev}")));
        }
        prev = d;
        completions += 1;
    }
    if completions >= 3 {
        st.nontrivial(hash_of(&(opts.letters(), buffer)), || json!({"opts": opts.letters(), "composed": buffer, "list": cands}));
    }
    if !allowed_emoji.is_empty() {
        st.label("emoji-source-present");
    }
    Ok(())
}

#[derive(Clone, Debug)]
pub struct Case {
    pub optidx: usize,
    pub lead: String,
    pub word: String,
    pub trail: String,
    /// after which character positions a delete-and-retype happens
    pub retype: Vec<u8>,
    /// (position, n): after the key at that position, n plain backspaces; typing then simply goes on
    pub burst: Vec<(u8, u8)>,
}

fn case_json(c: &Case) -> Value {
    json!({"optidx": c.optidx, "lead": c.lead, "word": c.word, "trail": c.trail, "retype": c.retype, "burst": c.burst})
}

/// value string -> key for punctuation / Bengali characters
fn key_for(lo: &Local, ch: char) -> Option<(u16, u8)> {
    lo.inv.get(&ch.to_string()).copied()
}

fn check(c: &Case, lo: &mut Local, st: &mut Stats) -> Result<(), Failure> {
    let ctx = &lo.ctxs[c.optidx % N_OPT];
    let case = || case_json(c);
    let pf = |p: crate::driver::PanicInfo| Failure::new(panic_kind(&p), p.to_string(), case());
    let text = format!("{}{}{}", c.lead, c.word, c.trail);
    let ks: Option<Vec<(u16, u8)>> = text.chars().map(|ch| key_for(lo, ch)).collect();
    let ks = match ks {
        Some(k) => k,
        None => {
            st.skip("word-not-typeable-through-layout");
            return Ok(());
        }
    };
    if ks.iter().any(|(code, _)| keys().by_code(*code).map(|k| k.numpad).unwrap_or(false)) {
        st.label("word-needs-a-number-pad-key");
    }
    ctx.finish().map_err(pf)?;
    let mut raw = String::new();
    let mut used_bs = false;
    for (i, (code, m)) in ks.iter().enumerate() {
        let ki = keys().by_code(*code).unwrap();
        if layout_value(&lo.lay, ki, m & 2 != 0, true).is_some() {
            if let Some(a) = ki.ascii {
                raw.push(a);
            }
        }
        let r = ctx.key(*code, *m, 0).map_err(pf)?;
        st.evals(1);
        judge(&ctx.opts, &r, &raw, used_bs, st, &case)?;
        if c.retype.contains(&(i as u8)) && i > 0 {
            let b = ctx.backspace(false).map_err(pf)?;
            used_bs = true;
            raw.pop();
            if !b.is_empty() {
                judge(&ctx.opts, &b, &raw, used_bs, st, &case)?;
            }
            if let Some(a) = ki.ascii {
                raw.push(a);
            }
            let r2 = ctx.key(*code, *m, 0).map_err(pf)?;
            judge(&ctx.opts, &r2, &raw, used_bs, st, &case)?;
            st.label("with-backspace");
        }
        for (_, n) in c.burst.iter().filter(|(pos, _)| *pos as usize == i) {
            for _ in 0..*n {
                let b = ctx.backspace(false).map_err(pf)?;
                raw.pop();
                used_bs = true;
                if b.is_empty() {
                    if !ctx.ongoing() {
                        // the word is gone: the next key starts a new one ("no backspace was used" holds again)
                        raw.clear();
                        used_bs = false;
                    }
                    break;
                }
                judge(&ctx.opts, &b, &raw, used_bs, st, &case)?;
            }
            st.label("with-backspace-burst");
        }
    }
    ctx.finish().map_err(pf)?;
    Ok(())
}

/// Raw ASCII keys (not a Bengali text mapped back through the layout): what the keys compose is up to the layout; every
/// list on the way is judged.  Used for the emoticon table, whose entries are looked up on the RAW key text.
fn check_raw(optidx: usize, ascii: &str, lo: &mut Local, st: &mut Stats) -> Result<(), Failure> {
    let ctx = &lo.ctxs[optidx % N_OPT];
    let case = || json!({"optidx": optidx, "raw_keys": ascii});
    let pf = |p: crate::driver::PanicInfo| Failure::new(panic_kind(&p), p.to_string(), case());
    ctx.finish().map_err(pf)?;
    let mut raw = String::new();
    for ch in ascii.chars() {
        if !keys().has_char(ch) {
            ctx.finish().map_err(pf)?;
            return Ok(());
        }
        let code = keys().code_for(ch);
        let ki = keys().by_code(code).unwrap();
        if layout_value(&lo.lay, ki, false, true).is_some() {
            raw.push(ch);
        }
        let r = ctx.key(code, 0, 0).map_err(pf)?;
        st.evals(1);
        if r.is_empty() {
            continue;
        }
        judge(&ctx.opts, &r, &raw, false, st, &case)?;
    }
    ctx.finish().map_err(pf)?;
    Ok(())
}

fn checked(c: &Case, lo: &mut Local, st: &mut Stats) -> Result<(), Failure> {
    with_fresh_retry(lo, mk_local, |l, s| check(c, l, s), st)
}

pub fn strategy() -> impl Strategy<Value = Case> {
    let words: Vec<String> = data().all_words.iter().step_by(17).cloned().collect();
    let emoji_names: Vec<String> = emoji().bn_names.iter().map(|(k, _)| k.clone()).collect();
    let punct: Vec<char> = "'\"()[]{}!?;:,-".chars().collect();
    let wrap = || proptest::collection::vec(proptest::sample::select(punct.clone()), 0..3).prop_map(|v| v.into_iter().collect::<String>());
    (
        0usize..N_OPT,
        wrap(),
        prop_oneof![4 => proptest::sample::select(words), 1 => proptest::sample::select(emoji_names)],
        wrap(),
        proptest::collection::vec(0u8..12, 0..2),
        proptest::collection::vec((0u8..10, 1u8..6), 0..2),
    )
        .prop_map(|(optidx, lead, word, trail, retype, burst)| Case { optidx, lead, word, trail, retype, burst })
}

pub fn run(run: &Run) {
    let all = &data().all_words;
    let step = run.tier.pick(13usize, 1usize);
    let offset = (run.seed as usize) % step;
    let items: Vec<usize> = (offset..all.len()).step_by(step).collect();
    run.exhaustive(
        "dictionary-words-every-prefix",
        &items,
        |_| mk_local(),
        |&wi, st, lo| {
            let w = &all[wi];
            let c = Case { optidx: hash_of(w) as usize % N_OPT, lead: String::new(), word: w.clone(), trail: String::new(), retype: vec![], burst: vec![] };
            checked(&c, lo, st)
        },
    );
    run.sharded("wrapped-and-edited", 16, run.tier.pick(500, 12000), 500, strategy, |_| mk_local(), |c: &Case, st, lo| checked(c, lo, st));
    // dictionary entries with an inner ASCII period (typed with the number-pad decimal key) are always included
    let dotted: Vec<usize> = all.iter().enumerate().filter(|(_, w)| w.contains('.')).map(|(i, _)| i).collect();
    run.exhaustive(
        "dictionary-words-with-number-pad-characters",
        &dotted,
        |_| mk_local(),
        |&wi, st, lo| {
            for optidx in 0..N_OPT {
                st.evals(1);
                let c = Case { optidx, lead: String::new(), word: all[wi].clone(), trail: String::new(), retype: vec![], burst: vec![] };
                checked(&c, lo, st)?;
            }
            Ok(())
        },
    );
    // dictionary entries that occur more than once (the data corner of the "none repeats" clause) are always typed
    let mut seen = std::collections::HashSet::new();
    let dups: Vec<usize> = all.iter().enumerate().filter(|(_, w)| !seen.insert(w.as_str())).map(|(i, _)| i).collect();
    run.exhaustive(
        "dictionary-words-listed-twice",
        &dups,
        |_| mk_local(),
        |&wi, st, lo| {
            for optidx in 0..N_OPT {
                st.evals(1);
                let c = Case { optidx, lead: String::new(), word: all[wi].clone(), trail: String::new(), retype: vec![], burst: vec![] };
                checked(&c, lo, st)?;
                let c = Case { optidx, lead: "\"".to_string(), word: all[wi].clone(), trail: "\"".to_string(), retype: vec![], burst: vec![] };
                checked(&c, lo, st)?;
            }
            st.label("duplicated-dictionary-entries-typed");
            Ok(())
        },
    );
    // erase-and-continue around the wrapper: quote(s) + consonant + every sign (a traditionally joined sign is two code
    // points for one key) + 1..4 backspaces + one more key, under all 16 option sets
    let signs: Vec<String> = ["\u{09BE}", "\u{09BF}", "\u{09C0}", "\u{09C1}", "\u{09C2}", "\u{09C3}", "\u{09C7}", "\u{09C8}", "\u{09CB}", "\u{09CC}", "\u{0981}", "\u{09CD}\u{0995}",
        // more keys than code points: hasanta + sign makes ONE independent vowel, hasanta + length mark makes AU - when such a word
        // is erased completely, nothing of its raw key text may be left for the next word
        "\u{09CD}\u{09BF}", "\u{09CD}\u{09BE}", "\u{09CD}\u{09D7}"].iter().map(|s| s.to_string()).collect();
    let mut eitems: Vec<Case> = vec![];
    for lead in ["", "\"", "'", "(", "\"'"] {
        for c1 in ["\u{0995}", "\u{09B0}", "\u{09B8}"] {
            for sg in &signs {
                for n in 1u8..=4 {
                    for next in ["\u{0995}", "\"", "\u{09BE}"] {
                        for optidx in 0..N_OPT {
                            let pos = (lead.chars().count() + sg.chars().count()) as u8;
                            eitems.push(Case { optidx, lead: lead.to_string(), word: format!("{c1}{sg}{next}"), trail: String::new(), retype: vec![], burst: vec![(pos, n)] });
                        }
                    }
                }
            }
        }
    }
    // every emoticon of the table as raw keys (the table is looked up on the raw key text) x all 16 option sets: the composed
    // text - with its quotes curled - stays the first candidate whatever else the raw text means
    let emoticons: Vec<String> = emoji().emoticons.iter().map(|(k, _)| k.clone()).collect();
    run.exhaustive(
        "emoticon-table-as-raw-keys",
        &emoticons,
        |_| mk_local(),
        |e, st, lo| {
            for optidx in 0..N_OPT {
                with_fresh_retry(lo, mk_local, |l, s| check_raw(optidx, e, l, s), st)?;
            }
            st.label("emoticons-typed-as-raw-keys");
            Ok(())
        },
    );
    // joiners typed by the user are part of the typed word: consonant + ra + the ZWJ key + hasanta + ya (the way to write
    // ra + ya-phala by hand), also with ZWNJ, under all 16 option sets - a completion has to begin with what was typed
    let mut jitems: Vec<Case> = vec![];
    for first in "\u{0995}\u{0996}\u{0997}\u{099A}\u{099C}\u{09A4}\u{09A6}\u{09A8}\u{09AA}\u{09AC}\u{09AE}\u{09B8}\u{09B9}\u{09B6}".chars() {
        for mid in ["\u{09B0}\u{200D}\u{09CD}\u{09AF}", "\u{09B0}\u{200C}\u{09CD}\u{09AF}", "\u{200D}\u{09B0}\u{09CD}\u{09AF}", "\u{09B0}\u{09CD}\u{200D}\u{09AF}"] {
            for optidx in 0..N_OPT {
                jitems.push(Case { optidx, lead: String::new(), word: format!("{first}{mid}\u{09BE}"), trail: String::new(), retype: vec![], burst: vec![] });
            }
        }
    }
    run.exhaustive("joiners-typed-by-hand-inside-the-word", &jitems, |_| mk_local(), |c, st, lo| checked(c, lo, st));
    // old vowel-sign order with the list and English on: a left-standing sign key pressed after a letter leaves the composed
    // text as it is and waits - the list returned for THAT key is a list like any other (raw key text last, composed text
    // first); then the consonant it was waiting for
    let oitems: Vec<(char, char, usize)> = "kvhmnA".chars().flat_map(|a| "i[{".chars().flat_map(move |s| (0..4usize).map(move |o| (a, s, o)))).collect();
    run.exhaustive(
        "old-vowel-sign-order-with-english-every-key-judged",
        &oitems,
        |_| Sandbox::new(),
        |&(a, sign, oi), st, sb| {
            let mut opts = Opts::parse("Pfeon");
            opts.smart = oi & 1 != 0;
            opts.kar = oi & 2 != 0;
            let case = || json!({"old_order_english": {"first": a.to_string(), "sign": sign.to_string(), "optset": oi}});
            let pf = |p: crate::driver::PanicInfo| Failure::new(panic_kind(&p), p.to_string(), case());
            let ctx = Ctx::new(opts, sb).map_err(pf)?;
            let mut raw = String::new();
            for ch in [a, sign, 'k', 'a'] {
                raw.push(ch);
                let r = ctx.ch(ch, 0).map_err(pf)?;
                st.evals(1);
                if r.is_empty() {
                    continue;
                }
                judge(&opts, &r, &raw, false, st, &case)?;
            }
            st.label("old-vowel-sign-order-with-english");
            Ok(())
        },
    );
    run.exhaustive("erase-and-continue-behind-a-wrapper", &eitems, |_| mk_local(), |c, st, lo| checked(c, lo, st));
    run.require_label("with-backspace-burst", 1000);
    run.require_label("word-needs-a-number-pad-key", 1);
    run.require_label("emoji-source-present", 10);
    run.require_label("with-backspace", 20);
}

pub fn replay(_run: &Run, case: &Value) -> Result<(), Failure> {
    if let Some(r) = case["raw_keys"].as_str() {
        return check_raw(case["optidx"].as_u64().unwrap_or(0) as usize, r, &mut mk_local(), &mut Stats::new());
    }
    let s = |k: &str| case[k].as_str().unwrap_or_default().to_string();
    let c = Case { optidx: case["optidx"].as_u64().unwrap_or(0) as usize, lead: s("lead"), word: s("word"), trail: s("trail"), retype: serde_json::from_value(case["retype"].clone()).unwrap_or_default(), burst: serde_json::from_value(case["burst"].clone()).unwrap_or_default() };
    check(&c, &mut mk_local(), &mut Stats::new())
}
