//! C19 — the C interface hands out valid, independently owned, leak-free objects.
//!
//! The deciding runs happen in the libFuzzer + ASan/LSan build of /verif/fuzz (target `ffi`), whose
//! in-target oracle compares every returned string with the Rust API and re-reads suggestions after
//! later calls / after their context is freed.  This module generates structured call sequences,
//! encodes them in the target's byte code and has the sanitizer binary execute them.

use crate::driver::{keys, scratch_root};
use crate::fuzz::{self, ffi_bin};
use crate::runner::{hash_of, Failure, Run, Tier};
use proptest::prelude::*;
use proptest::strategy::ValueTree;
use proptest::test_runner::{Config, RngSeed, TestRunner};
use serde_json::{json, Value};
use std::path::{Path, PathBuf};

pub const LEVEL: &str = "exploration";
pub const EXHAUSTIVE: bool = false;
pub const RULE: &str = "generated: structured call sequences (proptest) of 5..60 ops over all 33 exported functions - up to 3 configs built through every setter incl. valid and invalid layout / data paths, up to 3 contexts, up to 16 live suggestions and 32 live strings; ops: key (any published code, modifier, selection), backspace, commit(i<len), finish, update-engine while idle, ongoing, complete read-out of a suggestion through every getter, re-read of an older suggestion, string_free / string_free(NULL) / suggestion_free / context_free / config_free in any order - encoded in the target's byte code and executed once each by the AddressSanitizer + LeakSanitizer build (1 sequence in 16 may load the bundled dictionary in some of its configs); thorough adds a coverage-guided libFuzzer campaign (16 jobs) from that corpus. Oracle (in-target): ASan / LSan reports, every returned char* is NUL-terminated valid UTF-8 equal to what the Rust API reports for the same object and index, a suggestion's strings are unchanged when re-read after later calls on its context and after the context is freed, string_free(NULL) is a no-op. Non-trivial: the sequence leaves >= 1 suggestion to be re-read after its context was freed, or re-reads an older suggestion after a later call; distinct by byte code. The byte code has a burst op (the same key 2..97 times, every suggestion on the way read out completely and freed, the last one kept) so that candidates and pre-edit texts of several hundred bytes occur. A unit that exceeds the per-unit time limit in the run and again alone, with nothing else reported, makes the run inconclusive (exit 2), never a violation.";
pub const ASSUMPTIONS: &[&str] = &[
    "AddressSanitizer / LeakSanitizer detect invalid accesses and leaks; a Rust panic inside an extern \"C\" function aborts and is reported by libFuzzer",
    "the decoder never violates the caller's contract (double free, dangling handle, index >= length)",
    "the AltGr+d key (U+09C4) is never pressed: its ANSI read-out is the known finding of C02/C16",
    "counts of the coverage-guided campaign are approximate (libFuzzer's -seed pins it only approximately)",
];

#[derive(Clone, Debug)]
pub enum Op {
    NewConfig([u8; 4]),
    NewContext(u8),
    Key(u8, u8, u8, u8),
    /// (context, key, modifier, n): the same key pressed (n % 96) + 2 times
    KeyBurst(u8, u8, u8, u8),
    Backspace(u8, u8),
    Commit(u8, u8),
    Finish(u8),
    Update(u8, u8),
    Reread(u8),
    FreeSuggestion(u8),
    FreeString(u8),
    FreeNull,
    FreeContext(u8),
    Setter(u8, u8, u8),
    FreeConfig(u8),
}

pub fn encode(header: [u8; 4], ops: &[(u8, Op)]) -> Vec<u8> {
    let mut b = header.to_vec();
    for (hi, op) in ops {
        let h = hi & 0xf0;
        match op {
            Op::NewConfig(c) => {
                b.push(h);
                b.extend_from_slice(c);
            }
            Op::NewContext(a) => b.extend_from_slice(&[h | 1, *a]),
            Op::Key(x, k, m, s) => b.extend_from_slice(&[h | (2 + (hi % 2)), *x, *k, *m, *s]),
            Op::KeyBurst(x, k, m, n) => b.extend_from_slice(&[h | 4, *x, *k, *m, *n]),
            Op::Backspace(x, c) => b.extend_from_slice(&[h | 5, *x, *c]),
            Op::Commit(x, f) => b.extend_from_slice(&[h | 6, *x, *f]),
            Op::Finish(x) => b.extend_from_slice(&[h | 7, *x]),
            Op::Update(x, c) => b.extend_from_slice(&[h | 8, *x, *c]),
            Op::Reread(s) => b.extend_from_slice(&[h | 9, *s]),
            Op::FreeSuggestion(s) => b.extend_from_slice(&[h | 10, *s]),
            Op::FreeString(s) => b.extend_from_slice(&[h | 11, *s]),
            Op::FreeNull => b.push(h | 12),
            Op::FreeContext(x) => b.extend_from_slice(&[h | 13, *x]),
            Op::Setter(c, w, v) => b.extend_from_slice(&[h | 14, *c, *w, *v]),
            Op::FreeConfig(c) => b.extend_from_slice(&[h | 15, *c]),
        }
    }
    b
}

/// (suggestions created, re-reads after a later call, suggestions alive at the end)
pub fn simulate(ops: &[(u8, Op)]) -> (usize, usize, usize) {
    let (mut created, mut rereads, mut live) = (0usize, 0usize, 0usize);
    for (_, op) in ops.iter().take(64) {
        match op {
            Op::Key(..) | Op::KeyBurst(..) | Op::Backspace(..) => {
                created += 1;
                live += 1;
            }
            Op::Reread(_) if live > 0 => rereads += 1,
            Op::FreeSuggestion(_) if live > 0 => live -= 1,
            _ => {}
        }
        if live > 16 {
            live -= 1;
        }
    }
    (created, rereads, live)
}

fn config_bytes(with_data: bool) -> impl Strategy<Value = [u8; 4]> {
    // in "with data" sequences half of the configs name the bundled data directory, so that contexts
    // are also re-configured between a config with and one without it
    // the high bits of the last byte choose the optional user files of the run (0 = none; see the target)
    (any::<u8>(), 1u8..16, any::<u8>(), 0u8..8, any::<bool>(), prop_oneof![5 => Just(0u8), 1 => Just(1u8), 2 => Just(2u8), 1 => Just(3u8), 1 => Just(4u8), 1 => Just(5u8)])
        .prop_map(move |(l, d, lo, hi, pick, flavour)| [l, if with_data && pick { 0 } else { d }, lo, hi | (flavour << 3)])
}

pub fn sequence(with_data: bool) -> impl Strategy<Value = ([u8; 4], Vec<(u8, Op)>)> {
    let nk = keys().len();
    // letters are the first ~60 key codes after the digit / punctuation block: bias towards them
    let letter_idx: Vec<u8> = keys().keys.iter().enumerate().filter(|(_, k)| k.ascii.map(|c| c.is_ascii_lowercase()).unwrap_or(false)).map(|(i, _)| i as u8).collect();
    let key = prop_oneof![
        6 => proptest::sample::select(letter_idx),
        3 => (0..nk).prop_map(|i| i as u8),
    ];
    let modifier = prop_oneof![6 => Just(0u8), 2 => Just(2u8), 1 => any::<u8>()];
    let op = prop_oneof![
        45 => (any::<u8>(), key.clone(), modifier, prop_oneof![3 => Just(0u8), 1 => any::<u8>()]).prop_map(|(x, k, m, s)| Op::Key(x, k, m, s)),
        3 => (any::<u8>(), key.clone(), prop_oneof![4 => Just(0u8), 2 => Just(2u8)], any::<u8>()).prop_map(|(x, k, m, n)| Op::KeyBurst(x, k, m, n)),
        8 => (any::<u8>(), any::<u8>()).prop_map(|(x, c)| Op::Backspace(x, c)),
        8 => (any::<u8>(), any::<u8>()).prop_map(|(x, f)| Op::Commit(x, f)),
        4 => any::<u8>().prop_map(Op::Finish),
        4 => (any::<u8>(), any::<u8>()).prop_map(|(x, c)| Op::Update(x, c)),
        10 => any::<u8>().prop_map(Op::Reread),
        5 => any::<u8>().prop_map(Op::FreeSuggestion),
        4 => any::<u8>().prop_map(Op::FreeString),
        1 => Just(Op::FreeNull),
        3 => config_bytes(with_data).prop_map(Op::NewConfig),
        3 => any::<u8>().prop_map(Op::NewContext),
        2 => any::<u8>().prop_map(Op::FreeContext),
        2 => (any::<u8>(), any::<u8>(), any::<u8>()).prop_map(|(c, w, v)| Op::Setter(c, w, v)),
        1 => any::<u8>().prop_map(Op::FreeConfig),
    ];
    (config_bytes(with_data), proptest::collection::vec((any::<u8>(), op), 5..60))
}

fn minimise(artifact: &Path) -> PathBuf {
    // a time-limit report is not minimised: every attempt would take the whole limit again
    if artifact.file_name().map(|n| n.to_string_lossy().contains("-timeout-")).unwrap_or(false) {
        return artifact.to_path_buf();
    }
    let out = PathBuf::from(format!("{}.min", artifact.display()));
    let _ = std::process::Command::new(ffi_bin())
        .arg(artifact)
        .arg("-minimize_crash=1")
        .arg("-runs=400")
        .arg("-max_total_time=25")
        .arg("-timeout=60")
        .arg(format!("-exact_artifact_path={}", out.display()))
        .env("VERIF_FUZZ_XDG", scratch_root().join("fz-min"))
        .env("VERIF_FUZZ_DATA", "allow")
        .env("RUST_BACKTRACE", "0")
        .output();
    if out.exists() {
        out
    } else {
        artifact.to_path_buf()
    }
}

pub fn run(run: &Run) {
    if !Path::new(ffi_bin()).exists() {
        run.health.lock().unwrap().push(format!("{} is missing (fuzz build failed?)", ffi_bin()));
        return;
    }
    let n = run.tier.pick(3000usize, 24000usize);
    let root = scratch_root().join("c19");
    let _ = std::fs::remove_dir_all(&root);
    let ndirs = 16;
    let mut dirs: Vec<(PathBuf, bool)> = vec![];
    for i in 0..ndirs {
        let d = root.join(format!("gen{i}"));
        std::fs::create_dir_all(&d).unwrap();
        dirs.push((d, false));
    }
    let ddir = root.join("gen-with-data");
    std::fs::create_dir_all(&ddir).unwrap();
    let seeds = root.join("campaign").join("seeds");
    std::fs::create_dir_all(&seeds).unwrap();
    // generation (proptest as the generator; the executions happen in the sanitizer binary)
    let mut runner = TestRunner::new(Config { rng_seed: RngSeed::Fixed(run.seed ^ 0xC19), failure_persistence: None, ..Config::default() });
    let plain = sequence(false);
    let with_data = sequence(true);
    {
        let mut st = run.stats.lock().unwrap();
        for i in 0..n {
            let data = i % 16 == 15;
            let (h, ops) = if data { with_data.new_tree(&mut runner).unwrap().current() } else { plain.new_tree(&mut runner).unwrap().current() };
            let bytes = encode(h, &ops);
            let dir = if data { &ddir } else { &dirs[i % ndirs].0 };
            std::fs::write(dir.join(format!("s{i:06}")), &bytes).unwrap();
            if i % 8 == 0 {
                let _ = std::fs::write(seeds.join(format!("s{i:06}")), &bytes);
            }
            let (created, rereads, live) = simulate(&ops);
            st.eval();
            st.count("suggestions-created", created as u64);
            if data {
                st.label("sequence-with-bundled-dictionary");
            }
            if rereads > 0 {
                st.label("re-read-after-later-call");
            }
            if live > 0 {
                st.label("suggestions-outlive-their-context");
            }
            if (h[3] >> 3) & 7 == 2 {
                st.label("user-files-that-are-not-utf-8");
            }
            if ops.iter().take(64).any(|(_, o)| matches!(o, Op::KeyBurst(_, _, _, n) if (*n as usize % 96) + 2 >= 90)) {
                st.label("composition-of-90-or-more-keys");
            }
            if rereads > 0 || live > 0 {
                st.nontrivial(hash_of(&bytes), || json!({"config_bytes": h, "ops": ops.iter().take(24).map(|(_, o)| format!("{o:?}")).collect::<Vec<_>>(), "suggestions_created": created}));
            }
        }
    }
    // directed family: the strings the interface hands out also come from the user's files.  With the bundled data loaded
    // and each user-file flavour in turn, every key of the user's auto-correct list is typed alone and followed by suffix
    // keys (the joined forms are built from the user's values: empty, emoji, Bengali, escapes), every suggestion read out.
    let mut directed_dirs: Vec<(PathBuf, bool)> = vec![];
    {
        let key_idx = |c: char| keys().keys.iter().position(|k| k.ascii == Some(c)).unwrap_or(0) as u8;
        let sfx: Vec<&String> = crate::gen::pools().suffix_keys.iter().filter(|k| k.len() <= 4).step_by(9).take(24).collect();
        let mut words: Vec<String> = vec![];
        for uk in ["a", "k", "am"] {
            words.push(uk.to_string());
            for s in &sfx {
                words.push(format!("{uk}{s}"));
            }
        }
        let mut n_dir = 0usize;
        let mut st = run.stats.lock().unwrap();
        for flavour in [1u8, 3, 5] {
            for (oi, hi_bits) in [0u8, 2, 4].iter().enumerate() {
                // option word: phonetic list on (+ English in the second set); hi_bits = ANSI / smart quotes
                let header = [0u8, 0, 0b10 | (oi as u8 & 1), hi_bits | (flavour << 3)];
                for (ci, chunk) in words.chunks(7).enumerate() {
                    let mut ops: Vec<(u8, Op)> = vec![];
                    for w in chunk {
                        for c in w.chars() {
                            ops.push((0, Op::Key(0, key_idx(c), 0, 0)));
                        }
                        ops.push((0, Op::Finish(0)));
                    }
                    ops.truncate(62);
                    let d = root.join(format!("directed{}", n_dir % 6));
                    std::fs::create_dir_all(&d).unwrap();
                    std::fs::write(d.join(format!("u{flavour}-{oi}-{ci:03}")), encode(header, &ops)).unwrap();
                    n_dir += 1;
                    st.eval();
                    st.label("user-list-key-plus-suffix-sequences");
                }
            }
        }
        for j in 0..6 {
            directed_dirs.push((root.join(format!("directed{j}")), true));
        }
    }
    // directed family 2: ALL fixed-layout key histories of length 4 over a class-representative alphabet of the synthetic
    // layout (consonant, hasanta, ASCII mark, old-style reph key, left-standing sign, zo-fola, chandrabindu, backspace) under
    // four settings of {old reph, old vowel-sign order}: the composed text is rewritten in place by several helpers, and every
    // string handed out must still be valid UTF-8 equal to the Rust value.  Packed 15 histories to a file, no data needed.
    {
        let inv = crate::driver::layout_inverse(crate::driver::Layout::Synthetic);
        let key_of = |v: &str| -> (u8, u8) {
            let (code, m) = inv.get(v).copied().unwrap_or((0, 0));
            (keys().keys.iter().position(|k| k.code == code).unwrap_or(0) as u8, m)
        };
        let alphabet: Vec<Option<(u8, u8)>> = vec![Some(key_of("\u{0995}")), Some(key_of("\u{09CD}")), Some(key_of(",")), Some(key_of(crate::model::REPH)), Some(key_of("\u{09BF}")), Some(key_of(crate::model::ZOFOLA)), Some(key_of("\u{0981}")), None];
        let n = alphabet.len();
        let mut st = run.stats.lock().unwrap();
        let mut n_files = 0usize;
        for (si, bits) in [64u16, 64 | 256, 256, 64 | 8 | 32].iter().enumerate() {
            // header: synthetic layout (index 2 of the target's table), no data, option bits
            let header = [2u8, 5, (*bits & 0xff) as u8, (*bits >> 8) as u8];
            let mut ops: Vec<(u8, Op)> = vec![];
            for code in 0..n.pow(4) {
                let mut x = code;
                for _ in 0..4 {
                    match alphabet[x % n] {
                        Some((k, m)) => ops.push((0, Op::Key(0, k, m, 0))),
                        None => ops.push((0, Op::Backspace(0, 1))),
                    }
                    x /= n;
                }
                ops.push((0, Op::Finish(0)));
                if ops.len() + 5 > 62 || code + 1 == n.pow(4) {
                    let d = root.join(format!("directed{}", n_files % 6));
                    std::fs::create_dir_all(&d).unwrap();
                    std::fs::write(d.join(format!("f{si}-{n_files:05}")), encode(header, &ops)).unwrap();
                    n_files += 1;
                    ops.clear();
                    st.eval();
                }
            }
        }
        st.label("fixed-layout-histories-over-a-class-alphabet");
        st.count("fixed-layout-history-files", n_files as u64);
    }
    // committed seed / regression inputs
    let committed = Path::new("/verif/corpus/C19-ffi");
    let mut all_dirs = dirs.clone();
    all_dirs.extend(directed_dirs);
    all_dirs.push((ddir.clone(), true));
    if committed.is_dir() {
        all_dirs.push((committed.to_path_buf(), true));
    }
    let prefix_owned = format!("{}/replays/C19-", crate::runner::out_root());
    let prefix = prefix_owned.as_str();
    let _ = std::fs::create_dir_all(format!("{}/replays", crate::runner::out_root()));
    let before: std::collections::HashSet<PathBuf> = fuzz::run_dirs_once(ffi_bin(), &[], prefix, &root).artifacts.into_iter().collect();
    let out = fuzz::run_dirs_once(ffi_bin(), &all_dirs, prefix, &root);
    run.parts.lock().unwrap().push(json!({"part": "generated sequences executed once under ASan+LSan", "files": out.executed, "ok": out.ok}));
    let report = |out: &fuzz::Outcome, what: &str| {
        let new: Vec<PathBuf> = out.artifacts.iter().filter(|a| !before.contains(*a) && !a.to_string_lossy().ends_with(".min")).cloned().collect();
        {
            let mut st = run.stats.lock().unwrap();
            st.count("fuzz-slow-unit-notes-ignored", out.slow_units);
            st.count("fuzz-timeouts-under-load-not-reproduced", out.timeouts_not_reproduced);
        }
        if out.oom > 0 {
            run.health.lock().unwrap().push(format!("{what}: {} out-of-memory report(s) - inconclusive", out.oom));
        }
        // a unit that exceeded the time limit during the run AND again when run alone, with nothing else reported: the
        // machine is overloaded or the unit is slow - inconclusive (exit 2), never a violation
        let only_time_limits = !new.is_empty()
            && new.iter().all(|a| a.file_name().map(|n| n.to_string_lossy().contains("-timeout-")).unwrap_or(false))
            && (out.ok || out.report.lines().all(|l| l.trim().is_empty() || l.contains("timeout") || l.contains("ALARM")));
        if only_time_limits {
            run.health.lock().unwrap().push(format!("{what}: {} unit(s) exceeded the per-unit time limit twice (in the run and alone) - inconclusive: {:?}", new.len(), new));
        } else if !out.ok || !new.is_empty() {
            let art = new.first().map(|a| minimise(a));
            let mut f = Failure::new("sanitizer-or-oracle-report", format!("{what}: {}", out.report.lines().take(8).collect::<Vec<_>>().join(" | ")), json!({}));
            f.artifact = art.or_else(|| Some(PathBuf::from("/verif/replays/C19-no-artifact")));
            run.fail(f);
        }
    };
    report(&out, "a generated call sequence failed in the ASan/LSan build");
    if out.ok {
        // second pass over the same files with the quarantine off: freed blocks are re-used at once
        let out2 = fuzz::run_dirs_once_with(ffi_bin(), &all_dirs, prefix, &root, "quarantine_size_mb=0:thread_local_quarantine_size_kb=0");
        run.parts.lock().unwrap().push(json!({"part": "the same sequences again under ASan+LSan with the quarantine off (immediate re-use of freed addresses)", "files": out2.executed, "ok": out2.ok}));
        report(&out2, "a generated call sequence failed in the ASan/LSan build with the quarantine off");
    }
    if run.tier == Tier::Thorough && out.ok && !run.has_failures() {
        let camp = fuzz::campaign(ffi_bin(), &root.join("campaign"), 40000, 16, run.seed, 400, prefix, &root, false);
        run.parts.lock().unwrap().push(json!({"part": "coverage-guided libFuzzer campaign (16 jobs)", "runs_approximate": camp.executed, "ok": camp.ok}));
        run.stats.lock().unwrap().count("fuzz_runs_approximate", camp.executed);
        report(&camp, "the coverage-guided campaign found a failing call sequence");
    }
    let _ = std::fs::remove_dir_all(&root);
    run.require_label("re-read-after-later-call", 100);
    run.require_label("suggestions-outlive-their-context", 100);
    run.require_label("sequence-with-bundled-dictionary", 10);
    run.require_label("composition-of-90-or-more-keys", 30);
    run.require_label("user-files-that-are-not-utf-8", 100);
}

/// Replay of a saved fuzzer input (raw bytes).
pub fn replay_artifact(path: &Path) -> Result<(), Failure> {
    let (ok, rep) = fuzz::run_one(ffi_bin(), path, true);
    if ok {
        Ok(())
    } else {
        Err(Failure::new("sanitizer-or-oracle-report", rep, json!({})))
    }
}

pub fn replay(_run: &Run, case: &Value) -> Result<(), Failure> {
    // JSON replays carry the byte code
    let bytes: Vec<u8> = serde_json::from_value(case["bytes"].clone()).unwrap_or_default();
    let p = scratch_root().join("c19-replay-input");
    std::fs::write(&p, bytes).unwrap();
    replay_artifact(&p)
}
