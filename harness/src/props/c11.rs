//! C11 — re-configuring a live context is equivalent to creating a new one.

use crate::driver::{keys, Ctx, Opts, Rendered, Sandbox};
use crate::gen::pools;
use crate::props::c01::panic_kind;
use crate::runner::{hash_of, Failure, Run, Stats};
use proptest::prelude::*;
use serde::{Deserialize, Serialize};
use serde_json::{json, Value};
use std::collections::{BTreeMap, HashMap};
use std::time::{Duration, UNIX_EPOCH};

pub const LEVEL: &str = "exploration";
pub const EXHAUSTIVE: bool = false;
pub const RULE: &str = "generated case = (cfg1, cfg2) over phonetic<->Probhat, phonetic<->synthetic, Probhat<->synthetic and same layout with 1..11 option flips (same data directory); optional initial user auto-correct file; pre-history H1 of 0..5 words (typed, then finished or committed - also non-preselected, i.e. learned); user auto-correct edit in {none, create, change the value of a key typed in H1, add a key for a base of a word typed in H1, remove a key, delete the file} with the file's mtime forced forward; continuation H2 of 1..6 words that re-types words of H1 and new ones, with commits. Oracle (differential): context A = H1, edit, update-engine(cfg2), H2; context B = created with cfg2 over a COPY of the user directory taken at the update, H2; renderings and session flags equal after every key of H2. Non-trivial: the edit touches a word (or a base of a word) typed in H1 and in H2, or the layout changes, or the suggestion option flips; distinct by case. Plus an enumerated part: every SINGLE option flipped by update-engine (11 options x both directions via 6 base settings x 3 layouts), judged on a battery of probes that is sensitive to each option (quoted word, sign at the start, sign after chandrabindu, u-sign after a consonant, reph, left-standing sign first, dictionary prefix, number-pad keys, emoticon; phonetic: quoted words, emoticon, emoji name, learned word, suffix form). Layout pairs include Probhat <-> a different layout file with the same file NAME in another directory. Edit kinds include a same-length value (the file's size stays); plus a directed part: every entry of the four start documents x {same-length value, entry removed, value changed; file away-update-back untouched, file deleted} x English x commit/finish, words and suffixed forms typed before and after.";
pub const ASSUMPTIONS: &[&str] = &[
    "mtime is forced forward on every edit, so 'edited in the meantime' is unambiguous",
    "the bundled data directory is the same in cfg1 and cfg2",
    "a context created over a copy of the user directory is the reference",
];

const WORDS: &[&str] = &[
    "abc", "amar", "onno", "onnogulo", "abce", "smile", "coffee", "a", "\"ami\"", "(as)", "rwp", "h<qz", "kmpiu", "/i", "[k]a", "ik/k", "abcgulo", "academy", "academyr",
    "park", "parke", "ami", "sesh.", "kotha", "boi", "boier", "hvsi", "vmi", "cool", ":)", "k/Z", "A>a", "sesh", "onno", "a", "sesher", "o", "o.",
];

#[derive(Clone, Debug, Serialize, Deserialize, Hash)]
pub enum Pick {
    Word(u16),
    /// re-type the k-th word of H1
    Again(u8),
}

#[derive(Clone, Debug, Serialize, Deserialize, Hash)]
pub struct WordStep {
    pub pick: Pick,
    /// None = finish, Some(f) = commit index by fraction
    pub commit: Option<u16>,
}

#[derive(Clone, Debug, Serialize, Deserialize, Hash)]
pub enum Edit {
    None,
    Create(u8),
    ChangeValue(u8, u8),
    AddBaseKey(u8, u8),
    RemoveKey(u8),
    DeleteFile,
    /// the file is moved away, the context is told (update-engine, same configuration), and the file is put back
    /// untouched - same content, same modification time
    AwayAndBack,
    /// the value of one key is replaced by another of the same length: the file's size stays, content and time change
    SameLength(u8),
}

#[derive(Clone, Debug, Serialize, Deserialize, Hash)]
pub struct Case {
    pub cfg1: String,
    pub cfg2: String,
    pub ac0: Option<u8>,
    pub h1: Vec<WordStep>,
    pub edit: Edit,
    pub h2: Vec<WordStep>,
    /// a learned-selection store that exists before the context is created
    #[serde(default)]
    pub store0: bool,
    /// an earlier update-engine (to this configuration) followed by more words, before the edit
    #[serde(default)]
    pub mid: Option<(String, Vec<WordStep>)>,
    /// AFTER the edit the context is first told another configuration (cfg2 with one option the other way: the list,
    /// ANSI, English, or another layout) and only then cfg2: two update-engine calls with no edit in between
    #[serde(default)]
    pub via: Option<u8>,
}

const STORE0: &str = "{\"sesh\":\"\u{09B6}\u{09C7}\u{09B7}\",\"onno\":\"\u{0985}\u{09A8}\u{09CD}\u{09AF}\",\"a\":\"\u{0986}\u{0983}\",\"park\":\"\u{09AA}\u{09BE}\u{09B0}\u{0995}\",\"ami\":\"\u{0986}\u{09AE}\u{0987}\"}";

const VALUES: &[&str] = &["kkk", "ttt", "amader", "ekademi", "Onyo", "tOmar", "a"];

fn letters_of(w: &str) -> String {
    w.chars().filter(|c| c.is_ascii_alphabetic()).collect()
}

fn initial_doc(k: u8) -> BTreeMap<String, String> {
    let docs: [&[(&str, &str)]; 4] = [&[("abc", "kkk")], &[("abc", "ttt"), ("amar", "amader")], &[("academy", "ekademi")], &[("onno", "Onyo"), ("park", "pak")]];
    docs[k as usize % 4].iter().map(|(a, b)| (a.to_string(), b.to_string())).collect()
}

fn fail(kind: &str, msg: String, c: &Case) -> Failure {
    Failure::new(kind, msg, serde_json::to_value(c).unwrap())
}

fn word_of(p: &Pick, h1_words: &[String]) -> String {
    match p {
        Pick::Word(i) => {
            let n = WORDS.len() + 40;
            let i = *i as usize % n;
            if i < WORDS.len() {
                WORDS[i].to_string()
            } else {
                let ac = &pools().ac_keys;
                ac[(i * 7919) % ac.len()].clone()
            }
        }
        Pick::Again(k) => {
            if h1_words.is_empty() {
                "amar".to_string()
            } else {
                h1_words[*k as usize % h1_words.len()].clone()
            }
        }
    }
}

pub fn run_case(c: &Case, st: &mut Stats) -> Result<(), Failure> {
    let cfg1 = Opts::parse(&c.cfg1);
    let cfg2 = Opts::parse(&c.cfg2);
    let sb = Sandbox::new();
    let acp = sb.autocorrect_file();
    let mut clock: u64 = 1_000_000;
    // every fifth document (by its content) is written the way some editors write UTF-8: with a byte order mark in
    // front.  Whether the engine can read such a file or not, it must decide the same way at creation and at reload.
    let write_ac = |doc: &BTreeMap<String, String>, clock: &mut u64| {
        let text = serde_json::to_string(doc).unwrap();
        let bytes: Vec<u8> = if hash_of(&text) % 5 == 0 { [&[0xEF, 0xBB, 0xBF][..], text.as_bytes()].concat() } else { text.into_bytes() };
        std::fs::write(&acp, bytes).expect("write autocorrect");
        *clock += 10;
        let f = std::fs::File::options().write(true).open(&acp).expect("open autocorrect");
        f.set_modified(UNIX_EPOCH + Duration::from_secs(*clock)).expect("set mtime");
    };
    let mut doc: Option<BTreeMap<String, String>> = c.ac0.map(initial_doc);
    if let Some(d) = &doc {
        write_ac(d, &mut clock);
    }
    let pf = |p: crate::driver::PanicInfo| fail(&panic_kind(&p), p.to_string(), c);
    if c.store0 {
        std::fs::write(sb.selection_file(), STORE0).expect("store");
        st.label("store-exists-before-creation");
    }
    let mut a = Ctx::new(cfg1, &sb).map_err(pf)?;
    // H1 (and, optionally, an earlier update-engine with more words)
    let mut h1_words: Vec<String> = vec![];
    let mid_steps: Vec<(Option<Opts>, &WordStep)> = c.h1.iter().map(|s| (None, s)).chain(c.mid.iter().flat_map(|(cfg, steps)| {
        let o = Opts::parse(cfg);
        steps.iter().enumerate().map(move |(i, s)| (if i == 0 { Some(o) } else { None }, s))
    })).collect();
    if c.mid.is_some() {
        st.label("two-updates");
    }
    for (switch, s) in mid_steps {
        if let Some(o) = switch {
            if a.ongoing() {
                a.finish().map_err(pf)?;
            }
            a.update(o, &sb).map_err(pf)?;
        }
        let w = word_of(&s.pick, &h1_words);
        if !w.chars().all(|ch| keys().has_char(ch)) {
            continue;
        }
        let r = a.type_frontend(&w).map_err(pf)?;
        h1_words.push(w);
        match (s.commit, r) {
            (Some(f), Some(r)) if r.choices() > 0 => a.commit(((f as usize) * r.choices()) >> 16).map_err(pf)?,
            _ => a.finish().map_err(pf)?,
        }
    }
    // edit
    let mut touched: Vec<String> = vec![];
    let pick_h1 = |k: u8| -> Option<String> {
        let ws: Vec<String> = h1_words.iter().map(|w| letters_of(w)).filter(|w| !w.is_empty()).collect();
        if ws.is_empty() { None } else { Some(ws[k as usize % ws.len()].clone()) }
    };
    match &c.edit {
        Edit::None => {}
        Edit::Create(k) => {
            let d = initial_doc(*k);
            touched.extend(d.keys().cloned());
            write_ac(&d, &mut clock);
            doc = Some(d);
        }
        Edit::ChangeValue(k, v) => {
            if let Some(w) = pick_h1(*k) {
                let mut d = doc.clone().unwrap_or_default();
                // sometimes the key is written with punctuation around the word ("dr."): read at creation or re-read
                // by update-engine, the engine must make the same of it
                let key = match *v / 7 % 5 {
                    3 => format!("{w}."),
                    4 => format!("\"{w}\""),
                    _ => w.clone(),
                };
                d.insert(key, VALUES[*v as usize % VALUES.len()].to_string());
                touched.push(w);
                write_ac(&d, &mut clock);
                doc = Some(d);
            }
        }
        Edit::AddBaseKey(k, v) => {
            if let Some(w) = pick_h1(*k) {
                let n = w.len();
                let base: String = w.chars().take((n + 1) / 2).collect();
                let mut d = doc.clone().unwrap_or_default();
                d.insert(base.clone(), VALUES[*v as usize % VALUES.len()].to_string());
                touched.push(base);
                write_ac(&d, &mut clock);
                doc = Some(d);
            }
        }
        Edit::RemoveKey(k) => {
            if let Some(mut d) = doc.clone() {
                if !d.is_empty() {
                    let key = d.keys().nth(*k as usize % d.len()).cloned().unwrap();
                    d.remove(&key);
                    touched.push(key);
                    write_ac(&d, &mut clock);
                    doc = Some(d);
                }
            }
        }
        Edit::DeleteFile => {
            if let Some(d) = &doc {
                touched.extend(d.keys().cloned());
            }
            let _ = std::fs::remove_file(&acp);
            doc = None;
        }
        Edit::SameLength(k) => {
            if let (Some(mut d), Ok(old_bytes)) = (doc.clone(), std::fs::read(&acp)) {
                if !d.is_empty() {
                    let key = d.keys().nth(*k as usize % d.len()).cloned().unwrap();
                    let mut cs: Vec<char> = d[&key].chars().collect();
                    if let Some(l) = cs.last_mut() {
                        *l = if *l == 'k' { 't' } else { 'k' };
                    }
                    d.insert(key.clone(), cs.into_iter().collect());
                    touched.push(key);
                    let text = serde_json::to_string(&d).unwrap();
                    let bytes: Vec<u8> = if old_bytes.starts_with(&[0xEF, 0xBB, 0xBF]) { [&[0xEF, 0xBB, 0xBF][..], text.as_bytes()].concat() } else { text.into_bytes() };
                    if bytes.len() == old_bytes.len() && bytes != old_bytes {
                        st.label("edit-keeps-the-file-size");
                    }
                    std::fs::write(&acp, bytes).expect("write autocorrect");
                    clock += 10;
                    std::fs::File::options().write(true).open(&acp).expect("open autocorrect").set_modified(UNIX_EPOCH + Duration::from_secs(clock)).expect("set mtime");
                    doc = Some(d);
                }
            }
        }
        Edit::AwayAndBack => {
            if let (Some(d), Ok(bytes), Ok(m)) = (&doc, std::fs::read(&acp), std::fs::metadata(&acp).and_then(|m| m.modified())) {
                touched.extend(d.keys().cloned());
                std::fs::remove_file(&acp).expect("move away");
                if a.ongoing() {
                    a.finish().map_err(pf)?;
                }
                let cur = a.opts;
                a.update(cur, &sb).map_err(pf)?;
                std::fs::write(&acp, bytes).expect("put back");
                std::fs::File::options().write(true).open(&acp).expect("open").set_modified(m).expect("mtime");
                st.label("file-away-update-and-back-untouched");
            }
        }
    }
    let _ = &doc;
    // update A, create B over a copy
    if a.ongoing() {
        a.finish().map_err(pf)?;
    }
    if let Some(v) = c.via {
        let mut o = cfg2;
        match v % 5 {
            0 | 1 => {
                o.psug = !o.psug;
                o.fsug = !o.fsug;
            }
            2 => o.ansi = !o.ansi,
            3 => o.english = !o.english,
            _ => o.layout = if o.is_phonetic() { crate::driver::Layout::Probhat } else { crate::driver::Layout::Phonetic },
        }
        a.update(o, &sb).map_err(pf)?;
        if v % 2 == 0 {
            if let Some(w) = h1_words.first() {
                a.type_frontend(w).map_err(pf)?;
                a.finish().map_err(pf)?;
            }
        }
        st.label("two-updates-after-the-edit");
    }
    a.update(cfg2, &sb).map_err(pf)?;
    let copy = sb.duplicate();
    let b = Ctx::new(cfg2, &copy).map_err(pf)?;
    // H2
    let mut edit_relevant = false;
    for s in &c.h2 {
        let w = word_of(&s.pick, &h1_words);
        if !w.chars().all(|ch| keys().has_char(ch)) {
            continue;
        }
        let lw = letters_of(&w);
        if touched.iter().any(|t| lw.starts_with(t.as_str())) && h1_words.iter().any(|h| letters_of(h).starts_with(&lw) || lw.starts_with(&letters_of(h))) {
            edit_relevant = true;
        }
        let mut sel = 0u8;
        let mut last: Option<Rendered> = None;
        for ch in w.chars() {
            let ra = a.ch(ch, sel).map_err(pf)?;
            let rb = b.ch(ch, sel).map_err(pf)?;
            if ra != rb {
                let kind = match &c.edit {
                    Edit::None => "updated-context-differs-from-new",
                    Edit::DeleteFile => "stale-after-autocorrect-file-removed",
                    _ => "stale-after-autocorrect-edit",
                };
                return Err(fail(
                    kind,
                    format!("H2 word {w:?} at {ch:?} ({} -> {}): updated context returns {} but a newly created context returns {}", c.cfg1, c.cfg2, ra.short(), rb.short()),
                    c,
                ));
            }
            if a.ongoing() != b.ongoing() {
                return Err(fail("session-flag-differs", format!("H2 word {w:?}: updated ongoing={} new ongoing={}", a.ongoing(), b.ongoing()), c));
            }
            sel = if ra.lonely { 0 } else { ra.sel.min(255) as u8 };
            last = Some(ra);
        }
        match (s.commit, last) {
            (Some(f), Some(r)) if r.choices() > 0 => {
                let i = ((f as usize) * r.choices()) >> 16;
                a.commit(i).map_err(pf)?;
                b.commit(i).map_err(pf)?;
                // what the commit did to the learned-selection store is behaviour too: the entry of the
                // committed word must be the same in both user directories (other entries may differ by
                // derived entries that only the older context has cached)
                let key = crate::model::ref_split(&w, false).1;
                let (sa, sb2) = (sb.parsed_selections().unwrap_or_default(), copy.parsed_selections().unwrap_or_default());
                if sa.get(&key) != sb2.get(&key) {
                    return Err(fail(
                        "commit-effect-differs-from-new-context",
                        format!("H2 word {w:?} committed at index {i} ({} -> {}): the updated context's store has {:?} for {key:?}, the new context's store has {:?}", c.cfg1, c.cfg2, sa.get(&key), sb2.get(&key)),
                        c,
                    ));
                }
                st.count("store-entry-comparisons", 1);
            }
            _ => {
                a.finish().map_err(pf)?;
                b.finish().map_err(pf)?;
            }
        }
    }
    let layout_changes = cfg1.layout != cfg2.layout;
    let sugg_flips = cfg1.lists() != cfg2.lists();
    if edit_relevant {
        st.label("edit-touches-word-typed-before-and-after");
    }
    if layout_changes {
        st.label("layout-changes");
    }
    if matches!(c.edit, Edit::DeleteFile) && c.ac0.is_some() {
        st.label("file-deleted");
    }
    if edit_relevant || layout_changes || sugg_flips {
        st.nontrivial(hash_of(c), || json!({"cfg1": c.cfg1, "cfg2": c.cfg2, "h1": h1_words, "edit": format!("{:?}", c.edit), "touched_keys": touched}));
    }
    Ok(())
}

/// Every SINGLE option flipped by update-engine, in both directions, on top of 6 base settings x 3 layouts, judged
/// on a battery of probes that is sensitive to each of the 11 options (a generated multi-flip pair rarely meets the
/// one text that shows a particular option).
fn single_flips(run: &Run) {
    use crate::driver::{layout_inverse, Layout};
    let mut items: Vec<(usize, u16, u16)> = vec![];
    for layout in 0..3usize {
        for base in [0u16, 0x7ff, 0b110, 0b110 | (1 << 10), 0b101_0101_0110, 0b010_1010_1110] {
            for bit in 0..11u16 {
                items.push((layout, base, bit));
            }
        }
    }
    let invs: Vec<HashMap<String, (u16, u8)>> = vec![HashMap::new(), layout_inverse(Layout::Probhat), layout_inverse(Layout::Synthetic)];
    run.exhaustive(
        "single-option-flips-x-sensitive-probes",
        &items,
        |_| (),
        |&(layout, base, bit), st, _| {
            let o1 = crate::driver::Opts::from_bits(layout, base);
            let o2 = crate::driver::Opts::from_bits(layout, base ^ (1 << bit));
            let case = || json!({"single_flip": {"cfg1": o1.letters(), "cfg2": o2.letters()}});
            single_flip_case(o1, o2, &invs[layout], st).map_err(|(k, m)| Failure::new(&k, m, case()))
        },
    );
}

fn single_flip_case(o1: Opts, o2: Opts, inv: &HashMap<String, (u16, u8)>, st: &mut Stats) -> Result<(), (String, String)> {
    let pf = |p: crate::driver::PanicInfo| (panic_kind(&p), p.to_string());
    // probes: key sequences (code, modifier)
    let ascii = |s: &str| -> Vec<(u16, u8)> { s.chars().map(|c| (keys().code_for(c), 0u8)).collect() };
    let mut probes: Vec<Vec<(u16, u8)>> = vec![];
    if o1.is_phonetic() {
        // the first probe starts with the text of the last one: whatever the engine keeps "for the word it saw
        // last" meets the same word again right after the switch
        for t in ["ami", "\"ami\"", "'k'", ":)", "smile", "sesh.", "abcgulo", "a"] {
            probes.push(ascii(t));
        }
    } else {
        let v = |vals: &[&str]| -> Option<Vec<(u16, u8)>> { vals.iter().map(|x| inv.get(*x).copied()).collect() };
        let (ka, ikar, ukar, aakar, chandra, hasanta, ra) = ("\u{0995}", "\u{09BF}", "\u{09C1}", "\u{09BE}", "\u{0981}", "\u{09CD}", "\u{09B0}");
        for p in [
            v(&["\"", ka, "\""]),                         // smart quotes
            v(&[aakar]),                                  // auto vowel
            v(&[ka, chandra, aakar]),                     // auto chandrabindu
            v(&[ka, ukar]),                               // traditional joining
            v(&[ka, hasanta, ka, crate::model::REPH]),    // old reph (layouts with a reph key)
            v(&[ka, ra, hasanta]),                        // old reph, Probhat style (ra + hasanta typed after)
            v(&[ikar, ka]),                               // old vowel-sign order
            v(&[ka, aakar, ka]),                          // suggestions / ANSI / English (a dictionary prefix)
            v(&["\u{0997}", ra]),                          // a prefix whose completions carry u-sign (traditional joining)
        ]
        .into_iter()
        .flatten()
        {
            probes.push(p);
        }
        probes.push(vec![(keys().by_name("KP_1").map(|k| k.code).unwrap_or(0), 0), (keys().by_name("KP_DECIMAL").map(|k| k.code).unwrap_or(0), 0)]); // number pad
        // keys the layout may refuse, in the middle of a word (what is returned then is built on another path)
        if let Some(k) = inv.get(ka).copied() {
            probes.push(vec![k, (keys().by_name("KP_5").map(|k| k.code).unwrap_or(0), 0), k, (keys().by_name("KP_EQUALS").map(|k| k.code).unwrap_or(0), 0), k]);
        }
        probes.push(ascii(";)")); // emoticon through raw keys
    }
    let sb = Sandbox::new();
    std::fs::write(sb.selection_file(), STORE0).expect("store");
    let mut a = Ctx::new(o1, &sb).map_err(pf)?;
    // the battery once under the old configuration (so that whatever is cached, is cached); the words are ended in all
    // four ways in turn (finish, ctrl-backspace, plain backspaces down to nothing, commit), rotated with the pair of
    // configurations, so that every probe is thrown away in every way before some flip
    let rot = hash_of(&(o1.letters(), o2.letters())) as usize;
    for (pi, p) in probes.iter().enumerate() {
        let mut shown = false;
        for (c, m) in p {
            shown = a.key(*c, *m, 0).map_err(pf)?.choices() > 0;
        }
        match (pi + rot) % 4 {
            1 => {
                a.backspace(true).map_err(pf)?;
            }
            2 => {
                for _ in 0..16 {
                    if a.backspace(false).map_err(pf)?.is_empty() {
                        break;
                    }
                }
            }
            3 if shown => a.commit(0).map_err(pf)?,
            _ => a.finish().map_err(pf)?,
        }
        if a.ongoing() {
            a.finish().map_err(pf)?;
        }
    }
    a.update(o2, &sb).map_err(pf)?;
    let copy = sb.duplicate();
    let b = Ctx::new(o2, &copy).map_err(pf)?;
    for p in &probes {
        for (i, (c, m)) in p.iter().enumerate() {
            let ra = a.key(*c, *m, 0).map_err(pf)?;
            let rb = b.key(*c, *m, 0).map_err(pf)?;
            st.evals(1);
            if ra != rb || a.ongoing() != b.ongoing() {
                let names: Vec<String> = p.iter().map(|(c, m)| format!("{}{}", keys().by_code(*c).map(|k| k.name.clone()).unwrap_or_default(), if *m != 0 { "+AltGr" } else { "" })).collect();
                return Err((
                    "single-option-flip-not-honoured".to_string(),
                    format!("{} -> {} by update-engine, probe {names:?} at key #{i}: the updated context returns {} (ongoing {}) but a newly created context returns {} (ongoing {})", o1.letters(), o2.letters(), ra.short(), a.ongoing(), rb.short(), b.ongoing()),
                ));
            }
        }
        a.finish().map_err(pf)?;
        b.finish().map_err(pf)?;
    }
    // and back again: a context that was away from a setting and returned to it is a new context of that setting
    a.update(o1, &sb).map_err(pf)?;
    let copy2 = sb.duplicate();
    let b1 = Ctx::new(o1, &copy2).map_err(pf)?;
    for p in &probes {
        for (i, (c, m)) in p.iter().enumerate() {
            let ra = a.key(*c, *m, 0).map_err(pf)?;
            let rb = b1.key(*c, *m, 0).map_err(pf)?;
            st.evals(1);
            if ra != rb || a.ongoing() != b1.ongoing() {
                let names: Vec<String> = p.iter().map(|(c, m)| format!("{}{}", keys().by_code(*c).map(|k| k.name.clone()).unwrap_or_default(), if *m != 0 { "+AltGr" } else { "" })).collect();
                return Err((
                    "option-flipped-and-flipped-back-not-honoured".to_string(),
                    format!("{} -> {} -> {} by update-engine, probe {names:?} at key #{i}: the context returns {} but a newly created context returns {}", o1.letters(), o2.letters(), o1.letters(), ra.short(), rb.short()),
                ));
            }
        }
        a.finish().map_err(pf)?;
        b1.finish().map_err(pf)?;
    }
    // the word that was in the making is THROWN AWAY (ctrl-backspace / plain backspaces down to nothing) right before the
    // update, and the same word is the first thing typed after it: whatever the engine kept for "the word in composition"
    // under the old option value must be gone
    for ending in 0..2u8 {
        for p in &probes {
            a.update(o1, &sb).map_err(pf)?;
            for (c, m) in p {
                a.key(*c, *m, 0).map_err(pf)?;
            }
            if ending == 0 {
                a.backspace(true).map_err(pf)?;
            } else {
                for _ in 0..16 {
                    if a.backspace(false).map_err(pf)?.is_empty() {
                        break;
                    }
                }
            }
            if a.ongoing() {
                a.finish().map_err(pf)?;
            }
            a.update(o2, &sb).map_err(pf)?;
            let copy3 = sb.duplicate();
            let b3 = Ctx::new(o2, &copy3).map_err(pf)?;
            for (i, (c, m)) in p.iter().enumerate() {
                let ra = a.key(*c, *m, 0).map_err(pf)?;
                let rb = b3.key(*c, *m, 0).map_err(pf)?;
                st.evals(1);
                if ra != rb || a.ongoing() != b3.ongoing() {
                    let names: Vec<String> = p.iter().map(|(c, m)| format!("{}{}", keys().by_code(*c).map(|k| k.name.clone()).unwrap_or_default(), if *m != 0 { "+AltGr" } else { "" })).collect();
                    return Err((
                        "single-option-flip-not-honoured".to_string(),
                        format!("probe {names:?} typed under {} and thrown away by {}, update-engine to {}, the same probe again, key #{i}: the updated context returns {} but a newly created context returns {}", o1.letters(), if ending == 0 { "ctrl-backspace" } else { "plain backspaces" }, o2.letters(), ra.short(), rb.short()),
                    ));
                }
            }
            a.finish().map_err(pf)?;
        }
    }
    st.label("single-option-flips");
    st.nontrivial(hash_of(&(o1.letters(), o2.letters())), || json!({"cfg1": o1.letters(), "cfg2": o2.letters(), "probes": probes.len()}));
    Ok(())
}

pub fn strategy() -> impl Strategy<Value = Case> {
    let layout_pair = prop_oneof![
        3 => Just((0usize, 0usize)),
        1 => Just((0, 1)), 1 => Just((1, 0)), 1 => Just((0, 2)), 1 => Just((2, 0)), 1 => Just((1, 2)), 1 => Just((2, 1)),
        1 => Just((1, 1)), 1 => Just((2, 2)),
        // 3 = another layout file with the same file NAME as the bundled Probhat.json, in another directory
        1 => Just((1, 3)), 1 => Just((3, 1)),
    ];
    let cfgs = (layout_pair, 0u16..2048, proptest::collection::vec(0u16..11, 0..4), proptest::bool::weighted(0.7)).prop_map(|((l1, l2), bits, flips, force_sugg)| {
        let mut b1 = bits;
        if force_sugg {
            b1 |= 0b110; // suggestions on in both methods
        }
        let mut b2 = b1;
        for f in flips {
            b2 ^= 1 << f;
        }
        let mk = |l: usize, b: u16| {
            let mut o = crate::driver::Opts::from_bits(l.min(2), b);
            if l == 3 {
                o.layout = crate::driver::Layout::Twin;
            }
            o.letters()
        };
        (mk(l1, b1), mk(l2, b2))
    });
    let pick = prop_oneof![3 => any::<u16>().prop_map(Pick::Word), 2 => any::<u8>().prop_map(Pick::Again)];
    let step = || (pick.clone(), prop_oneof![2 => Just(None), 3 => any::<u16>().prop_map(Some)]).prop_map(|(pick, commit)| WordStep { pick, commit });
    let edit = prop_oneof![
        2 => Just(Edit::None),
        1 => any::<u8>().prop_map(Edit::Create),
        4 => (any::<u8>(), any::<u8>()).prop_map(|(a, b)| Edit::ChangeValue(a, b)),
        3 => (any::<u8>(), any::<u8>()).prop_map(|(a, b)| Edit::AddBaseKey(a, b)),
        1 => any::<u8>().prop_map(Edit::RemoveKey),
        1 => any::<u8>().prop_map(Edit::SameLength),
        2 => Just(Edit::DeleteFile),
        2 => Just(Edit::AwayAndBack),
    ];
    let mid = prop_oneof![
        2 => Just(None),
        1 => (0usize..3, 0u16..2048, proptest::collection::vec(step(), 1..4)).prop_map(|(l, b, steps)| Some((crate::driver::Opts::from_bits(l, b | 0b110).letters(), steps))),
    ];
    (cfgs, prop_oneof![1 => Just(None), 1 => any::<u8>().prop_map(Some)], proptest::collection::vec(step(), 0..5), edit, proptest::collection::vec(step(), 1..6), any::<bool>(), mid, prop_oneof![2 => Just(None), 1 => any::<u8>().prop_map(Some)])
        .prop_map(|((cfg1, cfg2), ac0, h1, edit, h2, store0, mid, via)| {
            // the middle configuration keeps the layout of cfg1 half of the time (option flips only)
            let mid = mid.map(|(m, steps): (String, Vec<WordStep>)| {
                let mut o = crate::driver::Opts::parse(&m);
                if steps.len() % 2 == 0 {
                    o.layout = crate::driver::Opts::parse(&cfg1).layout;
                    let c2 = crate::driver::Opts::parse(&cfg2);
                    o.psug = !c2.psug;
                    o.fsug = !c2.fsug;
                }
                (o.letters(), steps)
            });
            Case { cfg1, cfg2, ac0, h1, edit, h2, store0, mid, via }
        })
}

/// One entry of the user's list changed while the file stays: its value replaced by one of the same length (the
/// file's size is unchanged, only content and time stamp move), or the entry alone removed - after the word (and a
/// suffixed form) was typed in the live context, and judged on the same words typed again.
fn directed_entry_edits(run: &Run) {
    let idx = |w: &str| WORDS.iter().position(|x| *x == w).map(|i| i as u16);
    let mut cases: Vec<Case> = vec![];
    for k in 0..4u8 {
        let d = initial_doc(k);
        let keys_of: Vec<String> = d.keys().cloned().collect();
        let mut picks: Vec<u16> = keys_of.iter().filter_map(|w| idx(w)).collect();
        for w in ["abce", "academyr", "parke", "abcgulo", "onnogulo"] {
            if keys_of.iter().any(|k| w.starts_with(k.as_str())) {
                picks.extend(idx(w));
            }
        }
        for j in 0..keys_of.len() as u8 {
            // the two edits that concern the whole file go with the first key only
            let mut kinds = vec![Edit::SameLength(j), Edit::RemoveKey(j), Edit::ChangeValue(j, 1)];
            if j == 0 {
                kinds.push(Edit::AwayAndBack);
                kinds.push(Edit::DeleteFile);
            }
            for (e, edit) in kinds.into_iter().enumerate() {
                for bits in [0b010u16, 0b011] {
                    for commit in [None, Some(0u16)] {
                        let cfg = crate::driver::Opts::from_bits(0, bits).letters();
                        let h1: Vec<WordStep> = picks.iter().map(|p| WordStep { pick: Pick::Word(*p), commit }).collect();
                        let h2: Vec<WordStep> = (0..picks.len() as u8).map(|i| WordStep { pick: Pick::Again(i), commit: None }).collect();
                        cases.push(Case { cfg1: cfg.clone(), cfg2: cfg.clone(), ac0: Some(k), h1, edit: edit.clone(), h2, store0: false, mid: None, via: if e == 0 && bits == 0b011 { Some(3) } else { None } });
                    }
                }
            }
        }
    }
    run.exhaustive("one-entry-of-the-user-list-changed-while-the-file-stays", &cases, |_| (), |c: &Case, st, _| run_case(c, st));
}

pub fn run(run: &Run) {
    single_flips(run);
    directed_entry_edits(run);
    run.require_label("edit-keeps-the-file-size", 8);
    run.require_label("single-option-flips", 190);
    run.sharded("update-vs-new-context", 16, run.tier.pick(300, 7000), 400, strategy, |_| (), |c: &Case, st, _| run_case(c, st));
    run.require_label("edit-touches-word-typed-before-and-after", 50);
    run.require_label("layout-changes", 100);
    run.require_label("file-deleted", 20);
    run.require_label("file-away-update-and-back-untouched", 20);
    run.require_label("store-exists-before-creation", 100);
    run.require_label("two-updates", 100);
    run.require_label("two-updates-after-the-edit", 100);
}

pub fn replay(_run: &Run, case: &Value) -> Result<(), Failure> {
    if let Some(sf) = case.get("single_flip") {
        let (o1, o2) = (Opts::parse(sf["cfg1"].as_str().unwrap_or_default()), Opts::parse(sf["cfg2"].as_str().unwrap_or_default()));
        let inv = if o1.is_phonetic() { HashMap::new() } else { crate::driver::layout_inverse(o1.layout) };
        return single_flip_case(o1, o2, &inv, &mut Stats::new()).map_err(|(k, m)| Failure::new(&k, m, case.clone()));
    }
    let c: Case = serde_json::from_value(case.clone()).map_err(|e| Failure::new("replay", format!("bad case: {e}"), case.clone()))?;
    run_case(&c, &mut Stats::new())
}
