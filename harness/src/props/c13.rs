//! C13 — old-style reph is moved in front of the final conjunct and loses nothing.

use crate::driver::{keys, layout_inverse, layout_value, load_layout_json, Ctx, Layout, Opts, Sandbox};
use crate::model::{self, reph_check};
use crate::props::c01::panic_kind;
use crate::runner::{hash_of, Failure, Run, Stats};
use proptest::prelude::*;
use serde_json::{json, Value};

pub const LEVEL: &str = "exploration";
pub const EXHAUSTIVE: bool = true;
pub const RULE: &str = "enumerated: ALL key histories of length 0..=L (quick L=5, thorough L=6) over a 14-symbol alphabet of the synthetic layout (ka, ta, ra, a, i, aa-sign, i-sign, hasanta, chandrabindu, '!', digit, ro-fola, zo-fola, ZWNJ) x 16 settings of {auto vowel, auto chandrabindu, traditional joining, old vowel-sign order} x old reph on/off, each followed by the reph key; plus generated histories of 4..16 keys over the whole layout. Oracle: option on => the text after the key is the text before with exactly one reph inserted and nothing else changed (all texts); for texts in the syllable grammar the position is the start of the final conjunct when the text ends in conjunct (vowel|sign)? chandrabindu?, else the end (empty text => reph alone). Option off => text before + reph. Non-trivial: the text is well-formed and the expected position is not the end; distinct by (options, text before the key). Plus texts from the syllable grammar deeper than L: 10 prefixes x conjuncts of 1..5 consonants x {none, ro-fola, zo-fola} x {none, aa-sign, i-sign} x chandrabindu x 18 settings.";
pub const ASSUMPTIONS: &[&str] = &[
    "syllable grammar and placement rule as written in model::reph_position from the statement",
    "texts with stray signs / joiners / open-class characters are judged for conservation only",
];

fn sigma() -> Vec<(String, (u16, u8))> {
    let inv = layout_inverse(Layout::Synthetic);
    let vals = [
        "\u{0995}", "\u{09A4}", "\u{09B0}", "\u{0985}", "\u{0987}", "\u{09BE}", "\u{09BF}", "\u{09CD}", "\u{0981}", "!",
        "\u{09E7}", model::ROFOLA, model::ZOFOLA, "\u{200C}",
    ];
    vals.iter().map(|v| (v.to_string(), *inv.get(*v).unwrap_or_else(|| panic!("synthetic layout lacks {v:?}")))).collect()
}

fn opts_of(bits: u32) -> Opts {
    let mut o = Opts::parse("SD");
    o.vowel = bits & 1 != 0;
    o.chandra = bits & 2 != 0;
    o.kar = bits & 4 != 0;
    o.karorder = bits & 8 != 0;
    o.reph = bits & 16 != 0;
    o
}

/// Type `ks`, then the reph key; judge.  Returns whether the case was non-trivial.
fn one(ctx: &Ctx, opts: &Opts, ks: &[(u16, u8)], reph_key: (u16, u8), case: &dyn Fn() -> Value) -> Result<(bool, String), Failure> {
    let pf = |p: crate::driver::PanicInfo| Failure::new(panic_kind(&p), p.to_string(), case());
    ctx.finish().map_err(pf)?;
    let mut p = String::new();
    for (c, m) in ks {
        p = ctx.key(*c, *m, 0).map_err(pf)?.text;
    }
    let now = ctx.key(reph_key.0, reph_key.1, 0).map_err(pf)?.text;
    if opts.reph {
        match reph_check(&p, &now) {
            Ok(nt) => Ok((nt, p)),
            Err(m) => Err(Failure::new(if m.starts_with("conservation") { "reph-conservation" } else { "reph-placement" }, m, case())),
        }
    } else if now != format!("{p}{}", model::REPH) {
        Err(Failure::new("reph-off-append", format!("option off: {p:?} + reph key gave {now:?}"), case()))
    } else {
        Ok((false, p))
    }
}

fn exhaustive(run: &Run, maxlen: usize) {
    let sig = sigma();
    let nk = sig.len() as u64;
    let reph_key = *layout_inverse(Layout::Synthetic).get(model::REPH).expect("reph key");
    // items: (option bits, length, first symbol or none)
    let mut items = vec![];
    for bits in 0..32u32 {
        items.push((bits, 0usize, 0usize));
        for len in 1..=maxlen {
            for first in 0..sig.len() {
                items.push((bits, len, first));
            }
        }
    }
    run.exhaustive(
        "all-histories-then-reph",
        &items,
        |_| Sandbox::new(),
        |&(bits, len, first), st, sb| {
            let opts = opts_of(bits);
            let ctx = Ctx::new(opts, sb).map_err(|p| Failure::new(panic_kind(&p), p.to_string(), json!({})))?;
            let total = if len == 0 { 1 } else { nk.pow(len as u32 - 1) };
            let mut hist = vec![0usize; len];
            for code in 0..total {
                let mut x = code;
                if len > 0 {
                    hist[0] = first;
                }
                for h in hist.iter_mut().skip(1) {
                    *h = (x % nk) as usize;
                    x /= nk;
                }
                let ks: Vec<(u16, u8)> = hist.iter().map(|&i| sig[i].1).collect();
                let case = || json!({"opts": opts.letters(), "keys": hist.iter().map(|&i| sig[i].0.clone()).collect::<Vec<_>>()});
                st.evals(1);
                let (nt, p) = one(&ctx, &opts, &ks, reph_key, &case)?;
                if nt {
                    st.nontrivial(hash_of(&(bits, &p)), || json!({"opts": opts.letters(), "text_before": p}));
                }
                if opts.reph && p.is_empty() {
                    st.label("reph-on-empty-text");
                }
            }
            Ok(())
        },
    );
}

fn random_case() -> impl Strategy<Value = (u32, Vec<(u16, u8)>)> {
    let lay = load_layout_json(Layout::Synthetic);
    let mut ks: Vec<(u16, u8)> = vec![];
    for k in &keys().keys {
        for altgr in [false, true] {
            if let Some(v) = layout_value(&lay, k, altgr, false) {
                if v != model::REPH {
                    ks.push((k.code, if altgr { 2 } else { 0 }));
                }
            }
        }
    }
    let sig: Vec<(u16, u8)> = sigma().into_iter().map(|(_, k)| k).collect();
    let key = prop_oneof![2 => proptest::sample::select(ks), 5 => proptest::sample::select(sig)];
    (0u32..32, proptest::collection::vec(key, 4..16))
}

fn run_random(bits: u32, ks: &[(u16, u8)], st: &mut Stats, sb: &Sandbox) -> Result<(), Failure> {
    let opts = opts_of(bits);
    let ctx = Ctx::new(opts, sb).map_err(|p| Failure::new(panic_kind(&p), p.to_string(), json!({})))?;
    let reph_key = *layout_inverse(Layout::Synthetic).get(model::REPH).expect("reph key");
    let case = || json!({"opts": opts.letters(), "key_codes": ks});
    let (nt, p) = one(&ctx, &opts, ks, reph_key, &case)?;
    if nt {
        st.nontrivial(hash_of(&(bits, &p)), || json!({"opts": opts.letters(), "text_before": p}));
    }
    Ok(())
}

/// Texts built from the syllable grammar, deeper than the enumeration reaches: (something in front) + a conjunct of
/// 1..=5 consonants + an optional fola + an optional vowel sign + an optional chandrabindu, then the reph key.
fn deep_conjuncts(run: &Run) {
    let sig = sigma();
    let reph_key = *layout_inverse(Layout::Synthetic).get(model::REPH).expect("reph key");
    let (ka, ta, ra, a, aa, i, has, chandra, bang, digit, rofola, zofola) = (0usize, 1usize, 2usize, 3usize, 5usize, 6usize, 7usize, 8usize, 9usize, 10usize, 11usize, 12usize);
    let mut conjuncts: Vec<Vec<usize>> = vec![];
    for n in 1..=5usize {
        let alphabet: &[usize] = if n <= 3 { &[ka, ta, ra] } else { &[ka, ta] };
        let total = alphabet.len().pow(n as u32);
        for code in 0..total {
            let mut x = code;
            let mut c = vec![];
            for j in 0..n {
                if j > 0 {
                    c.push(has);
                }
                c.push(alphabet[x % alphabet.len()]);
                x /= alphabet.len();
            }
            conjuncts.push(c);
        }
    }
    let prefixes: Vec<Vec<usize>> = vec![vec![], vec![ka], vec![ta], vec![a], vec![ka, aa], vec![bang], vec![digit], vec![ka, ta], vec![ra], vec![ka, chandra]];
    let mut items: Vec<(u32, usize)> = vec![];
    for bits in (16..32u32).chain([0, 5]) {
        for p in 0..prefixes.len() {
            items.push((bits, p));
        }
    }
    run.exhaustive("deep-conjuncts-then-reph", &items, |_| Sandbox::new(), |&(bits, pi), st, sb| {
        let opts = opts_of(bits);
        let ctx = Ctx::new(opts, sb).map_err(|p| Failure::new(panic_kind(&p), p.to_string(), json!({})))?;
        for c in &conjuncts {
            for fola in [None, Some(rofola), Some(zofola)] {
                for sign in [None, Some(aa), Some(i)] {
                    for cb in [false, true] {
                        let mut hist: Vec<usize> = prefixes[pi].clone();
                        hist.extend(c.iter().copied());
                        hist.extend(fola);
                        hist.extend(sign);
                        if cb {
                            hist.push(chandra);
                        }
                        let ks: Vec<(u16, u8)> = hist.iter().map(|&i| sig[i].1).collect();
                        let case = || json!({"opts": opts.letters(), "keys": hist.iter().map(|&i| sig[i].0.clone()).collect::<Vec<_>>()});
                        st.evals(1);
                        let (nt, p) = one(&ctx, &opts, &ks, reph_key, &case)?;
                        if nt {
                            st.nontrivial(hash_of(&(bits, &p)), || json!({"opts": opts.letters(), "text_before": p}));
                            if c.len() >= 5 {
                                st.label("reph-before-a-conjunct-of-three-or-more");
                            }
                        }
                    }
                }
            }
        }
        Ok(())
    });
    run.require_label("reph-before-a-conjunct-of-three-or-more", 1000);
}

pub fn run(run: &Run) {
    deep_conjuncts(run);
    exhaustive(run, run.tier.pick(5, 6));
    run.sharded(
        "random-longer-texts",
        16,
        run.tier.pick(3000, 60000),
        2000,
        random_case,
        |_| Sandbox::new(),
        |(bits, ks): &(u32, Vec<(u16, u8)>), st, sb| run_random(*bits, ks, st, sb),
    );
    run.require_label("reph-on-empty-text", 1);
}

pub fn replay(_run: &Run, case: &Value) -> Result<(), Failure> {
    let opts = Opts::parse(case["opts"].as_str().unwrap_or_default());
    let sb = Sandbox::new();
    let ctx = Ctx::new(opts, &sb).map_err(|p| Failure::new(panic_kind(&p), p.to_string(), case.clone()))?;
    let inv = layout_inverse(opts.layout);
    let reph_key = *inv.get(model::REPH).ok_or_else(|| Failure::new("replay", "layout has no reph key", case.clone()))?;
    let ks: Vec<(u16, u8)> = if let Some(a) = case["keys"].as_array() {
        a.iter().filter_map(|v| inv.get(v.as_str().unwrap_or_default()).copied()).collect()
    } else {
        serde_json::from_value(case["key_codes"].clone()).unwrap_or_default()
    };
    one(&ctx, &opts, &ks, reph_key, &|| case.clone()).map(|_| ())
}
