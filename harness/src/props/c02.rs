//! C02 — every returned suggestion is self-consistent and fully retrievable.

use crate::driver::{keys, Ctx, Opts, Rendered, Sandbox};
use crate::gen::{self, AbsOp, Ev, Interp, OpWeights, Outcome, Step, SEL_PRESERVING};
use crate::model;
use crate::props::c01::panic_kind;
use crate::runner::{hash_of, Failure, Run, Stats, Tier};
use proptest::prelude::*;
use serde_json::{json, Value};

pub const LEVEL: &str = "exploration";
pub const EXHAUSTIVE: bool = false;
pub const RULE: &str = "generated: C01's in-contract histories restricted to selection bytes valid for the previously returned list (zero / front-end / any valid index); every suggestion returned by a key or backspace event is read out completely. Oracle: list => len >= 1, preselected index < len, every index readable as candidate and as pre-edit text; single => pre-edit readable; auxiliary text == reference composition (phonetic: ASCII characters of the keys since the last terminating event minus backspaces, via the header-derived table; fixed: the single string of a twin context with suggestions off fed the same events since the last session boundary - the twin is replaced by a brand-new context at every commit, finish, ctrl-backspace and backspace that returns an empty suggestion). Plus a sweep: words with long lists x every valid selection x the 13 selection-preserving punctuation keys. Non-trivial: a list of length >= 3 returned after a punctuation key with non-zero selection, or a backspace returned a list; distinct by hash of the concrete trace (sweep: word, selection, key).";
pub const ASSUMPTIONS: &[&str] = &[
    "selection bytes are valid for the list shown before (the statement's precondition)",
    "header-derived key -> character table",
    "twin context with suggestions off exposes the composed text",
];

pub fn weights() -> OpWeights {
    OpWeights { key: 25, text: 35, learned: 4, backspace: 16, ctrl_backspace: 3, commit: 8, finish: 3, update: 3, restart: 1 }
}

pub fn case_strategy(max_ops: usize) -> impl Strategy<Value = (Opts, Vec<AbsOp>)> {
    (gen::opts_strategy(), proptest::collection::vec(gen::op_strategy(&weights(), false), 1..max_ops))
}

struct Twin {
    ctx: Option<Ctx>,
    sb: Sandbox,
}

impl Twin {
    fn sync(&mut self, opts: &Opts) {
        if opts.is_phonetic() {
            self.ctx = None;
        } else {
            let mut o = *opts;
            o.fsug = false;
            o.nodata = true;
            self.ctx = Ctx::new(o, &self.sb).ok();
        }
    }
}

/// Check one returned suggestion.  `prev_len` is the length of the list shown before (0 if none).
#[allow(clippy::too_many_arguments)]
pub fn check_suggestion(
    run: &Run,
    st: &mut Stats,
    r: &Rendered,
    opts: &Opts,
    key_char: Option<char>,
    caller_sel: u8,
    expected_aux: Option<&str>,
    case: &dyn Fn() -> Value,
) -> Result<(), Failure> {
    let readout = |st: &mut Stats, text: &str, e: &str| -> Result<(), Failure> {
        let kind = if opts.ansi && text.contains(model::VOCALIC_RR_SIGN) && e.contains("Unknown Kar replacement") {
            "readout-panic-bijoy-vocalic-rr".to_string()
        } else {
            format!("readout-panic:{}", e.chars().take(80).collect::<String>())
        };
        if run.absorb(st, &kind) {
            Ok(())
        } else {
            Err(Failure::new(kind, format!("pre-edit text of {text:?} cannot be read: {e}"), case()))
        }
    };
    if r.lonely {
        if let Err(e) = &r.pre[0] {
            readout(st, &r.text, e)?;
        }
        return Ok(());
    }
    if r.cands.is_empty() {
        return Err(Failure::new("empty-list", "a list-style suggestion without candidates was returned", case()));
    }
    if r.sel >= r.cands.len() {
        let known = opts.is_phonetic()
            && key_char.map(|c| SEL_PRESERVING.contains(c)).unwrap_or(false)
            && r.sel == caller_sel as usize;
        let kind = if known { "sel-override-out-of-range" } else { "sel-out-of-range" };
        if !run.absorb(st, kind) {
            return Err(Failure::new(
                kind,
                format!("preselected index {} >= length {} (caller passed {})", r.sel, r.cands.len(), caller_sel),
                case(),
            ));
        }
    }
    if let Some(exp) = expected_aux {
        if r.text != exp {
            return Err(Failure::new(
                "aux-mismatch",
                format!("auxiliary text {:?} but the in-progress composition is {:?}", r.text, exp),
                case(),
            ));
        }
    }
    for (i, p) in r.pre.iter().enumerate() {
        if let Err(e) = p {
            readout(st, &r.cands[i], e)?;
        }
    }
    Ok(())
}

/// Per-history observer: reference composition model + twin + per-event checks.
pub struct Obs {
    twin: Twin,
    model_text: String,
    pub punct_sel: bool,
    pub bs_list: bool,
    pub trace: Vec<Ev>,
    opts0: Opts,
}

impl Obs {
    pub fn new(opts: &Opts) -> Obs {
        let mut twin = Twin { ctx: None, sb: Sandbox::new() };
        twin.sync(opts);
        Obs { twin, model_text: String::new(), punct_sel: false, bs_list: false, trace: vec![], opts0: *opts }
    }

    pub fn step(&mut self, run: &Run, st: &mut Stats, s: &Step) -> Result<(), Failure> {
        self.trace.push(s.ev.clone());
        let cur = s.ctx.opts;
        let mut twin_text: Option<String> = None;
        let mut key_char = None;
        let mut caller_sel = 0u8;
        match s.ev {
            Ev::Key { code, m, sel } => {
                caller_sel = *sel;
                key_char = keys().by_code(*code).and_then(|k| k.ascii);
                if cur.is_phonetic() {
                    if let Some(c) = key_char {
                        self.model_text.push(c);
                    }
                } else if let Some(t) = &self.twin.ctx {
                    twin_text = t.key(*code, *m, *sel).ok().map(|r| r.text);
                }
            }
            Ev::Backspace | Ev::CtrlBackspace => {
                let ctrl = matches!(s.ev, Ev::CtrlBackspace);
                if cur.is_phonetic() {
                    if ctrl {
                        self.model_text.clear();
                    } else {
                        self.model_text.pop();
                    }
                } else if let Some(t) = &self.twin.ctx {
                    twin_text = t.backspace(ctrl).ok().map(|r| r.text);
                    // "in-progress composition" = what was composed since the last session boundary.  The twin
                    // must not carry anything across a boundary on its own account (it runs the same engine):
                    // after ctrl-backspace, and after a backspace that returned an empty suggestion, it is
                    // replaced by a brand-new context.
                    let ended = ctrl || matches!(s.outcome, Outcome::Suggestion(r) if r.lonely && r.text.is_empty());
                    if ended {
                        self.twin.sync(&cur);
                    }
                }
            }
            Ev::Commit(_) | Ev::Finish => {
                self.model_text.clear();
                if self.twin.ctx.is_some() {
                    self.twin.sync(&cur);
                }
            }
            Ev::Update(_) | Ev::Restart => {
                self.model_text.clear();
                self.twin.sync(&cur);
            }
        }
        if let Outcome::Suggestion(r) = s.outcome {
            let expected: Option<String> = if r.lonely {
                None
            } else if cur.is_phonetic() {
                Some(self.model_text.clone())
            } else {
                twin_text
            };
            if !r.lonely {
                if matches!(s.ev, Ev::Backspace) {
                    self.bs_list = true;
                }
                if r.cands.len() >= 3 && caller_sel > 0 && key_char.map(|c| SEL_PRESERVING.contains(c)).unwrap_or(false) {
                    self.punct_sel = true;
                }
            }
            let (o, tr) = (self.opts0, &self.trace);
            check_suggestion(run, st, r, &cur, key_char, caller_sel, expected.as_deref(), &|| gen::trace_json(&o, tr))?;
        }
        Ok(())
    }
}

pub fn run_history(run: &Run, opts: &Opts, ops: &[AbsOp], st: &mut Stats) -> Result<(), Failure> {
    let sb = Sandbox::new();
    run_history_in(run, opts, ops, st, &sb)
}

/// As `run_history`, over a user directory prepared by the caller (byte-coded histories with user files, see oracle.rs).
pub fn run_history_in(run: &Run, opts: &Opts, ops: &[AbsOp], st: &mut Stats, sb: &Sandbox) -> Result<(), Failure> {
    let mut it = match Interp::new(*opts, sb) {
        Ok(it) => it,
        Err(_) => return Ok(()), // C01's business
    };
    let mut obs = Obs::new(opts);
    let mut result = Ok(());
    for op in ops {
        match it.run_op(op, &mut |s: &Step| obs.step(run, st, s)) {
            Ok(Ok(())) => {}
            Ok(Err(f)) => {
                result = Err(f);
                break;
            }
            Err(p) => {
                // a panic inside an engine call makes the suggestion unretrievable (also C01's violation)
                result = Err(Failure::new(panic_kind(&p.info), format!("event #{}: {}", p.at, p.info), gen::trace_json(opts, &it.trace)));
                break;
            }
        }
    }
    let mut nontrivial = false;
    if obs.punct_sel {
        st.label("list>=3-after-punct-with-selection");
        nontrivial = true;
    }
    if obs.bs_list {
        st.label("backspace-returned-list");
        nontrivial = true;
    }
    st.label(if opts.is_phonetic() { "starts-phonetic" } else { "starts-fixed" });
    st.count("events", it.trace.len() as u64);
    st.count("skipped-commit-nothing-shown", it.skipped_commit);
    st.count("skipped-update-not-idle", it.skipped_update);
    if nontrivial {
        let t = it.trace.clone();
        let o = *opts;
        st.nontrivial(hash_of(&(o.letters(), &t)), move || {
            json!({"opts": o.letters(), "events": t.iter().take(40).map(gen::ev_to_string).collect::<Vec<_>>()})
        });
    }
    result
}

fn sweep_words() -> Vec<String> {
    let p = gen::pools();
    let mut w: Vec<String> = gen::HAND_PHONETIC.iter().filter(|s| s.chars().all(|c| c.is_ascii_alphanumeric())).map(|s| s.to_string()).collect();
    w.extend(p.ac_keys.iter().step_by(6).cloned());
    w
}

fn sweep(run: &Run) {
    let words = sweep_words();
    run.exhaustive(
        "selection-x-punctuation-sweep",
        &words,
        |_| {
            let sb = Sandbox::new();
            let opts = Opts::parse("sq");
            let ctx = Ctx::new(opts, &sb).expect("context");
            (sb, ctx)
        },
        |w, st, (_sb, ctx)| {
            let opts = ctx.opts;
            let _ = ctx.finish();
            let base = match ctx.type_text(w) {
                Ok(Some(r)) => r,
                _ => return Ok(()),
            };
            if base.lonely {
                return Ok(());
            }
            let n = base.cands.len();
            if n >= 3 {
                st.label("sweep-word-with-list>=3");
            }
            for sel in 0..n.min(256) {
                for c in SEL_PRESERVING.chars() {
                    st.evals(1);
                    let case = || json!({"opts": opts.letters(), "sweep_word": w, "selection": sel, "key": c.to_string()});
                    let r = ctx.ch(c, sel as u8).map_err(|p| Failure::new(panic_kind(&p), p.to_string(), case()))?;
                    let expected = format!("{w}{c}");
                    check_suggestion(run, st, &r, &opts, Some(c), sel as u8, Some(&expected), &case)?;
                    if n >= 3 && sel > 0 {
                        st.nontrivial(hash_of(&(w, sel, c)), case);
                    }
                    let back = ctx.backspace(false).map_err(|p| Failure::new(panic_kind(&p), p.to_string(), case()))?;
                    check_suggestion(run, st, &back, &opts, None, 0, Some(w), &case)?;
                }
            }
            Ok(())
        },
    );
}

/// Fixed layouts: ALL key sequences of length <= 3 over a 20-symbol alphabet of the synthetic layout, each
/// typed into a method object that has never composed anything (update-engine to another layout and back
/// creates one), suggestions on, x 16 settings of {old vowel-sign order, auto vowel, traditional joining,
/// old reph}.  Every returned suggestion gets the full C02 read-out with the suggestions-off twin.
fn fixed_short_sequences(run: &Run) {
    use crate::driver::{layout_inverse, Layout};
    let inv = layout_inverse(Layout::Synthetic);
    let vals = [
        "\u{09B0}", "\u{0995}", "\u{0985}", "\u{0987}", "\u{09BE}", "\u{09BF}", "\u{09C7}", "\u{09C1}", "\u{09CC}", "\u{09CD}", "\u{0981}", "\u{09D7}", "!", "\u{09E7}",
        "\u{0982}", "\u{200C}", model::ZOFOLA, model::ROFOLA, model::REPH, "'",
    ];
    let ks: Vec<(u16, u8)> = vals.iter().map(|v| *inv.get(*v).unwrap_or_else(|| panic!("synthetic layout lacks {v:?}"))).collect();
    let n = ks.len();
    let mut items = vec![];
    for bits in 0..16u32 {
        for first in 0..n {
            items.push((bits, first));
        }
    }
    run.exhaustive(
        "fixed-short-sequences-from-a-fresh-method",
        &items,
        |_| (Sandbox::new(), Sandbox::new()),
        |&(bits, first), st, (sb, sb2)| {
            let mut opts = Opts::parse("Sfe");
            opts.karorder = bits & 1 != 0;
            opts.vowel = bits & 2 != 0;
            opts.kar = bits & 4 != 0;
            opts.reph = bits & 8 != 0;
            let mut other = opts;
            other.layout = Layout::Probhat;
            let mut ctx = Ctx::new(opts, sb).map_err(|p| Failure::new(panic_kind(&p), p.to_string(), json!({})))?;
            let mut to = opts;
            to.fsug = false;
            to.nodata = true;
            let twin = Ctx::new(to, sb2).map_err(|p| Failure::new(panic_kind(&p), p.to_string(), json!({})))?;
            for code in 0..(n * n + n + 1) {
                // sequences: [first], [first, a], [first, a, b]
                let seq: Vec<usize> = if code == 0 { vec![first] } else if code <= n { vec![first, code - 1] } else { vec![first, (code - n - 1) / n, (code - n - 1) % n] };
                let case = || json!({"opts": opts.letters(), "fresh_method_sequence": seq.iter().map(|i| vals[*i]).collect::<Vec<_>>()});
                let pf = |p: crate::driver::PanicInfo| Failure::new(panic_kind(&p), p.to_string(), case());
                ctx.update(other, sb).map_err(pf)?;
                ctx.update(opts, sb).map_err(pf)?;
                twin.finish().map_err(pf)?;
                for i in &seq {
                    let (c, m) = ks[*i];
                    let r = ctx.key(c, m, 0).map_err(pf)?;
                    let t = twin.key(c, m, 0).map_err(pf)?;
                    st.evals(1);
                    check_suggestion(run, st, &r, &opts, None, 0, Some(&t.text), &case)?;
                }
                let back = ctx.backspace(false).map_err(pf)?;
                let tb = twin.backspace(false).map_err(pf)?;
                check_suggestion(run, st, &back, &opts, None, 0, if back.lonely { None } else { Some(&tb.text) }, &case)?;
            }
            st.label("fresh-method-sequences");
            Ok(())
        },
    );
}

/// A learned LOW-RANKED choice for a base, then base + suffix key: the preselected index is derived from the base's
/// choice and the suffix, and it must lie inside the list that is actually returned (lists of up to ~25 candidates).
fn learned_low_rank_then_suffix(run: &Run) {
    // bases with long lists, found by typing (deterministic): the hand pool + dictionary-guided spellings
    let pool: Vec<String> = ["kor", "bon", "jao", "ar", "kal", "tar", "mon", "din", "bol", "por", "sob", "kot"].iter().map(|s| s.to_string()).chain(gen::guided_bases().iter().step_by(9).map(|(s, _)| s.clone())).collect();
    // the shortest suffix keys give the longest lists (most bases' candidates survive the join)
    let mut sk: Vec<String> = gen::pools().suffix_keys.clone();
    sk.sort_by_key(|s| (s.len(), s.clone()));
    sk.truncate(40);
    let sk = &sk;
    let items: Vec<(usize, usize)> = (0..pool.len()).flat_map(|b| (0..3usize).map(move |k| (b, k))).collect();
    run.exhaustive(
        "learned-low-ranked-choice-then-suffix",
        &items,
        |_| (),
        |&(bi, k), st, _| {
            let base = &pool[bi];
            let opts = Opts::parse(if k == 1 { "se" } else { "s" });
            let case0 = || json!({"opts": opts.letters(), "learned_low_rank": {"base": base}});
            let pf = |p: crate::driver::PanicInfo| Failure::new(panic_kind(&p), p.to_string(), case0());
            let probe = Ctx::new(opts, &Sandbox::new()).map_err(pf)?;
            let n = probe.type_frontend(base).map_err(pf)?.map(|r| r.choices()).unwrap_or(0);
            probe.finish().map_err(pf)?;
            if n < 6 {
                return Ok(());
            }
            // learn index n-1-k' for a few k', then type base+suffix for 10 suffix keys, every rendering checked
            for back in [0usize, 1, 3] {
                let idx = n - 1 - back;
                let sb = Sandbox::new();
                let ctx = Ctx::new(opts, &sb).map_err(pf)?;
                let l = ctx.type_frontend(base).map_err(pf)?.unwrap();
                if idx == l.sel || idx >= l.cands.len() {
                    ctx.finish().map_err(pf)?;
                    continue;
                }
                ctx.commit(idx).map_err(pf)?;
                for j in 0..14usize {
                    let s = &sk[(bi * 7 + j * 3 + k * 11 + back) % sk.len()];
                    let text = format!("{base}{s}");
                    let case = || json!({"opts": opts.letters(), "learned_low_rank": {"base": base, "index": idx, "suffix": s}});
                    let mut sel = 0u8;
                    let mut typed = String::new();
                    for ch in text.chars() {
                        typed.push(ch);
                        let r = ctx.ch(ch, sel).map_err(pf)?;
                        st.evals(1);
                        check_suggestion(run, st, &r, &opts, Some(ch), sel, Some(&typed), &case)?;
                        if !r.lonely && r.cands.len() > 16 {
                            st.label("list-longer-than-16-with-a-learned-base");
                        }
                        if !r.lonely && r.cands.len() > 9 {
                            st.label("list-longer-than-9-with-a-learned-base");
                        }
                        sel = if r.lonely { 0 } else { r.sel.min(255) as u8 };
                    }
                    ctx.finish().map_err(pf)?;
                }
                st.nontrivial(hash_of(&(base, idx, k)), || json!({"base": base, "learned_index": idx, "of": n}));
            }
            Ok(())
        },
    );
    run.require_label("list-longer-than-16-with-a-learned-base", 20);
    run.require_label("list-longer-than-9-with-a-learned-base", 200);
}

/// The user's auto-correct list puts arbitrary text at the head of a list: ASCII that is transliterated, Bengali,
/// an emoji, a symbol, an empty string.  For a few words x such values x the option sets with and without ANSI and
/// English, EVERY candidate index is learned in turn and the word typed again (and with a closing punctuation key):
/// every rendering gets the full read-out.
fn user_values_learned(run: &Run) {
    let words = ["hasi", "abc", "ami"];
    let vals = ["kkk", "\u{1F600}", "\u{09AC}\u{09BE}\u{0982}\u{09B2}\u{09BE}", "\u{2764}\u{FE0F} ok", "", "a:b"];
    let optsets = ["s", "se", "sa", "sea", "sq"];
    let mut items = vec![];
    for w in 0..words.len() {
        for v in 0..vals.len() {
            for o in 0..optsets.len() {
                items.push((w, v, o));
            }
        }
    }
    run.exhaustive(
        "user-auto-correct-values-learned-at-every-index",
        &items,
        |_| (),
        |&(w, v, o), st, _| {
            let (word, val, opts) = (words[w], vals[v], Opts::parse(optsets[o]));
            for idx in 0..12usize {
                let case = || json!({"opts": opts.letters(), "user_value_learned": {"word": word, "value": val, "index": idx}});
                let pf = |p: crate::driver::PanicInfo| Failure::new(panic_kind(&p), p.to_string(), case());
                let sb = Sandbox::new();
                std::fs::write(sb.autocorrect_file(), json!({ word: val }).to_string()).expect("user ac");
                let ctx = Ctx::new(opts, &sb).map_err(pf)?;
                let l = ctx.type_frontend(word).map_err(pf)?.unwrap();
                if l.lonely || idx >= l.cands.len() {
                    break;
                }
                ctx.commit(idx).map_err(pf)?;
                for text in [word.to_string(), format!("{word}."), format!("({word})")] {
                    let (mut sel, mut typed) = (0u8, String::new());
                    for ch in text.chars() {
                        typed.push(ch);
                        let r = ctx.ch(ch, sel).map_err(pf)?;
                        st.evals(1);
                        check_suggestion(run, st, &r, &opts, Some(ch), sel, Some(&typed), &case)?;
                        sel = if r.lonely { 0 } else { r.sel.min(255) as u8 };
                    }
                    ctx.finish().map_err(pf)?;
                }
                st.label("user-value-learned-and-retyped");
            }
            Ok(())
        },
    );
    run.require_label("user-value-learned-and-retyped", 300);
}

/// A learned choice on display, then ANY of the 32 marks: word (emoticons with their literal, names with emoji, plain
/// words) x every candidate index learned x every mark typed behind the re-typed word with the front-end's selection
/// byte.  The list shrinks or changes under the mark; the preselected index must follow it.
fn learned_choice_then_every_mark(run: &Run) {
    let words = ["xD", ":)", "smile", "cool", "a", "ami", "sesh", "8D", "help", "kotha", "+1", "<3"];
    let marks: Vec<char> = "-]~!@#%&*()_=+[{}'\";<>/?|.,:`^$\\".chars().collect();
    let items: Vec<(usize, usize)> = (0..words.len()).flat_map(|w| (0..3usize).map(move |o| (w, o))).collect();
    run.exhaustive(
        "learned-choice-on-display-then-every-mark",
        &items,
        |_| (),
        |&(wi, oi), st, _| {
            let word = words[wi];
            let opts = Opts::parse(["s", "se", "sq"][oi]);
            let sb = Sandbox::new();
            let case0 = || json!({"opts": opts.letters(), "learned_then_mark": {"word": word}});
            let pf0 = |p: crate::driver::PanicInfo| Failure::new(panic_kind(&p), p.to_string(), case0());
            let ctx = Ctx::new(opts, &sb).map_err(pf0)?;
            let n = match ctx.type_frontend(word).map_err(pf0)? {
                Some(r) if !r.lonely => r.cands.len(),
                _ => return Ok(()),
            };
            ctx.finish().map_err(pf0)?;
            for idx in 0..n.min(8) {
                ctx.type_frontend(word).map_err(pf0)?;
                ctx.commit(idx).map_err(pf0)?;
                for &mk in &marks {
                    let case = || json!({"opts": opts.letters(), "learned_then_mark": {"word": word, "index": idx, "mark": mk.to_string()}});
                    let pf = |p: crate::driver::PanicInfo| Failure::new(panic_kind(&p), p.to_string(), case());
                    let r = ctx.type_frontend(word).map_err(pf)?.unwrap();
                    let sel = if r.lonely { 0 } else { r.sel.min(255) as u8 };
                    let r2 = ctx.ch(mk, sel).map_err(pf)?;
                    st.evals(1);
                    let expected = format!("{word}{mk}");
                    check_suggestion(run, st, &r2, &opts, Some(mk), sel, Some(&expected), &case)?;
                    ctx.finish().map_err(pf)?;
                }
            }
            st.label("learned-choice-then-every-mark");
            st.nontrivial(hash_of(&("learned-then-mark", wi, oi)), || json!({"opts": opts.letters(), "word": word, "indices_learned": n.min(8)}));
            Ok(())
        },
    );
}

pub fn run(run: &Run) {
    learned_choice_then_every_mark(run);
    fixed_short_sequences(run);
    learned_low_rank_then_suffix(run);
    user_values_learned(run);
    sweep(run);
    let (shards, cases) = match run.tier {
        Tier::Quick => (16, 600),
        Tier::Thorough => (16, 12000),
    };
    run.sharded(
        "histories",
        shards,
        cases,
        600,
        || case_strategy(60),
        |_| (),
        |(opts, ops): &(Opts, Vec<AbsOp>), st, _| run_history(run, opts, ops, st),
    );
    run.require_label("list>=3-after-punct-with-selection", 5);
    run.require_label("backspace-returned-list", 5);
}

pub fn replay(run: &Run, case: &Value) -> Result<(), Failure> {
    let mut st = Stats::new();
    let opts = Opts::parse(case["opts"].as_str().unwrap_or_default());
    if let Some(l) = case.get("learned_then_mark") {
        let pf = |p: crate::driver::PanicInfo| Failure::new(panic_kind(&p), p.to_string(), case.clone());
        let (word, idx) = (l["word"].as_str().unwrap_or_default(), l["index"].as_u64().unwrap_or(0) as usize);
        let mk = l["mark"].as_str().and_then(|m| m.chars().next()).unwrap_or('*');
        let sb = Sandbox::new();
        let ctx = Ctx::new(opts, &sb).map_err(pf)?;
        ctx.type_frontend(word).map_err(pf)?;
        ctx.commit(idx).map_err(pf)?;
        let r = ctx.type_frontend(word).map_err(pf)?.unwrap();
        let sel = if r.lonely { 0 } else { r.sel.min(255) as u8 };
        let r2 = ctx.ch(mk, sel).map_err(pf)?;
        return check_suggestion(run, &mut st, &r2, &opts, Some(mk), sel, Some(&format!("{word}{mk}")), &|| case.clone());
    }
    if let Some(u) = case.get("user_value_learned") {
        let pf = |p: crate::driver::PanicInfo| Failure::new(panic_kind(&p), p.to_string(), case.clone());
        let (word, val, idx) = (u["word"].as_str().unwrap_or_default(), u["value"].as_str().unwrap_or_default(), u["index"].as_u64().unwrap_or(0) as usize);
        let sb = Sandbox::new();
        std::fs::write(sb.autocorrect_file(), json!({ word: val }).to_string()).expect("user ac");
        let ctx = Ctx::new(opts, &sb).map_err(pf)?;
        let l = ctx.type_frontend(word).map_err(pf)?.unwrap();
        if idx < l.cands.len() {
            ctx.commit(idx).map_err(pf)?;
        } else {
            ctx.finish().map_err(pf)?;
        }
        for text in [word.to_string(), format!("{word}."), format!("({word})")] {
            let (mut sel, mut typed) = (0u8, String::new());
            for ch in text.chars() {
                typed.push(ch);
                let r = ctx.ch(ch, sel).map_err(pf)?;
                check_suggestion(run, &mut st, &r, &opts, Some(ch), sel, Some(&typed), &|| case.clone())?;
                sel = if r.lonely { 0 } else { r.sel.min(255) as u8 };
            }
            ctx.finish().map_err(pf)?;
        }
        return Ok(());
    }
    if let Some(ll) = case.get("learned_low_rank") {
        let pf = |p: crate::driver::PanicInfo| Failure::new(panic_kind(&p), p.to_string(), case.clone());
        let (base, idx, s) = (ll["base"].as_str().unwrap_or_default(), ll["index"].as_u64().unwrap_or(0) as usize, ll["suffix"].as_str().unwrap_or_default());
        let sb = Sandbox::new();
        let ctx = Ctx::new(opts, &sb).map_err(pf)?;
        let l = ctx.type_frontend(base).map_err(pf)?.unwrap();
        if idx < l.cands.len() {
            ctx.commit(idx).map_err(pf)?;
        } else {
            ctx.finish().map_err(pf)?;
        }
        let (mut sel, mut typed) = (0u8, String::new());
        for ch in format!("{base}{s}").chars() {
            typed.push(ch);
            let r = ctx.ch(ch, sel).map_err(pf)?;
            check_suggestion(run, &mut st, &r, &opts, Some(ch), sel, Some(&typed), &|| case.clone())?;
            sel = if r.lonely { 0 } else { r.sel.min(255) as u8 };
        }
        return Ok(());
    }
    if let Some(seq) = case["fresh_method_sequence"].as_array() {
        use crate::driver::{layout_inverse, Layout};
        let inv = layout_inverse(Layout::Synthetic);
        let (sb, sb2) = (Sandbox::new(), Sandbox::new());
        let mut other = opts;
        other.layout = Layout::Probhat;
        let mut ctx = Ctx::new(opts, &sb).map_err(|p| Failure::new(panic_kind(&p), p.to_string(), case.clone()))?;
        let mut to = opts;
        to.fsug = false;
        to.nodata = true;
        let twin = Ctx::new(to, &sb2).map_err(|p| Failure::new(panic_kind(&p), p.to_string(), case.clone()))?;
        let pf = |p: crate::driver::PanicInfo| Failure::new(panic_kind(&p), p.to_string(), case.clone());
        ctx.update(other, &sb).map_err(pf)?;
        ctx.update(opts, &sb).map_err(pf)?;
        for v in seq {
            if let Some((c, m)) = inv.get(v.as_str().unwrap_or_default()) {
                let r = ctx.key(*c, *m, 0).map_err(pf)?;
                let t = twin.key(*c, *m, 0).map_err(pf)?;
                check_suggestion(run, &mut st, &r, &opts, None, 0, Some(&t.text), &|| case.clone())?;
            }
        }
        return Ok(());
    }
    if let Some(w) = case["sweep_word"].as_str() {
        let sb = Sandbox::new();
        let ctx = Ctx::new(opts, &sb).map_err(|p| Failure::new(panic_kind(&p), p.to_string(), case.clone()))?;
        let sel = case["selection"].as_u64().unwrap_or(0) as u8;
        let c = case["key"].as_str().and_then(|s| s.chars().next()).unwrap_or('.');
        let _ = ctx.type_text(w);
        let r = ctx.ch(c, sel).map_err(|p| Failure::new(panic_kind(&p), p.to_string(), case.clone()))?;
        return check_suggestion(run, &mut st, &r, &opts, Some(c), sel, Some(&format!("{w}{c}")), &|| case.clone());
    }
    // concrete trace: wrap each event as a fixed abstract op
    let events: Vec<Ev> = serde_json::from_value(case["events"].clone()).unwrap_or_default();
    replay_events(run, &opts, &events, &mut st)
}

/// Re-execute a concrete trace with the same per-event checks.
pub fn replay_events(run: &Run, opts: &Opts, events: &[Ev], st: &mut Stats) -> Result<(), Failure> {
    let sb = Sandbox::new();
    let mut it = Interp::new(*opts, &sb).map_err(|p| Failure::new(panic_kind(&p.info), p.info.to_string(), json!({})))?;
    let mut obs = Obs::new(opts);
    for ev in events {
        match it.exec(ev.clone(), &mut |s: &Step| obs.step(run, st, s)) {
            Ok(Ok(())) => {}
            Ok(Err(f)) => return Err(f),
            Err(p) => return Err(Failure::new(panic_kind(&p.info), format!("event #{}: {}", p.at, p.info), json!({}))),
        }
    }
    Ok(())
}
