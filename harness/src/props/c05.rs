//! C05 — suggestions depend only on the surviving typed text, not on typing history.

use crate::driver::{Ctx, Opts, Rendered, Sandbox};
use crate::gen::pools;
use crate::model::ref_split;
use crate::props::c01::panic_kind;
use crate::runner::{hash_of, Failure, Run, Stats};
use proptest::prelude::*;
use serde::{Deserialize, Serialize};
use serde_json::{json, Value};

pub const LEVEL: &str = "exploration";
pub const EXHAUSTIVE: bool = false;
pub const RULE: &str = "generated case = (phonetic options, learned-selection store built through the API before the case: 0..3 real non-preselected commits on the word / a prefix / the suffixed word, optional user auto-correct file, target text T = wrapper + base [+ suffix key] + wrapper or an arbitrary string, final selection byte, edit script that reaches T[..n-1] through junk-then-backspace bursts and delete-and-retype steps, warm-up of 0..5 words typed before (proper prefixes, extensions, case variants, other suffixes of T's word, unrelated words; each finished or committed at the preselected index), interleaving plan for a second context in the same thread). Oracle (differential): the complete rendering (variant, auxiliary text, ordered candidates, preselected index, every pre-edit text) returned by the final key in the warm/edited/interleaved context equals the rendering in a brand-new context that types T directly with the same final selection byte; store file unchanged by the case. Non-trivial: the word part has >= 3 characters and the script contains a backspace or a warm-up word related to T; distinct by (options, store, T, script, warm-up). In the long-lived part a share of the cases first lets the user's auto-correct list gain an entry for the target's word and lose / change it again (update-engine while idle after each edit); the brand-new context is created over the files in force when the target is typed. Plus a data-file part: the bundled data are copied to a scratch directory, a context is created over it and used, the three data files are rewritten in place (the probe words' entries taken out) and copied byte for byte to a second directory; a brand-new context over the first directory and one over the second must agree on every rendering (8 variants).";
pub const ASSUMPTIONS: &[&str] = &[
    "configuration, data files, user files and the final selection byte are identical in both runs",
    "contexts are not Send: same-thread interleaving is the whole schedule space",
    "warm-up commits use the preselected index, which by C09 changes nothing",
];

#[derive(Clone, Debug, Serialize, Deserialize, Hash)]
pub enum Warm {
    Prefix(u8),
    Extension(String),
    CaseVariant(u8),
    OtherSuffix(u16),
    Unrelated(u16),
    WordAlone,
    /// the target's word in another wrapper
    Rewrapped(u8),
}

#[derive(Clone, Debug, Serialize, Deserialize, Hash)]
pub struct Case {
    pub optbits: u8,
    pub lead: String,
    pub base: String,
    pub suffix: String,
    pub trail: String,
    pub raw: Option<String>,
    /// (what: 0 base, 1 prefix of base, 2 base+suffix ; candidate fraction)
    pub learn: Vec<(u8, u16)>,
    pub user_ac: Option<(u8, String)>,
    pub warm: Vec<(Warm, bool)>,
    /// per position: junk typed then erased, retype flag
    pub script: Vec<(String, bool)>,
    pub final_sel: u8,
    pub mid_sel: u8,
    /// (position in the event stream modulo, word for the second context)
    pub interleave: Vec<(u8, u16)>,
}

impl Case {
    fn opts(&self) -> Opts {
        let mut o = Opts::parse("");
        o.english = self.optbits & 1 != 0;
        o.smart = self.optbits & 2 != 0;
        o.ansi = self.optbits & 4 != 0;
        o.psug = self.optbits & 0x38 != 0; // 7 of 8
        o
    }
    fn word(&self) -> String {
        format!("{}{}", self.base, self.suffix)
    }
    fn target(&self) -> String {
        match &self.raw {
            Some(r) => r.clone(),
            None => format!("{}{}{}{}", self.lead, self.base, self.suffix, self.trail),
        }
    }
}

fn warm_text(c: &Case, w: &Warm) -> String {
    let word = if c.raw.is_some() { ref_split(&c.target(), false).1 } else { c.word() };
    let p = pools();
    match w {
        Warm::Prefix(k) => {
            let n = word.chars().count();
            if n < 2 {
                return word;
            }
            word.chars().take(1 + (*k as usize) % (n - 1)).collect()
        }
        Warm::Extension(e) => format!("{word}{e}"),
        Warm::CaseVariant(k) => {
            let cs: Vec<char> = word.chars().collect();
            if cs.is_empty() {
                return word;
            }
            let i = (*k as usize) % cs.len();
            cs.iter()
                .enumerate()
                .map(|(j, ch)| if j == i { if ch.is_ascii_lowercase() { ch.to_ascii_uppercase() } else { ch.to_ascii_lowercase() } } else { *ch })
                .collect()
        }
        Warm::OtherSuffix(i) => format!("{}{}", c.base, p.suffix_keys[*i as usize % p.suffix_keys.len()]),
        Warm::Unrelated(i) => p.phonetic[*i as usize % p.phonetic.len()].clone(),
        Warm::WordAlone => word,
        Warm::Rewrapped(k) => {
            let (l, t) = [("(", ")"), ("\"", "\""), ("'", ""), ("", "."), ("[", "]!"), ("-", "?"), ("\"(", ""), ("{", "}:")][*k as usize % 8];
            format!("{l}{word}{t}")
        }
    }
}

fn fail(kind: &str, msg: String, c: &Case) -> Failure {
    Failure::new(kind, msg, serde_json::to_value(c).unwrap())
}

pub fn run_case(c: &Case, st: &mut Stats) -> Result<(), Failure> {
    let opts = c.opts();
    let target = c.target();
    if target.is_empty() || !target.chars().all(|ch| crate::driver::keys().has_char(ch)) {
        return Ok(());
    }
    let pf = |p: crate::driver::PanicInfo| fail(&panic_kind(&p), p.to_string(), c);
    let sb = Sandbox::new();
    // user auto-correct file
    if let Some((which, val)) = &c.user_ac {
        let key = match which % 3 {
            0 => c.word(),
            1 => c.base.clone(),
            _ => c.base.chars().take(2).collect(),
        };
        if !key.is_empty() {
            std::fs::write(sb.autocorrect_file(), serde_json::to_string(&json!({ key: val })).unwrap()).expect("user ac");
            st.label("with-user-autocorrect");
        }
    }
    // build the learned-selection store through the API (real commits)
    if !c.learn.is_empty() && c.raw.is_none() {
        let mut lo = opts;
        lo.psug = true;
        let setup = Ctx::new(lo, &sb).map_err(pf)?;
        for (what, frac) in &c.learn {
            let w = match what % 3 {
                0 => c.base.clone(),
                1 => c.base.chars().take((c.base.chars().count() + 1) / 2).collect(),
                _ => c.word(),
            };
            if w.is_empty() {
                continue;
            }
            if let Some(r) = setup.type_frontend(&w).map_err(pf)? {
                if !r.lonely && !r.cands.is_empty() {
                    let i = ((*frac as usize) * r.cands.len()) >> 16;
                    setup.commit(i).map_err(pf)?;
                    continue;
                }
            }
            setup.finish().map_err(pf)?;
        }
    }
    let store_before = sb.parsed_selections();
    if store_before.as_ref().map(|m| !m.is_empty()).unwrap_or(false) {
        st.label("store-populated");
    }
    // reference: brand-new context types T directly
    let fresh = Ctx::new(opts, &sb).map_err(pf)?;
    let chars: Vec<char> = target.chars().collect();
    let n = chars.len();
    let mut expect: Option<Rendered> = None;
    for (i, ch) in chars.iter().enumerate() {
        let sel = if i + 1 == n { c.final_sel } else { 0 };
        expect = Some(fresh.ch(*ch, sel).map_err(pf)?);
    }
    let expect = expect.unwrap();
    // warm context
    let warm = Ctx::new(opts, &sb).map_err(pf)?;
    let other = if c.interleave.is_empty() { None } else { Some(Ctx::new(opts, &sb).map_err(pf)?) };
    let mut tick = 0usize;
    let p = pools();
    let interleave = |tick: &mut usize| -> Result<(), Failure> {
        *tick += 1;
        if let Some(o) = &other {
            for (pos, wi) in &c.interleave {
                if *tick % 7 == (*pos as usize) % 7 {
                    let w = if wi % 3 == 0 { c.word() } else { p.phonetic[*wi as usize % p.phonetic.len()].clone() };
                    o.type_text(&w).map_err(pf)?;
                    if wi % 2 == 0 {
                        o.finish().map_err(pf)?;
                    }
                }
            }
        }
        Ok(())
    };
    let mut related_warm = false;
    for (w, commit) in &c.warm {
        let text = warm_text(c, w);
        if text.is_empty() || !text.chars().all(|ch| crate::driver::keys().has_char(ch)) {
            continue;
        }
        if !matches!(w, Warm::Unrelated(_)) {
            related_warm = true;
        }
        let r = warm.type_frontend(&text).map_err(pf)?;
        interleave(&mut tick)?;
        // commit the preselected index only when the word ends in a letter or digit: after a
        // selection-preserving punctuation key the reported index is the caller's byte, not the
        // engine's own preselection (known finding of C02/C09), and the commit could learn
        let plain_end = text.chars().last().map(|ch| ch.is_ascii_alphanumeric()).unwrap_or(false);
        match (&r, commit) {
            (Some(r), true) if plain_end && !r.lonely && r.sel < r.cands.len() => warm.commit(r.sel).map_err(pf)?,
            _ => warm.finish().map_err(pf)?,
        }
    }
    let mut backspaces = 0;
    // "the characters that survive": in a quarter of the cases the warm context presses the NUMBER-PAD key for every
    // character that has one (digits . + - * / =) - another key code, the same character
    let pad = c.mid_sel == 3 && target.chars().any(|ch| crate::driver::keys().numpad_code_for(ch).is_some());
    if pad {
        st.label("warm-context-uses-number-pad-keys");
    }
    let wk = |ch: char, sel: u8| {
        let k = crate::driver::keys();
        let code = if pad { k.numpad_code_for(ch).unwrap_or_else(|| k.code_for(ch)) } else { k.code_for(ch) };
        warm.key(code, 0, sel)
    };
    for (i, ch) in chars.iter().enumerate().take(n - 1) {
        let (junk, retype) = &c.script[i % c.script.len()];
        for j in junk.chars() {
            warm.ch(j, c.mid_sel).map_err(pf)?;
        }
        for _ in junk.chars() {
            warm.backspace(false).map_err(pf)?;
            backspaces += 1;
        }
        if i == 0 && !junk.is_empty() {
            // erasing everything ends the word; nothing else to do, the next key starts it again
        }
        wk(*ch, c.mid_sel).map_err(pf)?;
        if *retype && i > 0 {
            warm.backspace(false).map_err(pf)?;
            backspaces += 1;
            wk(*ch, 0).map_err(pf)?;
        }
        interleave(&mut tick)?;
    }
    // junk before the final key as well
    let (junk, _) = &c.script[(n - 1) % c.script.len()];
    if n > 1 {
        for j in junk.chars() {
            warm.ch(j, c.mid_sel).map_err(pf)?;
        }
        for _ in junk.chars() {
            warm.backspace(false).map_err(pf)?;
            backspaces += 1;
        }
    }
    let got = wk(chars[n - 1], c.final_sel).map_err(pf)?;
    if got != expect {
        return Err(fail(
            "history-dependent-suggestion",
            format!("text {target:?} ({}): warm/edited context shows {} but a brand-new context shows {}", opts.letters(), got.short(), expect.short()),
            c,
        ));
    }
    if sb.parsed_selections() != store_before {
        // the differential is only meaningful with the store held fixed; what changes the store is C09's business
        st.skip("case-invalid-store-changed");
        return Ok(());
    }
    let word = ref_split(&target, false).1;
    if backspaces > 0 {
        st.label("script-has-backspace");
    }
    if related_warm {
        st.label("related-warm-up");
    }
    if other.is_some() {
        st.label("interleaved-second-context");
    }
    if word.chars().count() >= 3 && (backspaces > 0 || related_warm) {
        st.nontrivial(hash_of(c), || json!({"opts": opts.letters(), "target": target, "warm": c.warm.iter().map(|(w, _)| warm_text(c, w)).collect::<Vec<_>>(), "store": store_before, "list": expect.cands}));
    }
    Ok(())
}

pub fn strategy() -> impl Strategy<Value = Case> {
    let p = pools();
    let letters: Vec<char> = "aaeiioukhgnrtsdlmbpcjyzwvfxqOTDNSR".chars().collect();
    let punct: Vec<char> = "-]~!@#%&*()_=+[{}'\";<>/?|.,:`".chars().collect();
    let any94: Vec<char> = crate::driver::typeable();
    let junkc: Vec<char> = "aeioukgtnrs.:`'(x1".chars().collect();
    let base = prop_oneof![
        3 => proptest::sample::select(p.ac_keys.clone()),
        2 => proptest::sample::select(vec!["onno", "ami", "sesh", "kkhet", "form", "format", "atm", "computer", "hothat", "ebong", "a", "i", "as", "apn", "park", "smile", "bangla"].into_iter().map(String::from).collect::<Vec<_>>()),
        2 => proptest::collection::vec(proptest::sample::select(letters.clone()), 1..6).prop_map(|v| v.into_iter().collect::<String>()),
    ];
    let sfx = prop_oneof![2 => Just(String::new()), 3 => proptest::sample::select(p.suffix_keys.clone())];
    let wrap = || proptest::collection::vec(proptest::sample::select(punct.clone()), 0..3).prop_map(|v| v.into_iter().collect::<String>());
    let wr = prop_oneof![3 => Just((String::new(), String::new())), 2 => (wrap(), wrap())];
    let raw = prop_oneof![5 => Just(None), 1 => proptest::collection::vec(proptest::sample::select(any94), 1..10).prop_map(|v| Some(v.into_iter().collect::<String>()))];
    let warm_one = prop_oneof![
        2 => any::<u8>().prop_map(Warm::Prefix),
        2 => proptest::collection::vec(proptest::sample::select(letters.clone()), 1..3).prop_map(|v| Warm::Extension(v.into_iter().collect())),
        2 => any::<u8>().prop_map(Warm::CaseVariant),
        2 => any::<u16>().prop_map(Warm::OtherSuffix),
        1 => any::<u16>().prop_map(Warm::Unrelated),
        1 => Just(Warm::WordAlone),
        2 => any::<u8>().prop_map(Warm::Rewrapped),
    ];
    let warm = proptest::collection::vec((warm_one, any::<bool>()), 0..5);
    let script_item = (
        prop_oneof![3 => Just(String::new()), 2 => proptest::collection::vec(proptest::sample::select(junkc), 1..4).prop_map(|v| v.into_iter().collect::<String>())],
        proptest::bool::weighted(0.15),
    );
    let script = proptest::collection::vec(script_item, 4..10);
    let learn = proptest::collection::vec((0u8..3, any::<u16>()), 0..3);
    let user_ac = prop_oneof![4 => Just(None), 1 => (any::<u8>(), proptest::sample::select(vec!["kkk".to_string(), "Onyo".to_string(), "amader".to_string(), "\u{2705}".to_string(), "\u{1f600} ok".to_string(), "\u{0995}\u{09a5}\u{09be}".to_string(), ":)".to_string()])).prop_map(Some)];
    let inter = proptest::collection::vec((any::<u8>(), any::<u16>()), 0..3);
    (
        (any::<u8>(), base, sfx, wr, raw),
        (learn, user_ac, warm, script),
        (prop_oneof![3 => Just(0u8), 2 => 0u8..10], 0u8..4, inter),
    )
        .prop_map(|((optbits, base, suffix, (lead, trail), raw), (learn, user_ac, warm, script), (final_sel, mid_sel, interleave))| Case {
            optbits,
            lead,
            base,
            suffix,
            trail,
            raw,
            learn,
            user_ac,
            warm,
            script,
            final_sel,
            mid_sel,
            interleave,
        })
}

/// "... or in one that has already composed any number of other words": one context per shard lives
/// through ALL cases of the shard (thousands of distinct word parts), its store is a fixed file and it
/// never learns; every target text is compared with a brand-new context over the same files.
pub struct LongLived {
    sb: Sandbox,
    opts: Opts,
    warm: Ctx,
    /// a second long-lived context over the SAME user directory ("while other contexts are being used in the same
    /// process"): it is told about every change of the user's list as well, and compared as well
    second: Ctx,
    texts: usize,
    clock: u64,
}

const FIXED_STORE: &str = "{\"onno\":\"\u{0985}\u{09A8}\u{09CD}\u{09AF}\",\"sesh\":\"\u{09B6}\u{09C7}\u{09B7}\",\"a\":\"\u{0986}\u{0983}\",\"park\":\"\u{09AA}\u{09BE}\u{09B0}\u{0995}\"}";

fn mk_long_lived(shard: usize) -> LongLived {
    let sb = Sandbox::new();
    std::fs::write(sb.selection_file(), FIXED_STORE).expect("store");
    let mut opts = Opts::parse("s");
    opts.english = shard & 1 != 0;
    opts.smart = shard & 2 != 0;
    opts.ansi = shard & 4 != 0 && shard & 8 != 0;
    let warm = Ctx::new(opts, &sb).expect("context");
    let second = Ctx::new(opts, &sb).expect("context");
    LongLived { sb, opts, warm, second, texts: 0, clock: 4_000_000 }
}

fn long_lived_case(c: &Case, lo: &mut LongLived, st: &mut Stats) -> Result<(), Failure> {
    let target = c.target();
    if target.is_empty() || !target.chars().all(|ch| crate::driver::keys().has_char(ch)) {
        return Ok(());
    }
    let pf = |p: crate::driver::PanicInfo| fail(&panic_kind(&p), p.to_string(), c);
    // "the data files" are an argument of the function too: in some cases the user's auto-correct list gains an
    // entry for the target's word, the long-lived context is told (update-engine, idle) and composes the word,
    // then the entry is taken out again (the file and another entry stay) and the context is told again.  What
    // counts is the list in force when the target is typed - the brand-new context below is created over it.
    if let Some((which, val)) = &c.user_ac {
        let key = match which % 3 {
            0 => c.word(),
            1 => c.base.clone(),
            _ => c.base.chars().take(2).collect(),
        };
        if !key.is_empty() && key.chars().all(|ch| ch.is_ascii_alphanumeric()) {
            // a user may write a key with punctuation around it ("dr."): whatever the engine makes of such a key, it must
            // make the same of it when the list is re-read by update-engine as when it is read at creation
            let key = match which % 7 {
                5 => format!("{key}."),
                6 => format!("({key}"),
                _ => key,
            };
            lo.warm.finish().map_err(pf)?;
            lo.clock += 100;
            let write = |doc: serde_json::Value, secs: u64| {
                std::fs::write(lo.sb.autocorrect_file(), doc.to_string()).expect("user ac");
                std::fs::File::options().write(true).open(lo.sb.autocorrect_file()).expect("open").set_modified(std::time::UNIX_EPOCH + std::time::Duration::from_secs(secs)).expect("mtime");
            };
            // every third time the list is edited while the context is away in a FIXED layout (update-engine there and
            // back): the phonetic side must not come back with what it knew before it left
            if which % 3 == 1 {
                let mut fixed = lo.opts;
                fixed.layout = crate::driver::Layout::Probhat;
                lo.warm.update(fixed, &lo.sb).map_err(pf)?;
                lo.warm.type_text("k").map_err(pf)?;
                lo.warm.finish().map_err(pf)?;
                st.label("long-lived-context-was-in-a-fixed-layout-while-the-user-list-changed");
            }
            write(json!({ key.clone(): val, "zzq": "boi" }), lo.clock);
            // both live contexts of this directory are told, in either order
            if which % 2 == 0 {
                lo.second.finish().map_err(pf)?;
                lo.second.update(lo.opts, &lo.sb).map_err(pf)?;
            }
            lo.warm.update(lo.opts, &lo.sb).map_err(pf)?;
            if which % 2 == 1 {
                lo.second.finish().map_err(pf)?;
                lo.second.update(lo.opts, &lo.sb).map_err(pf)?;
            }
            // the entry is in force from this update-engine on: compared at once with a brand-new context
            {
                let fresh_now = Ctx::new(lo.opts, &lo.sb).map_err(pf)?;
                for ch in target.chars() {
                    let a = lo.warm.ch(ch, 0).map_err(pf)?;
                    let b = fresh_now.ch(ch, 0).map_err(pf)?;
                    let a2 = lo.second.ch(ch, 0).map_err(pf)?;
                    if a2 != b {
                        return Err(fail(
                            "history-dependent-suggestion-long-lived-context",
                            format!("text {target:?} at {ch:?} ({}), right after the user's list gained {key:?} and both live contexts of the directory were told: the SECOND live context shows {} but a brand-new context shows {}", lo.opts.letters(), a2.short(), b.short()),
                            c,
                        ));
                    }
                    if a != b {
                        return Err(fail(
                            "history-dependent-suggestion-long-lived-context",
                            format!("text {target:?} at {ch:?} ({}), right after the user's list gained {key:?} and update-engine: long-lived context shows {} but a brand-new context shows {}", lo.opts.letters(), a.short(), b.short()),
                            c,
                        ));
                    }
                }
            }
            lo.warm.finish().map_err(pf)?;
            lo.second.finish().map_err(pf)?;
            // while the entry is in force the context also composes the word under ONE other option value
            // (ANSI, English, smart quotes or the list itself), and comes back
            {
                let mut other = lo.opts;
                match which % 4 {
                    0 => other.ansi = !other.ansi,
                    1 => other.english = !other.english,
                    2 => other.smart = !other.smart,
                    _ => other.psug = false,
                }
                lo.warm.update(other, &lo.sb).map_err(pf)?;
                // ... where it must show what a brand-new context with that option value shows
                let fresh_other = Ctx::new(other, &lo.sb).map_err(pf)?;
                for ch in target.chars() {
                    let a = lo.warm.ch(ch, 0).map_err(pf)?;
                    let b = fresh_other.ch(ch, 0).map_err(pf)?;
                    if a != b {
                        return Err(fail(
                            "history-dependent-suggestion-long-lived-context",
                            format!("text {target:?} at {ch:?} under {} (reached by update-engine from {}, user entry {key:?} in force): long-lived context shows {} but a brand-new context shows {}", other.letters(), lo.opts.letters(), a.short(), b.short()),
                            c,
                        ));
                    }
                }
                lo.warm.finish().map_err(pf)?;
                lo.warm.update(lo.opts, &lo.sb).map_err(pf)?;
                lo.warm.type_text(&target).map_err(pf)?;
                lo.warm.finish().map_err(pf)?;
                st.label("long-lived-context-composed-the-word-under-another-option-value-while-a-user-entry-was-in-force");
            }
            if which % 2 == 0 {
                write(json!({ "zzq": "boi" }), lo.clock + 10);
            } else {
                write(json!({ key.clone(): "kkk", "zzq": "boi" }), lo.clock + 10);
            }
            lo.warm.update(lo.opts, &lo.sb).map_err(pf)?;
            lo.second.update(lo.opts, &lo.sb).map_err(pf)?;
            st.label("long-lived-context-saw-the-user-list-change");
        }
    }
    let fresh = Ctx::new(lo.opts, &lo.sb).map_err(pf)?;
    lo.warm.finish().map_err(pf)?;
    let chars: Vec<char> = target.chars().collect();
    if c.mid_sel % 4 == 0 {
        // the long-lived context is away from the candidate list for a while (update-engine, idle): just before,
        // the first character of the target is composed and erased; while away another word is converted.  Whatever
        // the engine keeps for "the text it saw last" meets the same text again right after the return.
        lo.warm.ch(chars[0], 0).map_err(pf)?;
        lo.warm.backspace(false).map_err(pf)?;
        lo.warm.finish().map_err(pf)?;
        let mut off = lo.opts;
        let h = hash_of(&target);
        match h % 4 {
            0 | 1 => off.psug = false,
            2 => off.ansi = !off.ansi,
            _ => off.english = !off.english,
        }
        lo.warm.update(off, &lo.sb).map_err(pf)?;
        lo.warm.type_text(if c.base.is_empty() { "tumi" } else if (h / 4) % 2 == 0 { &c.base } else { &target }).map_err(pf)?;
        lo.warm.finish().map_err(pf)?;
        lo.warm.update(lo.opts, &lo.sb).map_err(pf)?;
        st.label("long-lived-context-was-away-from-the-list");
    }
    for (i, ch) in chars.iter().enumerate() {
        let sel = if i + 1 == chars.len() { c.final_sel } else { 0 };
        // junk-then-backspace bursts in the long-lived context only
        if i > 0 {
            let (junk, _) = &c.script[i % c.script.len()];
            for j in junk.chars() {
                lo.warm.ch(j, 0).map_err(pf)?;
            }
            for _ in junk.chars() {
                lo.warm.backspace(false).map_err(pf)?;
            }
        }
        let a = lo.warm.ch(*ch, sel).map_err(pf)?;
        let b = fresh.ch(*ch, sel).map_err(pf)?;
        if a != b {
            return Err(fail(
                "history-dependent-suggestion-long-lived-context",
                format!("text {:?} ({}), after {} other texts in this context: long-lived context shows {} but a brand-new context shows {}", &target[..=i.min(target.len() - 1)], lo.opts.letters(), lo.texts, a.short(), b.short()),
                c,
            ));
        }
    }
    lo.warm.finish().map_err(pf)?;
    lo.texts += 1;
    if lo.sb.read_selections().map(|b| b != FIXED_STORE.as_bytes()).unwrap_or(true) {
        st.skip("case-invalid-store-changed");
    }
    if lo.texts == 300 {
        st.label("long-lived-context-reached-300-texts");
    }
    let word = ref_split(&target, false).1;
    if word.chars().count() >= 3 && lo.texts > 50 {
        st.nontrivial(hash_of(&(lo.opts.letters(), &target, lo.texts)), || json!({"opts": lo.opts.letters(), "target": target, "texts_typed_before_in_this_context": lo.texts}));
    }
    Ok(())
}

/// The statement's own scenario for the selection byte, with the final character typed on the number pad: word x final
/// mark in {. - + * / =} x EVERY selection byte valid for the word's list; one context presses the number-pad key, a
/// brand-new one the main-block key for the same character.
fn final_key_on_the_number_pad(run: &Run) {
    let words = ["cool", "a", "ami", "smile", "sesh", "onno", "kotha", "help", "boi", "k"];
    let items: Vec<(usize, char)> = (0..words.len()).flat_map(|w| ".-+*/=1".chars().map(move |c| (w, c))).collect();
    run.exhaustive(
        "final-key-on-the-number-pad-x-every-selection-byte",
        &items,
        |_| Sandbox::new(),
        |&(wi, mark), st, sb| {
            let case = || json!({"final_key_on_number_pad": {"word": words[wi], "mark": mark.to_string()}});
            let pf = |p: crate::driver::PanicInfo| Failure::new(panic_kind(&p), p.to_string(), case());
            for opts in ["s", "sqe"] {
                let (a, b) = (Ctx::new(Opts::parse(opts), sb).map_err(pf)?, Ctx::new(Opts::parse(opts), sb).map_err(pf)?);
                let n = a.type_text(words[wi]).map_err(pf)?.map(|r| r.choices()).unwrap_or(0);
                a.finish().map_err(pf)?;
                let Some(pad) = crate::driver::keys().numpad_code_for(mark) else { continue };
                for sel in 0..n.min(12) {
                    a.type_text(words[wi]).map_err(pf)?;
                    b.type_text(words[wi]).map_err(pf)?;
                    let ra = a.key(pad, 0, sel as u8).map_err(pf)?;
                    let rb = b.ch(mark, sel as u8).map_err(pf)?;
                    a.finish().map_err(pf)?;
                    b.finish().map_err(pf)?;
                    st.evals(1);
                    if ra != rb {
                        return Err(Failure::new(
                            "history-dependent-suggestion",
                            format!("text {:?}{mark} ({opts}), selection byte {sel}: with the number-pad key {} but with the main-block key {}", words[wi], ra.short(), rb.short()),
                            case(),
                        ));
                    }
                }
            }
            st.label("final-key-on-the-number-pad");
            st.nontrivial(hash_of(&("pad", wi, mark)), || json!({"word": words[wi], "final_mark_on_number_pad": mark.to_string()}));
            Ok(())
        },
    );
}

/// The suggestion RETURNED BY A BACKSPACE is a suggestion for the surviving text too: text + one more character, one plain
/// backspace - what the backspace returns must be what a brand-new context returns for typing the text.  (The preselected
/// index is left out of the comparison when the text ends in a selection-preserving mark: there the typed key carries the
/// caller's byte, a backspace has none.)
fn text_reached_by_backspace(run: &Run) {
    let texts = ["(", "(a", "a", "ami", "\"k", ":)", "x`", "[", "\"", "a.", "sesh", "(ami)", ":", "..", "'", "k:", "{a", "-", "1", "+1", "smile", "onno", "a(", "`", "o`"];
    let items: Vec<(usize, usize)> = (0..texts.len()).flat_map(|t| (0..3usize).map(move |o| (t, o))).collect();
    run.exhaustive(
        "text-reached-by-one-backspace",
        &items,
        |_| Sandbox::new(),
        |&(ti, oi), st, sb| {
            let opts = Opts::parse(["s", "sqe", "q"][oi]);
            let text = texts[ti];
            let case = || json!({"reached_by_backspace": {"text": text, "opts": opts.letters()}});
            let pf = |p: crate::driver::PanicInfo| Failure::new(panic_kind(&p), p.to_string(), case());
            let (warm, fresh) = (Ctx::new(opts, sb).map_err(pf)?, Ctx::new(opts, sb).map_err(pf)?);
            let want = fresh.type_text(text).map_err(pf)?.unwrap();
            fresh.finish().map_err(pf)?;
            for extra in ['a', 'k', '.', ')', '1', '`'] {
                warm.type_text(text).map_err(pf)?;
                warm.ch(extra, 0).map_err(pf)?;
                let mut got = warm.backspace(false).map_err(pf)?;
                let ongoing = warm.ongoing();
                warm.finish().map_err(pf)?;
                st.evals(1);
                let mut w = want.clone();
                if text.chars().last().map(|c| crate::gen::SEL_PRESERVING.contains(c)).unwrap_or(false) {
                    got.sel = 0;
                    w.sel = 0;
                }
                if got != w || !ongoing {
                    return Err(Failure::new(
                        "history-dependent-suggestion",
                        format!("text {text:?} ({}) reached by typing {text:?} + {extra:?} and one backspace: the backspace returns {} (session open: {ongoing}) but a brand-new context typing the text shows {}", opts.letters(), got.short(), w.short()),
                        case(),
                    ));
                }
            }
            st.label("text-reached-by-backspace");
            st.nontrivial(hash_of(&("bs", ti, oi)), || json!({"text": text, "opts": opts.letters()}));
            Ok(())
        },
    );
}

/// "A function of ... the data files": the bundled data are copied to a scratch directory, a context is created over
/// it and used, then the three data files are rewritten IN PLACE (entries of the probe words taken out) and the directory
/// is copied byte for byte to a second one.  A brand-new context over the first directory and a brand-new context over
/// the second have the same configuration, the same data bytes and the same (empty) user files: every rendering must
/// be equal, and what the earlier context of this process read from the old files must not show.
fn data_replaced_case(variant: u8) -> Result<usize, Failure> {
    let case = json!({"data_replaced": {"variant": variant}});
    let pf = |p: crate::driver::PanicInfo| Failure::new(&panic_kind(&p), p.to_string(), case.clone());
    let holder = Sandbox::new_bare();
    let (d1, d2) = (holder.base().join("data-one"), holder.base().join("data-two"));
    std::fs::create_dir_all(&d1).expect("scratch data dir");
    std::fs::create_dir_all(&d2).expect("scratch data dir");
    let files = ["dictionary.json", "suffix.json", "autocorrect.json"];
    for f in files {
        std::fs::copy(format!("{}/{f}", crate::driver::data_dir()), d1.join(f)).expect("copy data file");
    }
    let opts = Opts::parse(if variant % 2 == 0 { "s" } else { "se" });
    let probes = ["amar", "ami", "sesh", "sesher", "boi", "boigulo", "kolkata", "academy", "dr", "kotha", "k", "tara", "manush", "manusher"];
    let (sb_a, sb_b, sb_c) = (Sandbox::new(), Sandbox::new(), Sandbox::new());
    let a = Ctx::new_with_data(opts, sb_a.base(), &d1).map_err(pf)?;
    let mut seen: Vec<String> = vec![];
    for w in probes {
        if let Some(r) = a.type_frontend(w).map_err(pf)? {
            seen.extend(r.cands.iter().cloned());
        }
        a.finish().map_err(pf)?;
    }
    // rewrite in place: the dictionary loses every word the probes were offered, the other two tables lose the keys
    // the probes use
    let mut dict: std::collections::BTreeMap<String, Vec<String>> = serde_json::from_slice(&std::fs::read(d1.join("dictionary.json")).expect("read")).expect("dictionary.json");
    let gone: std::collections::HashSet<&String> = seen.iter().collect();
    let mut removed = 0usize;
    for v in dict.values_mut() {
        let n = v.len();
        v.retain(|w| !gone.contains(w));
        removed += n - v.len();
    }
    std::fs::write(d1.join("dictionary.json"), serde_json::to_vec(&dict).unwrap()).expect("rewrite");
    if variant / 2 % 2 == 1 {
        for (f, keys) in [("suffix.json", &["er", "gulo", "r"][..]), ("autocorrect.json", &["academy", "dr", "ami"][..])] {
            let mut t: std::collections::BTreeMap<String, String> = serde_json::from_slice(&std::fs::read(d1.join(f)).expect("read")).expect("table");
            for k in keys {
                t.remove(*k);
            }
            std::fs::write(d1.join(f), serde_json::to_vec(&t).unwrap()).expect("rewrite");
        }
    }
    for f in files {
        std::fs::copy(d1.join(f), d2.join(f)).expect("copy data file");
    }
    // the old context may stay alive or go away first
    let keep_alive = if variant / 4 % 2 == 0 { Some(a) } else { drop(a); None };
    let b = Ctx::new_with_data(opts, sb_b.base(), &d1).map_err(pf)?;
    let c = Ctx::new_with_data(opts, sb_c.base(), &d2).map_err(pf)?;
    for w in probes {
        let mut sel = 0u8;
        for ch in w.chars() {
            let (rb, rc) = (b.ch(ch, sel).map_err(pf)?, c.ch(ch, sel).map_err(pf)?);
            if rb != rc {
                return Err(Failure::new(
                    "new-context-shows-data-read-earlier-in-the-process",
                    format!("data files rewritten in place after another context had loaded them: typing {w:?}, at {ch:?} a brand-new context over that directory returns {} but a brand-new context over a byte-identical copy returns {}", rb.short(), rc.short()),
                    case.clone(),
                ));
            }
            sel = if rb.lonely { 0 } else { rb.sel.min(255) as u8 };
        }
        b.finish().map_err(pf)?;
        c.finish().map_err(pf)?;
    }
    drop(keep_alive);
    Ok(removed)
}

fn data_files_replaced_between_two_contexts(run: &Run) {
    let items: Vec<u8> = (0..8).collect();
    run.exhaustive("data-files-rewritten-in-place-between-two-contexts", &items, |_| (), |&v, st, _| {
        let removed = data_replaced_case(v)?;
        if removed > 0 {
            st.label("data-files-rewritten-between-two-contexts");
            st.nontrivial(v as u64, || json!({"data_replaced_variant": v, "dictionary_words_removed": removed}));
        }
        Ok(())
    });
    run.require_label("data-files-rewritten-between-two-contexts", 8);
}

pub fn run(run: &Run) {
    data_files_replaced_between_two_contexts(run);
    text_reached_by_backspace(run);
    final_key_on_the_number_pad(run);
    run.sharded("warm-vs-fresh", 16, run.tier.pick(350, 9000), 400, strategy, |_| (), |c: &Case, st, _| run_case(c, st));
    run.sharded("long-lived-context-vs-fresh", 16, run.tier.pick(450, 6000), 0, strategy, mk_long_lived, |c: &Case, st, lo| long_lived_case(c, lo, st));
    run.require_label("long-lived-context-reached-300-texts", 8);
    run.require_label("long-lived-context-saw-the-user-list-change", 100);
    run.require_label("long-lived-context-was-away-from-the-list", 300);
    run.require_label("store-populated", 50);
    run.require_label("related-warm-up", 50);
    run.require_label("script-has-backspace", 50);
    run.require_label("interleaved-second-context", 50);
}

pub fn replay(_run: &Run, case: &Value) -> Result<(), Failure> {
    if let Some(d) = case.get("data_replaced") {
        return data_replaced_case(d["variant"].as_u64().unwrap_or(0) as u8).map(|_| ());
    }
    if let Some(f) = case.get("final_key_on_number_pad") {
        let (word, mark) = (f["word"].as_str().unwrap_or("a"), f["mark"].as_str().and_then(|m| m.chars().next()).unwrap_or('.'));
        let sb = Sandbox::new();
        let pf = |p: crate::driver::PanicInfo| Failure::new(panic_kind(&p), p.to_string(), case.clone());
        for opts in ["s", "sqe"] {
            let (a, b) = (Ctx::new(Opts::parse(opts), &sb).map_err(pf)?, Ctx::new(Opts::parse(opts), &sb).map_err(pf)?);
            let n = a.type_text(word).map_err(pf)?.map(|r| r.choices()).unwrap_or(0);
            a.finish().map_err(pf)?;
            let Some(pad) = crate::driver::keys().numpad_code_for(mark) else { continue };
            for sel in 0..n.min(12) {
                a.type_text(word).map_err(pf)?;
                b.type_text(word).map_err(pf)?;
                let (ra, rb) = (a.key(pad, 0, sel as u8).map_err(pf)?, b.ch(mark, sel as u8).map_err(pf)?);
                a.finish().map_err(pf)?;
                b.finish().map_err(pf)?;
                if ra != rb {
                    return Err(Failure::new("history-dependent-suggestion", format!("selection byte {sel}: number-pad key {} vs main-block key {}", ra.short(), rb.short()), case.clone()));
                }
            }
        }
        return Ok(());
    }
    let c: Case = serde_json::from_value(case.clone()).map_err(|e| Failure::new("replay", format!("bad case: {e}"), case.clone()))?;
    run_case(&c, &mut Stats::new())
}
