//! C01 — no in-contract sequence of API calls can crash the engine.

use crate::driver::{keys, Ctx, Opts, PanicInfo, Sandbox};
use crate::gen::{self, SelPick, AbsOp, Ev, Interp, OpWeights};
use crate::runner::{hash_of, Failure, Run, Stats, Tier};
use proptest::prelude::*;
use serde_json::{json, Value};

pub const LEVEL: &str = "exploration";
pub const EXHAUSTIVE: bool = false;
pub const RULE: &str = "generated: (options x layout, history of 1..80 abstract ops over {any published key x any modifier byte x any selection byte, typed word, learned-key+suffix, backspace, ctrl-backspace, commit(i<len), finish, update-engine while idle, restart}) interpreted in-contract against a fresh context and a writable user directory; plus an exhaustive sweep of every published key x modifier 0..3 as the next key after each prepared state x 3 layouts x 4 option sets; plus ALL fixed-layout histories of <= L events over a 13-symbol class-representative alphabet (ra, ka, a, i-sign, aa-sign, hasanta, chandrabindu, AU length mark, zo-fola, ro-fola, reph, digit, backspace) x all 32 settings of the five composition helpers (suggestions off L=5 quick / 6 thorough; suggestions+English on L=3 / 4). Oracle: no engine call panics (watchdog 30 s per call). Non-trivial: the history reached a composition of >= 2 characters and contains a backspace, commit, update-engine or a key outside a-z; distinct by hash of the concrete event trace.";
pub const ASSUMPTIONS: &[&str] = &[
    "a panic caught at the Rust API is an abort at the extern \"C\" boundary",
    "user directory exists and is writable (C10 covers the opposite)",
    "key codes are those of include/riti.h",
    "time clause only as a per-call watchdog; word length bounded by the history length",
];

pub fn panic_kind(p: &PanicInfo) -> String {
    let file = p.file.strip_prefix(crate::driver::repo()).map(|f| f.trim_start_matches('/')).unwrap_or(&p.file);
    let file = match file.find("/registry/src/") {
        Some(i) => file[i + 14..].splitn(2, '/').nth(1).unwrap_or(file),
        None => file,
    };
    let msg: String = p.msg.chars().take(60).collect();
    format!("panic:{file}:{msg}")
}

pub fn weights() -> OpWeights {
    OpWeights { key: 30, text: 30, learned: 5, backspace: 12, ctrl_backspace: 3, commit: 12, finish: 3, update: 3, restart: 2 }
}

pub fn case_strategy(max_ops: usize) -> impl Strategy<Value = (Opts, Vec<AbsOp>)> {
    (gen::opts_strategy(), proptest::collection::vec(gen::op_strategy(&weights(), true), 1..max_ops))
}

/// Run one abstract history; returns the concrete trace and what happened.
pub fn run_history(opts: &Opts, ops: &[AbsOp], st: &mut Stats) -> Result<(), Failure> {
    let sb = Sandbox::new();
    let mut it = match Interp::new(*opts, &sb) {
        Ok(it) => it,
        Err(p) => {
            return Err(Failure::new(
                panic_kind(&p.info),
                format!("context construction: {}", p.info),
                gen::trace_json(opts, &[]),
            ))
        }
    };
    let mut max_comp = 0usize;
    let mut observe = |s: &gen::Step| {
        if let gen::Outcome::Suggestion(r) = s.outcome {
            let n = if r.lonely { r.text.chars().count() } else { r.text.chars().count() };
            max_comp = max_comp.max(n);
        }
        Ok(())
    };
    let mut failure = None;
    for op in ops {
        match it.run_op(op, &mut observe) {
            Ok(_) => {}
            Err(p) => {
                failure = Some(Failure::new(
                    panic_kind(&p.info),
                    format!("event #{} ({}) : {}", p.at, gen::ev_to_string(&it.trace[p.at]), p.info),
                    gen::trace_json(opts, &it.trace),
                ));
                break;
            }
        }
    }
    // classification
    let t = &it.trace;
    let has_bs = t.iter().any(|e| matches!(e, Ev::Backspace | Ev::CtrlBackspace));
    let has_commit = t.iter().any(|e| matches!(e, Ev::Commit(_)));
    let has_update = t.iter().any(|e| matches!(e, Ev::Update(_)));
    let non_alpha = t.iter().any(|e| match e {
        Ev::Key { code, .. } => keys().by_code(*code).and_then(|k| k.ascii).map(|c| !c.is_ascii_lowercase()).unwrap_or(true),
        _ => false,
    });
    if has_bs {
        st.label("has-backspace");
    }
    if has_commit {
        st.label("has-commit");
    }
    if has_update {
        st.label("has-update-engine");
    }
    if t.iter().any(|e| matches!(e, Ev::Restart)) {
        st.label("has-restart");
    }
    if it.typed_on_learned > 0 {
        st.label("typed-on-learned-base");
    }
    if sb.parsed_selections().map(|m| !m.is_empty()).unwrap_or(false) {
        st.label("store-written");
    }
    st.label(match opts.layout {
        crate::driver::Layout::Phonetic => "layout-phonetic",
        crate::driver::Layout::Probhat => "layout-probhat",
        crate::driver::Layout::Synthetic => "layout-synthetic",
        crate::driver::Layout::Twin => "layout-twin",
        crate::driver::Layout::Exotic => "layout-exotic",
        crate::driver::Layout::Rewritten => "layout-rewritten",
    });
    if t.iter().any(|e| matches!(e, Ev::Key { code, .. } if keys().by_code(*code).map(|k| k.numpad).unwrap_or(false))) {
        st.label("has-keypad-key");
    }
    st.count("skipped-commit-nothing-shown", it.skipped_commit);
    st.count("skipped-update-not-idle", it.skipped_update);
    st.count("skipped-learned-empty-store", it.skipped_learned);
    st.count("events", t.len() as u64);
    if max_comp >= 2 && (has_bs || has_commit || has_update || non_alpha) {
        let h = hash_of(&(opts.letters(), t));
        let tr = t.clone();
        let o = *opts;
        st.nontrivial(h, move || {
            json!({"opts": o.letters(), "events": tr.iter().take(40).map(gen::ev_to_string).collect::<Vec<_>>()})
        });
    }
    gen::journal::end();
    match failure {
        Some(f) => Err(f),
        None => Ok(()),
    }
}

/// prepared states for the single-step sweep: (name, keys typed (ascii, modifier), then action)
fn prepared_states() -> Vec<(&'static str, Vec<(char, u8)>, &'static str)> {
    vec![
        ("idle", vec![], ""),
        ("word", vec![('a', 0), ('m', 0), ('i', 0)], ""),
        ("word+punct", vec![('a', 0), ('m', 0), ('i', 0), ('.', 0)], ""),
        ("consonant", vec![('k', 0)], ""),
        ("hasanta", vec![('k', 0), ('/', 0)], ""),
        ("pending-sign", vec![('[', 0)], ""),
        ("sign-after-consonant", vec![('k', 0), ('i', 0)], ""),
        ("chandra", vec![('k', 0), ('>', 0)], ""),
        ("emoticon", vec![(':', 0), (')', 0)], ""),
        ("after-commit-last", vec![('a', 0)], "commit-last"),
        ("after-emoticon-commit", vec![(':', 0), (')', 0)], "commit-1"),
        ("backspaced-to-empty", vec![('k', 0)], "bs"),
        ("reph", vec![('r', 2)], ""),
    ]
}

fn option_sets(layout: usize) -> Vec<Opts> {
    vec![
        Opts::from_bits(layout, 0),
        Opts::from_bits(layout, 0x7ff),
        Opts::from_bits(layout, 0x7ff & !(1 << 9)),
        Opts::from_bits(layout, 0b110 | (1 << 10)),
    ]
}

fn sweep(run: &Run) {
    // item = (layout, option set index, state index)
    let states = prepared_states();
    let mut items = vec![];
    for layout in 0..3usize {
        for oi in 0..4usize {
            for si in 0..states.len() {
                items.push((layout, oi, si));
            }
        }
    }
    run.exhaustive(
        "single-key-sweep",
        &items,
        |_| (),
        |&(layout, oi, si), st, _| {
            let opts = option_sets(layout)[oi];
            let (name, prefix, action) = &states[si];
            let sb = Sandbox::new();
            let ctx = Ctx::new(opts, &sb).map_err(|p| Failure::new(panic_kind(&p), format!("construction: {p}"), json!({"opts": opts.letters()})))?;
            for k in &keys().keys {
                for m in 0u8..4 {
                    // establish the state
                    let mut trace: Vec<String> = vec![];
                    let mut res: Result<(), PanicInfo> = (|| {
                        gen::journal::begin(&opts);
                        gen::journal::event(&Ev::Finish);
                        ctx.finish()?;
                        let mut last = None;
                        for (c, md) in prefix {
                            trace.push(format!("K:{}:{md}:0", keys().by_code(keys().code_for(*c)).unwrap().name));
                            gen::journal::event(&Ev::Key { code: keys().code_for(*c), m: *md, sel: 0 });
                            last = Some(ctx.key(keys().code_for(*c), *md, 0)?);
                        }
                        match *action {
                            "commit-last" => {
                                if let Some(r) = &last {
                                    if r.choices() > 0 {
                                        trace.push(format!("commit:{}", r.choices() - 1));
                                        gen::journal::event(&Ev::Commit(r.choices() - 1));
                                        ctx.commit(r.choices() - 1)?;
                                    }
                                }
                            }
                            "commit-1" => {
                                if let Some(r) = &last {
                                    if r.choices() > 1 {
                                        trace.push("commit:1".into());
                                        gen::journal::event(&Ev::Commit(1));
                                        ctx.commit(1)?;
                                    } else if r.choices() > 0 {
                                        trace.push("commit:0".into());
                                        gen::journal::event(&Ev::Commit(0));
                                        ctx.commit(0)?;
                                    }
                                }
                            }
                            "bs" => {
                                trace.push("bs".into());
                                gen::journal::event(&Ev::Backspace);
                                ctx.backspace(false)?;
                            }
                            _ => {}
                        }
                        Ok(())
                    })();
                    if res.is_ok() {
                        trace.push(format!("K:{}:{m}:0", k.name));
                        gen::journal::event(&Ev::Key { code: k.code, m, sel: 0 });
                        res = ctx.key(k.code, m, 0).map(|_| ());
                        gen::journal::end();
                    }
                    st.evals(1);
                    if let Err(p) = res {
                        return Err(Failure::new(
                            panic_kind(&p),
                            format!("state {name}, key {} modifier {m}: {p}", k.name),
                            json!({"opts": opts.letters(), "sweep": trace}),
                        ));
                    }
                    st.nontrivial(hash_of(&(layout, oi, si, k.code, m)), || json!({"opts": opts.letters(), "state": name, "key": k.name, "modifier": m}));
                }
            }
            st.label("sweep-states");
            Ok(())
        },
    );
}

/// Time clause: long words whose tails are all known suffixes (the shape that makes the suffix
/// look-up walk every split), repeated letters and random letters, 56 keys each.  The unchanged
/// engine needs milliseconds per key; one call above 8 s is a blow-up (a factor ~1000 above normal),
/// reported with the timing curve.  Anything slower still hits the 30 s watchdog (exit 2).
fn long_words(run: &Run) {
    let sk = &gen::pools().suffix_keys;
    let mut words: Vec<String> = vec![];
    let short: Vec<&String> = sk.iter().filter(|k| k.len() <= 2).collect();
    for (i, start) in ["amar", "kotha", "boi", "a", "computer"].iter().enumerate() {
        // chains of short suffix keys: every tail is again a concatenation of suffix keys
        for j in 0..3 {
            let mut w = start.to_string();
            let mut n = 0;
            while w.len() < 56 {
                let k = short[(hash_of(&(i, j, n)) as usize) % short.len()];
                w.push_str(k);
                n += 1;
            }
            w.truncate(56);
            words.push(w);
        }
        let mut w = start.to_string();
        while w.len() < 56 {
            w.push_str("er");
        }
        words.push(w);
    }
    for c in ["o", "k", "a", "rri", "ng", "`", ".", "1"] {
        words.push(c.repeat(56 / c.len()));
    }
    for i in 0..6u64 {
        let letters: Vec<char> = "aeioukhgnrtsdlmbpcjyzwOTDNSR".chars().collect();
        words.push((0..56).map(|j| letters[(hash_of(&(i, j)) as usize) % letters.len()]).collect());
    }
    let items: Vec<(usize, String)> = ["sq", "sqe", "q", "Pfe", "Sfvckro"].iter().enumerate().flat_map(|(oi, _)| words.iter().cloned().map(move |w| (oi, w))).collect();
    let optsets = ["sq", "sqe", "q", "Pfe", "Sfvckro"];
    run.exhaustive(
        "long-words-time-bound",
        &items,
        |_| (),
        |(oi, w), st, _| {
            let opts = Opts::parse(optsets[*oi]);
            let sb = Sandbox::new();
            let ctx = Ctx::new(opts, &sb).map_err(|p| Failure::new(panic_kind(&p), p.to_string(), json!({"opts": opts.letters()})))?;
            let mut times: Vec<u128> = vec![];
            gen::journal::begin(&opts);
            for (n, c) in w.chars().enumerate() {
                gen::journal::event(&Ev::Key { code: keys().code_for(c), m: 0, sel: 0 });
                let t0 = std::time::Instant::now();
                let c0 = crate::driver::thread_cpu_ms();
                ctx.ch(c, 0).map_err(|p| Failure::new(panic_kind(&p), format!("long word {w:?} key #{n}: {p}"), json!({"opts": opts.letters(), "long_word": w})))?;
                let wall = t0.elapsed().as_millis();
                // the bound is on the work done by the call: CPU time of this thread where procfs offers it, so that
                // a loaded machine cannot turn a descheduled thread into an alarm
                let ms = match (c0, crate::driver::thread_cpu_ms()) {
                    (Some(a), Some(b)) => (b - a).min(wall),
                    _ => wall,
                };
                if wall > 8000 && ms <= 8000 {
                    st.label("long-word-call-over-bound-on-the-wall-clock-only");
                }
                times.push(ms);
                if ms > 8000 {
                    return Err(Failure::new(
                        "call-time-blow-up",
                        format!("typing {w:?} ({}): key #{n} took {ms} ms; per-key milliseconds so far {:?}", opts.letters(), times),
                        json!({"opts": opts.letters(), "long_word": w}),
                    ));
                }
            }
            gen::journal::end();
            st.count("long-word-keys", w.chars().count() as u64);
            st.count("long-word-calls-over-100ms", times.iter().filter(|t| **t > 100).count() as u64);
            st.label("long-word-typed");
            Ok(())
        },
    );
}

/// Every history of up to L events over a class-representative alphabet of the synthetic layout (one key per
/// character class the composition rules distinguish, plus backspace) x all 32 settings of the five composition
/// helpers, from an idle method.  Suggestions off: L = 5 (quick) / 6 (thorough); suggestions + English on: L = 3 / 4.
/// Random histories reach a particular 5-event conjunction under a particular option pair far too rarely.
fn fixed_exhaustive(run: &Run) {
    use crate::driver::{layout_inverse, Layout};
    use crate::model;
    let inv = layout_inverse(Layout::Synthetic);
    let vals = ["\u{09B0}", "\u{0995}", "\u{0985}", "\u{09BF}", "\u{09BE}", "\u{09CD}", "\u{0981}", "\u{09D7}", model::ZOFOLA, model::ROFOLA, model::REPH, "\u{09E7}"];
    let mut evs: Vec<Ev> = vals
        .iter()
        .map(|v| {
            let (code, m) = *inv.get(*v).unwrap_or_else(|| panic!("synthetic layout lacks {v:?}"));
            Ev::Key { code, m, sel: 0 }
        })
        .collect();
    evs.push(Ev::Backspace);
    let n = evs.len();
    let mut items = vec![];
    for sugg in [false, true] {
        for bits in 0..32u32 {
            for a in 0..n {
                for b in 0..n {
                    items.push((sugg, bits, a, b));
                }
            }
        }
    }
    let (l_off, l_on) = match run.tier {
        Tier::Quick => (5usize, 3usize),
        Tier::Thorough => (6, 4),
    };
    run.exhaustive(
        "fixed-short-histories-all-helper-settings",
        &items,
        |_| Sandbox::new(),
        |&(sugg, bits, a, b), st, sb| {
            let mut opts = Opts::parse(if sugg { "Sfe" } else { "SD" });
            opts.vowel = bits & 1 != 0;
            opts.chandra = bits & 2 != 0;
            opts.kar = bits & 4 != 0;
            opts.reph = bits & 8 != 0;
            opts.karorder = bits & 16 != 0;
            let l = if sugg { l_on } else { l_off };
            let rest = l - 2;
            let ctx = Ctx::new(opts, sb).map_err(|p| Failure::new(panic_kind(&p), format!("construction: {p}"), json!({"opts": opts.letters()})))?;
            let total = n.pow(rest as u32);
            let mut seq: Vec<usize> = vec![0; l];
            seq[0] = a;
            seq[1] = b;
            for code in 0..total {
                let mut c = code;
                for slot in seq.iter_mut().skip(2) {
                    *slot = c % n;
                    c /= n;
                }
                let run_one = || -> Result<(), PanicInfo> {
                    ctx.finish()?;
                    for i in &seq {
                        match &evs[*i] {
                            Ev::Key { code, m, .. } => {
                                ctx.key(*code, *m, 0)?;
                            }
                            _ => {
                                ctx.backspace(false)?;
                            }
                        }
                    }
                    Ok(())
                };
                st.evals(1);
                if let Err(p) = run_one() {
                    let events: Vec<Ev> = seq.iter().map(|i| evs[*i].clone()).collect();
                    return Err(Failure::new(
                        panic_kind(&p),
                        format!("fixed history {:?} under {}: {p}", seq.iter().map(|i| if *i < vals.len() { vals[*i] } else { "<backspace>" }).collect::<Vec<_>>(), opts.letters()),
                        json!({"opts": opts.letters(), "events": events}),
                    ));
                }
            }
            st.count("fixed-short-histories", total as u64);
            if opts.karorder && seq.len() >= 5 {
                st.nontrivial(hash_of(&(sugg, bits, a, b)), || json!({"opts": opts.letters(), "first_two": [vals.get(a).copied().unwrap_or("<backspace>"), vals.get(b).copied().unwrap_or("<backspace>")], "histories": total}));
            }
            Ok(())
        },
    );
}

/// Learned choices meet special texts: for every emoticon and every emoji name of the tables, the word part (what is
/// left after the wrapping punctuation is split off) is learned at EACH of its candidate indices in turn, then the
/// whole entry is typed - same context and restarted one.  The look-up that compares the learned choice with the
/// candidates sees undecorated emoji, literal text and transliterations side by side there.
fn learned_word_part_then_entry(run: &Run) {
    let e = crate::model::emoji();
    let mut entries: Vec<String> = e.emoticons.iter().map(|(k, _)| k.clone()).collect();
    entries.extend(e.names.iter().map(|(k, _)| k.clone()).filter(|k| k.chars().any(|c| !c.is_ascii_alphanumeric())));
    entries.retain(|k| k.chars().all(|c| keys().has_char(c)));
    let items: Vec<(usize, String)> = entries.into_iter().enumerate().collect();
    run.exhaustive(
        "learned-word-part-then-table-entry",
        &items,
        |_| (),
        |(i, entry), st, _| {
            let word = crate::model::ref_split(entry, false).1;
            if word.is_empty() || word == *entry {
                return Ok(());
            }
            let opts = Opts::parse(["s", "se", "sq", "seq"][i % 4]);
            for idx in 0..6usize {
                let events = std::cell::RefCell::new(Vec::<Ev>::new());
                let body = || -> Result<bool, PanicInfo> {
                    let sb = Sandbox::new();
                    let ctx = Ctx::new(opts, &sb)?;
                    let mut last = None;
                    for c in word.chars() {
                        events.borrow_mut().push(Ev::Key { code: keys().code_for(c), m: 0, sel: 0 });
                        last = Some(ctx.ch(c, 0)?);
                    }
                    let n = last.map(|r| r.choices()).unwrap_or(0);
                    if idx >= n {
                        return Ok(false);
                    }
                    events.borrow_mut().push(Ev::Commit(idx));
                    ctx.commit(idx)?;
                    for round in 0..2 {
                        let cx = if round == 0 { None } else { events.borrow_mut().push(Ev::Restart); Some(Ctx::new(opts, &sb)?) };
                        let cx = cx.as_ref().unwrap_or(&ctx);
                        for c in entry.chars() {
                            events.borrow_mut().push(Ev::Key { code: keys().code_for(c), m: 0, sel: 0 });
                            cx.ch(c, 0)?;
                        }
                        events.borrow_mut().push(Ev::Finish);
                        cx.finish()?;
                    }
                    Ok(true)
                };
                st.evals(1);
                match body() {
                    Ok(true) => st.label("entry-typed-on-a-learned-word-part"),
                    Ok(false) => break,
                    Err(p) => {
                        return Err(Failure::new(
                            panic_kind(&p),
                            format!("word part {word:?} of table entry {entry:?} learned at index {idx}, then the entry typed ({}): {p}", opts.letters()),
                            json!({"opts": opts.letters(), "events": events.into_inner()}),
                        ))
                    }
                }
            }
            st.nontrivial(hash_of(&(entry, i)), || json!({"opts": opts.letters(), "entry": entry, "word_part": word}));
            Ok(())
        },
    );
    run.require_label("entry-typed-on-a-learned-word-part", 300);
}

/// update-engine (idle) is in contract whatever happened to the optional user files in the meantime.  ALL sequences of
/// three steps over the seven file / directory transitions of C10 (written, damaged, removed, put back untouched,
/// directory away / back, modification time stepped backwards), update-engine after each step, probe words typed.
/// Only panics count here (what the context shows afterwards is C10's and C11's business).
fn update_engine_under_file_transitions(run: &Run) {
    use crate::props::c10::{check_transitions, Trans};
    let ts = [Trans::WriteAc(1), Trans::DamageAc(0), Trans::RemoveAc, Trans::RestoreAc, Trans::DirAway, Trans::DirBack, Trans::TouchOlder];
    let mut items: Vec<(usize, usize, usize)> = vec![];
    for a in 0..ts.len() {
        for b in 0..ts.len() {
            for c in 0..ts.len() {
                items.push((a, b, c));
            }
        }
    }
    run.exhaustive(
        "update-engine-under-user-file-transitions",
        &items,
        |_| (),
        |&(a, b, c), st, _| {
            let steps = vec![(ts[a].clone(), true), (ts[b].clone(), true), (ts[c].clone(), true)];
            st.label("file-transition-sequences");
            match check_transitions(&steps, (a + b + c) % 2 == 0, st) {
                Err(f) if f.kind.contains("panic") => Err(f),
                _ => Ok(()),
            }
        },
    );
    run.require_label("file-transition-sequences", 300);
}

/// "update-engine while idle" between two words, changing ONE thing: what the first word left behind (a non-zero
/// preselection, a learned choice on display, a waiting sign that was discarded, a list that will not be rebuilt)
/// meets a configuration in which one option differs.  first word x how it ends x the single change x second word,
/// then every kind of call on the second word (each key, backspace, commit of the first / last / preselected index).
fn flip_between_words(run: &Run) {
    let firsts: [&[&str]; 3] = [&[";)", "ami", "a:", "\"kotha\"", "sesh.", "x`", "k[", "rri"], &["k[", "vmi", ";)", "k/", "[", "\"k\"", "k>a", "!a"], &["k[", "krZ", "[k", "k/Z", "vmi", ";)", "[", "k>"]];
    let seconds: [&[&str]; 3] = [&["a", ":)", "ami.", "k"], &["k", "[k", ";)", "vmi"], &["k", "[k", "rZ", ";)"]];
    let mut items = vec![];
    for layout in 0..3usize {
        for oi in 0..3usize {
            for fi in 0..firsts[layout].len() {
                for term in 0..5u8 {
                    items.push((layout, oi, fi, term));
                }
            }
        }
    }
    run.exhaustive(
        "one-option-changed-by-update-engine-between-two-words",
        &items,
        |_| (),
        |&(layout, oi, fi, term), st, _| {
            let opts = [Opts::from_bits(layout, 0b110), Opts::from_bits(layout, 0x7ff & !(1 << 9)), Opts::from_bits(layout, 0b111 | (1 << 8) | (1 << 10))][oi];
            let first = firsts[layout][fi];
            for bit in 0u8..13 {
                for second in seconds[layout].iter().take(if bit == 1 || bit == 2 || bit >= 11 { 4 } else { 2 }) {
                    let sb = Sandbox::new();
                    let mut it = Interp::new(opts, &sb).map_err(|p| Failure::new(panic_kind(&p.info), format!("construction: {}", p.info), json!({"opts": opts.letters()})))?;
                    let mut ops: Vec<AbsOp> = vec![];
                    let text = |t: &str| AbsOp::Text { keys: t.chars().map(|c| (keys().code_for(c), 0)).collect(), sel: SelPick::FrontEnd };
                    match term {
                        // a learned non-first choice, shown again, then taken as it is
                        4 => ops.extend([text(first), AbsOp::Commit { frac: 0xffff }, text(first), AbsOp::Commit { frac: 0x8000 }]),
                        _ => ops.push(text(first)),
                    }
                    ops.push(match term {
                        0 => AbsOp::Commit { frac: 0 },
                        1 => AbsOp::Commit { frac: 0xffff },
                        2 => AbsOp::Finish,
                        3 => AbsOp::CtrlBackspace,
                        _ => AbsOp::Finish,
                    });
                    ops.push(AbsOp::Flip { bit });
                    // the second word, ended in every way (the first commit is the one that meets what the first word left)
                    ops.extend([text(second), AbsOp::Commit { frac: 0 }, text(second), AbsOp::Commit { frac: 0xffff }, text(second), AbsOp::Backspace, text(second), AbsOp::Commit { frac: 0x8000 }]);
                    st.evals(1);
                    for op in &ops {
                        if let Err(p) = it.run_op(op, &mut |_| Ok(())) {
                            return Err(Failure::new(panic_kind(&p.info), format!("event #{} ({}) : {}", p.at, gen::ev_to_string(&it.trace[p.at]), p.info), gen::trace_json(&opts, &it.trace)));
                        }
                    }
                    gen::journal::end();
                    if bit == 1 || bit == 2 {
                        let t = it.trace.clone();
                        st.nontrivial(hash_of(&(opts.letters(), &t)), || json!({"opts": opts.letters(), "events": t.iter().map(gen::ev_to_string).collect::<Vec<_>>()}));
                    }
                }
            }
            st.label("single-change-between-two-words");
            Ok(())
        },
    );
}

/// "no blow-up, no panic" over the LIFE of a context: one phonetic context (list on) composes tens of thousands of distinct
/// word parts without ever being re-created - an odometer over a small alphabet, driven by keys and plain backspaces
/// so that nearly every key event shows the engine a text it has not seen.  Whatever the engine keeps per word part
/// (and may bound, evict or rebuild at 2^10 ... 2^15 entries) is filled and crossed here.  `stream` 0: letters,
/// 1: digits and letters with English on, 2: letters then a user-list reload in the middle.
fn long_lived_stream(stream: usize, limit: usize, st: &mut Stats) -> Result<(), Failure> {
    let opts = Opts::parse(["s", "se", "sq"][stream % 3]);
    let alphabet: Vec<char> = ["abdgklmnrst", "a1b2k3m4n5", "eiouhpcjyz"][stream % 3].chars().collect();
    let case = |n: usize| json!({"opts": opts.letters(), "long_lived_stream": {"stream": stream, "events": n}});
    let sb = Sandbox::new();
    let mut ctx = Ctx::new(opts, &sb).map_err(|p| Failure::new(panic_kind(&p), p.to_string(), case(0)))?;
    let depth = 5usize;
    let mut digits = vec![0usize; depth];
    let mut typed = 0usize; // characters of the current word on display
    let mut events = 0usize;
    let mut distinct = 0usize;
    while events < limit {
        // type the word of the odometer from the first position that changed
        while typed < depth {
            let c = alphabet[digits[typed] % alphabet.len()];
            ctx.ch(c, 0).map_err(|p| Failure::new(panic_kind(&p), format!("after {events} key / backspace events in one context: {p}"), case(events)))?;
            typed += 1;
            events += 1;
            distinct += 1;
        }
        // advance: the right-most digit that can still grow; everything right of it is erased
        let mut pos = depth - 1;
        loop {
            digits[pos] += 1;
            if digits[pos] < alphabet.len() || pos == 0 {
                break;
            }
            digits[pos] = 0;
            pos -= 1;
        }
        while typed > pos {
            ctx.backspace(false).map_err(|p| Failure::new(panic_kind(&p), format!("after {events} events in one context: {p}"), case(events)))?;
            typed -= 1;
            events += 1;
        }
        if typed == 0 && stream % 3 == 2 && events % 5 == 0 {
            // idle for a moment: the user's list appears / changes and the context is told
            std::fs::write(sb.autocorrect_file(), format!("{{\"e\":\"o{}\"}}", events)).expect("user list");
            let o = ctx.opts;
            ctx.update(o, &sb).map_err(|p| Failure::new(panic_kind(&p), p.to_string(), case(events)))?;
        }
    }
    st.count("long-lived-stream-events", events as u64);
    st.count("long-lived-stream-distinct-texts", distinct as u64);
    st.label("long-lived-stream");
    Ok(())
}

/// "Returns normally" whatever LOADABLE things the user's auto-correct list holds (empty strings, other scripts, emoji,
/// values that mix ASCII with another script, keys with spaces ...): the list is present from the start and also
/// arrives late (update-engine), its keys are typed alone and with suffixes.  Only panics are judged here.
fn loadable_user_values(run: &Run) {
    use crate::props::c10::{check_fault, check_late, malformed_corpus, odd_content, Fault};
    let mut docs = odd_content();
    // ... and the short UNREADABLE ones as well (C10 judges what they do; here only that nothing panics): the malformed
    // corpus and every cut-off of a document that starts with a byte order mark
    docs.extend(malformed_corpus().into_iter().filter(|d| d.len() <= 64));
    let bom_doc: Vec<u8> = [&[0xEF, 0xBB, 0xBF][..], b"{\"a\":\"o\"}"].concat();
    for i in 1..=bom_doc.len() {
        docs.push(bom_doc[..i].to_vec());
    }
    docs.push(vec![0xEF]);
    docs.push(vec![0xFF, 0xFE]);
    run.exhaustive(
        "loadable-user-auto-correct-values-of-every-kind",
        &docs,
        |_| (),
        |doc, st, _| {
            for with_data in [true, false] {
                for r in [check_fault(&Fault::Autocorrect(doc.clone()), with_data, st), check_late(doc, with_data, true, st), check_late(doc, with_data, false, st)] {
                    if let Err(f) = r {
                        if f.kind.contains("panic") {
                            return Err(f);
                        }
                    }
                }
            }
            st.label("user-value-documents");
            Ok(())
        },
    );
}

pub fn run(run: &Run) {
    loadable_user_values(run);
    let streams: Vec<usize> = (0..3).collect();
    let limit = run.tier.pick(90_000, 400_000);
    run.exhaustive("one-context-through-tens-of-thousands-of-distinct-word-parts", &streams, |_| (), |&s, st, _| long_lived_stream(s, limit, st));
    flip_between_words(run);
    long_words(run);
    sweep(run);
    fixed_exhaustive(run);
    learned_word_part_then_entry(run);
    update_engine_under_file_transitions(run);
    let (shards, cases) = match run.tier {
        Tier::Quick => (16, 700),
        Tier::Thorough => (16, 12000),
    };
    run.sharded(
        "histories",
        shards,
        cases,
        600,
        || case_strategy(80),
        |_| (),
        |(opts, ops): &(Opts, Vec<AbsOp>), st, _| run_history(opts, ops, st),
    );
    if run.tier == Tier::Thorough {
        fuzz_campaign(run);
    }
    run.require_label("typed-on-learned-base", 1);
    run.require_label("has-keypad-key", 1);
    run.require_label("has-update-engine", 1);
}

pub fn replay(_run: &Run, case: &Value) -> Result<(), Failure> {
    if let Some(l) = case.get("long_lived_stream") {
        return long_lived_stream(l["stream"].as_u64().unwrap_or(0) as usize, l["events"].as_u64().unwrap_or(0) as usize + 8, &mut Stats::new());
    }
    let opts = Opts::parse(case["opts"].as_str().unwrap_or_default());
    if case.get("transitions").is_some() || case.get("file").is_some() || case.get("late_injection").is_some() {
        return match crate::props::c10::replay(_run, case) {
            Err(f) if f.kind.contains("panic") => Err(f),
            _ => Ok(()),
        };
    }
    if let Some(w) = case["long_word"].as_str() {
        let sb = Sandbox::new();
        let ctx = Ctx::new(opts, &sb).map_err(|p| Failure::new(panic_kind(&p), p.to_string(), case.clone()))?;
        for (n, c) in w.chars().enumerate() {
            let t0 = std::time::Instant::now();
            let c0 = crate::driver::thread_cpu_ms();
            ctx.ch(c, 0).map_err(|p| Failure::new(panic_kind(&p), p.to_string(), case.clone()))?;
            let cpu = match (c0, crate::driver::thread_cpu_ms()) { (Some(a), Some(b)) => b - a, _ => u128::MAX };
            if t0.elapsed().as_millis().min(cpu) > 8000 {
                return Err(Failure::new("call-time-blow-up", format!("key #{n} took {} ms", t0.elapsed().as_millis()), case.clone()));
            }
        }
        return Ok(());
    }
    if let Some(sw) = case["sweep"].as_array() {
        let sb = Sandbox::new();
        let ctx = Ctx::new(opts, &sb).map_err(|p| Failure::new(panic_kind(&p), p.to_string(), case.clone()))?;
        for tok in sw {
            let tok = tok.as_str().unwrap_or_default();
            let parts: Vec<&str> = tok.split(':').collect();
            let r = match parts[0] {
                "K" => {
                    let code = keys().by_name(parts[1]).map(|k| k.code).unwrap_or(0);
                    ctx.key(code, parts[2].parse().unwrap_or(0), 0).map(|_| ())
                }
                "commit" => ctx.commit(parts[1].parse().unwrap_or(0)),
                "bs" => ctx.backspace(false).map(|_| ()),
                _ => Ok(()),
            };
            if let Err(p) = r {
                return Err(Failure::new(panic_kind(&p), format!("{tok}: {p}"), case.clone()));
            }
        }
        return Ok(());
    }
    let events: Vec<Ev> = serde_json::from_value(case["events"].clone()).unwrap_or_default();
    let sb = Sandbox::new();
    match gen::replay_trace(opts, &sb, &events, &mut |_| Ok(())) {
        Ok(r) => r,
        Err(p) => Err(Failure::new(panic_kind(&p.info), format!("event #{}: {}", p.at, p.info), case.clone())),
    }
}

/// Thorough tier: coverage-guided libFuzzer campaign over byte-coded histories (target `history`).
fn fuzz_campaign(run: &Run) {
    use crate::fuzz::{self, history_bin};
    use std::path::{Path, PathBuf};
    if !Path::new(history_bin()).exists() {
        run.health.lock().unwrap().push(format!("{} is missing (fuzz build failed?)", history_bin()));
        return;
    }
    let root = crate::driver::scratch_root().join("c01-fuzz");
    let _ = std::fs::remove_dir_all(&root);
    let prefix = "/verif/replays/C01-fuzz-";
    let _ = std::fs::create_dir_all("/verif/replays");
    let before: std::collections::HashSet<PathBuf> = fuzz::run_dirs_once(history_bin(), &[], prefix, &root).artifacts.into_iter().collect();
    // two campaigns: from the committed golden histories, and from an empty corpus; a smaller one with the dictionary
    let mut total = 0u64;
    for (name, seeded, runs, data) in [("seeded", true, 20000u64, false), ("empty-corpus", false, 12000, false), ("with-dictionary", true, 1500, true)] {
        let corpus = root.join(name);
        let seeds = corpus.join("seeds");
        std::fs::create_dir_all(&seeds).unwrap();
        if seeded {
            if let Ok(rd) = std::fs::read_dir("/verif/corpus/C01-fuzz") {
                for e in rd.flatten() {
                    let _ = std::fs::copy(e.path(), seeds.join(e.file_name()));
                }
            }
        }
        let out = fuzz::campaign(history_bin(), &corpus, runs, 16, run.seed, 300, prefix, &root, data);
        total += out.executed;
        run.parts.lock().unwrap().push(json!({"part": format!("libFuzzer campaign `history` ({name}, 16 jobs)"), "runs_approximate": out.executed, "ok": out.ok}));
        let new: Vec<PathBuf> = out.artifacts.iter().filter(|a| !before.contains(*a)).cloned().collect();
        {
            let mut st = run.stats.lock().unwrap();
            st.count("fuzz-slow-unit-notes-ignored", out.slow_units);
            st.count("fuzz-timeouts-under-load-not-reproduced", out.timeouts_not_reproduced);
        }
        if out.oom > 0 {
            run.health.lock().unwrap().push(format!("campaign {name}: {} out-of-memory report(s) - inconclusive", out.oom));
        }
        if !out.ok || !new.is_empty() {
            let mut f = Failure::new("fuzz-history-crash", format!("campaign {name}: {}", out.report.lines().take(8).collect::<Vec<_>>().join(" | ")), json!({}));
            f.artifact = new.first().cloned().or_else(|| Some(PathBuf::from("/verif/replays/C01-fuzz-no-artifact")));
            run.fail(f);
            break;
        }
    }
    run.stats.lock().unwrap().count("fuzz_runs_approximate", total);
    let _ = std::fs::remove_dir_all(&root);
}

pub fn replay_artifact(path: &std::path::Path) -> Result<(), Failure> {
    let (ok, rep) = crate::fuzz::run_one(crate::fuzz::history_bin(), path, true);
    if ok {
        Ok(())
    } else {
        Err(Failure::new("fuzz-history-crash", rep, json!({})))
    }
}
