//! C17 — smart quotes curl only the quotes that wrap a word, and nothing else.

use crate::driver::{keys, Ctx, Layout, Opts, Rendered, Sandbox};
use crate::model::{avro, curl_close, curl_open, ref_split, uncurl};
use crate::props::c01::panic_kind;
use crate::runner::{hash_of, with_fresh_retry, Failure, Run, Stats};
use proptest::prelude::*;
use serde_json::{json, Value};

pub const LEVEL: &str = "exploration";
pub const EXHAUSTIVE: bool = false;
pub const RULE: &str = "paired contexts differing only in the smart-quote option receive identical keys and are compared after EVERY key. Enumerated: every combination of <= W leading and <= W trailing characters from the 9-character set ' \" ( ) . ! - : ` (quick W=2: 91x91 wrapper pairs x 2 words; thorough W=3: 820x820 pairs x 1 word rotating through the word list) around words (dictionary-guided, emoji names, emoticons, words with a learned selection; Probhat key sequences in fixed mode); plus generated arbitrary strings; layout x English x ANSI x suggestions free, identical pre-populated selection store, no commits. Oracle: same variant, length and preselected index; uncurl(on[i]) == off[i] for every i; forward for lists: off[i] of the form P.core.T (P, T = the converted wrapper of the reference split of the composition) => on[i] == curl_open(P).core.curl_close(T), any other candidate unchanged, a candidate equal to the raw typed text is not judged forward; empty word part => lists identical. Non-trivial: a quote adjacent to a non-empty word part and a list with >= 2 candidates; distinct by (options, typed text). Plus: ONE context per shard switched off -> on -> off by update-engine (idle) for every text; the renderings with the option on and off must stand in the same relation as those of separately created contexts.";
pub const ASSUMPTIONS: &[&str] = &[
    "reference split transcribed from the documentation (self-tested at start-up)",
    "single-string suggestions (suggestions off) are only required to satisfy the un-curl relation",
];

const WRAP9: &str = "'\"().!-:`";
const STORE: &str = "{\"sesh\":\"\u{09B6}\u{09C7}\u{09B7}\",\"a\":\"\u{0986}\u{0983}\",\"smile\":\"\u{09B8}\u{09CD}\u{09AE}\u{09BF}\u{09B2}\u{09C7}\"}";

const PHON_WORDS: &[&str] = &["a", "ami", "sesh", "smile", "cool", "onno", "kkhet", "atm", "coffee", "help", "e", "k", "1", "\\", "x`", ":)", ";)", "a:", "i", "computergulo", "T", "rri", "+1", "<3", "o", "hothate", "academy", "w", "Z", "10"];
const FIXED_WORDS: &[&str] = &["vmi", "hvsi", "k", "kmpiu", "rwp", ";)", "h<qz", "1", "lj/jv", "A", "[k", "/i", "k/Z", "B]", "gvn", "mn"];

pub struct Pair {
    on: Ctx,
    off: Ctx,
}

pub struct Local {
    _sbs: Vec<Sandbox>,
    pairs: Vec<Pair>, // index = fixed | english<<1 | ansi<<2 | suggestions<<3
}

pub fn mk_local() -> Local {
    let mut sbs = vec![];
    let mut pairs = vec![];
    for i in 0..16 {
        let mut o = Opts::parse("");
        o.layout = if i & 1 != 0 { Layout::Probhat } else { Layout::Phonetic };
        o.english = i & 2 != 0;
        o.ansi = i & 4 != 0;
        o.psug = i & 8 != 0;
        o.fsug = i & 8 != 0;
        o.kar = i & 1 != 0 && i & 2 != 0;
        o.nodata = i & 8 == 0;
        let mut mk = |smart: bool| {
            let sb = Sandbox::new();
            std::fs::write(sb.selection_file(), STORE).expect("store");
            let mut oo = o;
            oo.smart = smart;
            let c = Ctx::new(oo, &sb).expect("context");
            sbs.push(sb);
            c
        };
        pairs.push(Pair { on: mk(true), off: mk(false) });
    }
    Local { _sbs: sbs, pairs }
}

/// Compare the two renderings after one event.
fn compare(on: &Rendered, off: &Rendered, fixed: bool, typed_raw: &str, case: &dyn Fn() -> Value) -> Result<bool, Failure> {
    compare_with(on, off, fixed, &|b: &str| b == typed_raw, case)
}

/// `is_raw(candidate of the option-off list)`: is this the raw typed text (which is never curled)?
pub fn compare_with(on: &Rendered, off: &Rendered, fixed: bool, is_raw: &dyn Fn(&str) -> bool, case: &dyn Fn() -> Value) -> Result<bool, Failure> {
    if on.lonely != off.lonely {
        return Err(Failure::new("variant-differs", format!("on={} off={}", on.short(), off.short()), case()));
    }
    if on.lonely {
        if uncurl(&on.text) != off.text {
            return Err(Failure::new("uncurl-relation", format!("single string: on={:?} off={:?}", on.text, off.text), case()));
        }
        return Ok(false);
    }
    if on.text != off.text {
        return Err(Failure::new("auxiliary-differs", format!("on={:?} off={:?}", on.text, off.text), case()));
    }
    if on.cands.len() != off.cands.len() || on.sel != off.sel {
        return Err(Failure::new(
            "length-or-preselection-differs",
            format!("on: len {} sel {} {:?}; off: len {} sel {} {:?}", on.cands.len(), on.sel, on.cands, off.cands.len(), off.sel, off.cands),
            case(),
        ));
    }
    let comp = &off.text; // the in-progress composition (raw Latin text / composed Bengali text)
    let (pre, word, trail) = ref_split(comp, fixed);
    let (p, t) = if fixed { (pre.clone(), trail.clone()) } else { (avro(&pre), avro(&trail)) };
    for (i, (a, b)) in on.cands.iter().zip(off.cands.iter()).enumerate() {
        if uncurl(a) != *b {
            return Err(Failure::new("uncurl-relation", format!("candidate {i}: on={a:?} off={b:?} (composition {comp:?})"), case()));
        }
        if word.is_empty() {
            if a != b {
                return Err(Failure::new("punctuation-only-changed", format!("text without a word part: on={a:?} off={b:?}"), case()));
            }
            continue;
        }
        if is_raw(b) {
            continue; // the raw typed text: not judged forward
        }
        let wrapped = b.len() >= p.len() + t.len() && b.starts_with(&p) && b.ends_with(&t);
        let want = if wrapped {
            let core = &b[p.len()..b.len() - t.len()];
            format!("{}{}{}", curl_open(&p), core, curl_close(&t))
        } else {
            b.clone()
        };
        if *a != want {
            return Err(Failure::new(
                "curling",
                format!("candidate {i} of composition {comp:?}: off={b:?}, on={a:?}, expected {want:?}"),
                case(),
            ));
        }
    }
    let quote_adjacent = !word.is_empty() && (pre.contains(['\'', '"']) || trail.contains(['\'', '"']));
    Ok(quote_adjacent && on.cands.len() >= 2)
}

/// keys: (code, modifier, ascii char typed)
fn check_keys(pair: &Pair, ks: &[(u16, u8)], st: &mut Stats, case: &dyn Fn() -> Value) -> Result<(), Failure> {
    let pf = |p: crate::driver::PanicInfo| Failure::new(panic_kind(&p), p.to_string(), case());
    pair.on.finish().map_err(pf)?;
    pair.off.finish().map_err(pf)?;
    let fixed = !pair.on.opts.is_phonetic();
    let mut raw = String::new();
    let mut nontrivial = false;
    for (c, m) in ks {
        if let Some(ch) = keys().by_code(*c).and_then(|k| k.ascii) {
            raw.push(ch);
        }
        let a = pair.on.key(*c, *m, 0).map_err(pf)?;
        let b = pair.off.key(*c, *m, 0).map_err(pf)?;
        st.count("events-compared", 1);
        if compare(&a, &b, fixed, &raw, case)? {
            nontrivial = true;
        }
    }
    pair.on.finish().map_err(pf)?;
    pair.off.finish().map_err(pf)?;
    if nontrivial {
        st.label("quote-adjacent-to-word-with-list");
        let o = pair.on.opts.letters();
        st.nontrivial(hash_of(&(&o, &raw)), || json!({"options_on": o, "typed": raw}));
    }
    Ok(())
}

fn ascii_keys(s: &str) -> Vec<(u16, u8)> {
    s.chars().map(|c| (keys().code_for(c), 0)).collect()
}

fn wrappers(maxlen: usize) -> Vec<String> {
    let cs: Vec<char> = WRAP9.chars().collect();
    let mut out = vec![String::new()];
    let mut frontier = vec![String::new()];
    for _ in 0..maxlen {
        let mut next = vec![];
        for f in &frontier {
            for c in &cs {
                next.push(format!("{f}{c}"));
            }
        }
        out.extend(next.iter().cloned());
        frontier = next;
    }
    out
}

fn text_case(pi: usize, text: &str) -> Value {
    json!({"pair": pi, "text": text})
}

/// "same ... preselection": after the SAME non-preselected candidate index has been committed in both
/// contexts (each learns into its own user directory), re-typing the text - with the same wrapper,
/// bare, and with another wrapper - must still show lists that un-curl to each other with the same
/// preselected index.  Fresh pair per case (learning changes the contexts for good).
fn learn_then_retype(run: &Run, english: bool, word: &str, wrap: (&str, &str), frac: u16, other: (&str, &str), st: &mut Stats) -> Result<(), Failure> {
    let case = || json!({"learn": true, "english": english, "word": word, "wrap": [wrap.0, wrap.1], "frac": frac, "other_wrap": [other.0, other.1]});
    let pf = |p: crate::driver::PanicInfo| Failure::new(panic_kind(&p), p.to_string(), case());
    let mut sbs = vec![];
    let mut mk = |smart: bool| -> Result<Ctx, Failure> {
        let sb = Sandbox::new();
        std::fs::write(sb.selection_file(), STORE).expect("store");
        let mut o = Opts::parse("s");
        o.english = english;
        o.smart = smart;
        let c = Ctx::new(o, &sb).map_err(pf)?;
        sbs.push(sb);
        Ok(c)
    };
    let pair = Pair { on: mk(true)?, off: mk(false)? };
    let text = format!("{}{}{}", wrap.0, word, wrap.1);
    // type in both, compare, commit the same index
    let mut last = None;
    let mut raw = String::new();
    for ch in text.chars() {
        raw.push(ch);
        let a = pair.on.ch(ch, 0).map_err(pf)?;
        let b = pair.off.ch(ch, 0).map_err(pf)?;
        compare(&a, &b, false, &raw, &case)?;
        last = Some(a);
    }
    let r = last.unwrap();
    if r.lonely || r.cands.len() < 2 {
        return Ok(());
    }
    let idx = ((frac as usize) * r.cands.len()) >> 16;
    if r.cands[idx] == text {
        // known finding (same root cause as C09-raw-english-wrapper): the raw English candidate is stored
        // as the Latin word; re-wrapped in CURLED quotes it is not found again, re-wrapped in straight
        // quotes it is - the two contexts then preselect differently.  Not judged, counted.
        if run.absorb(st, "raw-english-choice-under-curled-wrapper") {
            return Ok(());
        }
    }
    pair.on.commit(idx).map_err(pf)?;
    pair.off.commit(idx).map_err(pf)?;
    if idx != r.sel {
        st.label("learning-commit-inside-a-pair");
    }
    for t in [text.clone(), word.to_string(), format!("{}{}{}", other.0, word, other.1)] {
        check_keys(&pair, &ascii_keys(&t), st, &case)?;
    }
    st.nontrivial(hash_of(&("learn", english, word, wrap, frac, other)), case);
    Ok(())
}

/// "Turning smart quotes on": ONE live context per shard is switched on and off by update-engine (while idle) for
/// every text; the renderings it returns with the option on and with it off must stand in the same relation as
/// those of two separately created contexts.
pub struct Toggled {
    sb: Sandbox,
    ctx: Ctx,
}

fn mk_toggled(shard: usize) -> Toggled {
    let i = shard | 8; // suggestions on in (almost) every shard, layout / English / ANSI varied
    let mut o = Opts::parse("");
    o.layout = if i & 1 != 0 { Layout::Probhat } else { Layout::Phonetic };
    o.english = i & 2 != 0;
    o.ansi = i & 4 != 0;
    o.psug = shard != 6;
    o.fsug = shard != 7;
    o.kar = i & 1 != 0 && i & 2 != 0;
    let sb = Sandbox::new();
    std::fs::write(sb.selection_file(), STORE).expect("store");
    Toggled { ctx: Ctx::new(o, &sb).expect("context"), sb }
}

fn toggled_case(text: &str, lo: &mut Toggled, st: &mut Stats) -> Result<(), Failure> {
    let base = lo.ctx.opts;
    let case = || json!({"toggled": true, "options": base.letters(), "text": text});
    let pf = |p: crate::driver::PanicInfo| Failure::new(panic_kind(&p), p.to_string(), case());
    let fixed = !base.is_phonetic();
    let ks = ascii_keys(text);
    let mut renderings: Vec<Vec<Rendered>> = vec![];
    // off, on, off again: both directions of the switch are exercised
    for smart in [false, true, false] {
        let mut o = base;
        o.smart = smart;
        lo.ctx.finish().map_err(pf)?;
        lo.ctx.update(o, &lo.sb).map_err(pf)?;
        let mut rs = vec![];
        for (c, m) in &ks {
            rs.push(lo.ctx.key(*c, *m, 0).map_err(pf)?);
        }
        lo.ctx.finish().map_err(pf)?;
        renderings.push(rs);
    }
    let mut raw = String::new();
    for (i, (c, _)) in ks.iter().enumerate() {
        if let Some(ch) = keys().by_code(*c).and_then(|k| k.ascii) {
            raw.push(ch);
        }
        st.count("events-compared", 2);
        for off in [0usize, 2] {
            compare(&renderings[1][i], &renderings[off][i], fixed, &raw, &case).map_err(|mut f| {
                f.kind = format!("switched-by-update-engine:{}", f.kind);
                f.message = format!("one context, smart quotes switched by update-engine ({}): {}", if off == 0 { "off -> on" } else { "on -> off" }, f.message);
                f
            })?;
        }
    }
    st.label("toggled-context-texts");
    Ok(())
}

/// Fixed layouts, erase and continue: quote(s), consonant, a sign (with traditional joining one key is two code points),
/// 1-4 plain backspaces, one more key - compared after EVERY event.  What the engine remembers about the raw keys and
/// what is left of the composed text part company here; the curling must follow the composed text.
fn erase_and_continue_pairs(run: &Run) {
    let inv = crate::driver::layout_inverse(Layout::Probhat);
    let k = |v: &str| inv.get(v).copied();
    let mut items: Vec<(usize, Vec<(u16, u8)>, usize)> = vec![];
    for pi in [9usize, 11, 13, 15] {
        for q in ["\"", "'", "(\""] {
            for c1 in ["\u{0995}", "\u{09B0}"] {
                for sg in ["\u{09C1}", "\u{09C2}", "\u{09BE}", "\u{09BF}"] {
                    for n in 1usize..=4 {
                        let mut ks: Vec<(u16, u8)> = vec![];
                        let mut ok = true;
                        for ch in q.chars() {
                            match k(&ch.to_string()) {
                                Some(x) => ks.push(x),
                                None => ok = false,
                            }
                        }
                        for v in [c1, sg] {
                            match k(v) {
                                Some(x) => ks.push(x),
                                None => ok = false,
                            }
                        }
                        if ok {
                            items.push((pi, ks, n));
                        }
                    }
                }
            }
        }
    }
    let next = k("\u{0995}").unwrap_or((0, 0));
    run.exhaustive(
        "fixed-layout-erase-and-continue-behind-a-quote",
        &items,
        |_| mk_local(),
        |(pi, ks, n), st, lo| {
            let pair = &lo.pairs[*pi];
            let case = || json!({"erase_and_continue": {"pair": pi, "keys": ks, "backspaces": n}});
            let pf = |p: crate::driver::PanicInfo| Failure::new(panic_kind(&p), p.to_string(), case());
            pair.on.finish().map_err(pf)?;
            pair.off.finish().map_err(pf)?;
            let is_raw = |c: &str| c.is_ascii();
            for (c, m) in ks {
                let (a, b) = (pair.on.key(*c, *m, 0).map_err(pf)?, pair.off.key(*c, *m, 0).map_err(pf)?);
                compare_with(&a, &b, true, &is_raw, &case)?;
            }
            for _ in 0..*n {
                let (a, b) = (pair.on.backspace(false).map_err(pf)?, pair.off.backspace(false).map_err(pf)?);
                if a.is_empty() || b.is_empty() {
                    if a.is_empty() != b.is_empty() {
                        return Err(Failure::new("variant-differs", format!("after a backspace: on={} off={}", a.short(), b.short()), case()));
                    }
                    break;
                }
                compare_with(&a, &b, true, &is_raw, &case)?;
            }
            let (a, b) = (pair.on.key(next.0, next.1, 0).map_err(pf)?, pair.off.key(next.0, next.1, 0).map_err(pf)?);
            st.evals(1);
            if compare_with(&a, &b, true, &is_raw, &case)? {
                st.label("quote-adjacent-to-word-with-list");
            }
            pair.on.finish().map_err(pf)?;
            pair.off.finish().map_err(pf)?;
            st.label("erase-and-continue-pairs");
            Ok(())
        },
    );
}

pub fn run(run: &Run) {
    erase_and_continue_pairs(run);
    let lw: Vec<(&str, &str)> = vec![("\"", "\""), ("'", "'"), ("\"(", ")\""), ("", "\"."), ("'", ""), ("(\"", "\")"), ("", "")];
    let words: Vec<&str> = PHON_WORDS.iter().copied().filter(|w| w.chars().all(|c| c.is_ascii_alphabetic())).collect();
    let (lw2, words2) = (lw.clone(), words.clone());
    run.sharded(
        "learn-then-retype-pairs",
        16,
        run.tier.pick(40, 1200),
        200,
        move || (any::<bool>(), 0..words2.len(), 0..lw2.len(), any::<u16>(), 0..lw2.len()),
        |_| (),
        |(english, wi, li, frac, oi): &(bool, usize, usize, u16, usize), st, _| learn_then_retype(run, *english, words[*wi], lw[*li], *frac, lw[*oi], st),
    );
    run.require_label("learning-commit-inside-a-pair", 100);
    let ws = wrappers(run.tier.pick(2, 3));
    let per = run.tier.pick(2, 1);
    let items: Vec<usize> = (0..ws.len()).collect();
    let ws2 = ws.clone();
    run.exhaustive(
        "wrapper-combinations-x-words",
        &items,
        |_| mk_local(),
        |&li, st, lo| {
            for (ti, t) in ws2.iter().enumerate() {
                for k in 0..per {
                    st.evals(1);
                    let h = hash_of(&(li, ti, k)) as usize;
                    // only pairs with suggestions on matter for wrappers; keep 1 in 8 with them off
                    let pi = if h % 8 == 0 { h / 8 % 8 } else { 8 + h / 8 % 8 };
                    let fixed = pi & 1 != 0;
                    let w = if fixed { FIXED_WORDS[h / 64 % FIXED_WORDS.len()] } else { PHON_WORDS[h / 64 % PHON_WORDS.len()] };
                    let text = format!("{}{}{}", ws2[li], w, t);
                    let f = |l: &mut Local, s: &mut Stats| check_keys(&l.pairs[pi], &ascii_keys(&text), s, &|| text_case(pi, &text));
                    with_fresh_retry(lo, mk_local, f, st)?;
                }
            }
            Ok(())
        },
    );
    let any: Vec<char> = crate::driver::typeable().into_iter().chain("''''\"\"\"\"``::..".chars()).collect();
    run.sharded(
        "generated-strings",
        16,
        run.tier.pick(1500, 40000),
        1000,
        move || (0usize..16, proptest::collection::vec(proptest::sample::select(any.clone()), 1..12).prop_map(|v| v.into_iter().collect::<String>())),
        |_| mk_local(),
        |(pi, text): &(usize, String), st, lo| {
            let f = |l: &mut Local, s: &mut Stats| check_keys(&l.pairs[*pi], &ascii_keys(text), s, &|| text_case(*pi, text));
            with_fresh_retry(lo, mk_local, f, st)
        },
    );
    run.require_label("quote-adjacent-to-word-with-list", 50);
    let any2: Vec<char> = crate::driver::typeable().into_iter().chain("''''\"\"\"\"``::..".chars()).collect();
    let qw: Vec<String> = lw.iter().flat_map(|(a, b)| PHON_WORDS.iter().chain(FIXED_WORDS.iter()).map(move |w| format!("{a}{w}{b}"))).collect();
    run.sharded(
        "one-context-switched-by-update-engine",
        16,
        run.tier.pick(400, 8000),
        0,
        move || prop_oneof![2 => proptest::sample::select(qw.clone()), 1 => proptest::collection::vec(proptest::sample::select(any2.clone()), 1..10).prop_map(|v| v.into_iter().collect::<String>())],
        mk_toggled,
        |text: &String, st, lo| toggled_case(text, lo, st),
    );
    run.require_label("toggled-context-texts", 1000);
}

pub fn replay(run: &Run, case: &Value) -> Result<(), Failure> {
    if case["learn"].as_bool() == Some(true) {
        let s = |v: &Value| v.as_str().unwrap_or_default().to_string();
        let (w0, w1, o0, o1) = (s(&case["wrap"][0]), s(&case["wrap"][1]), s(&case["other_wrap"][0]), s(&case["other_wrap"][1]));
        return learn_then_retype(run, case["english"].as_bool().unwrap_or(false), case["word"].as_str().unwrap_or_default(), (&w0, &w1), case["frac"].as_u64().unwrap_or(0) as u16, (&o0, &o1), &mut Stats::new());
    }
    if case["toggled"].as_bool() == Some(true) {
        let o = Opts::parse(case["options"].as_str().unwrap_or_default());
        let sb = Sandbox::new();
        std::fs::write(sb.selection_file(), STORE).expect("store");
        let mut lo = Toggled { ctx: Ctx::new(o, &sb).map_err(|p| Failure::new(panic_kind(&p), p.to_string(), case.clone()))?, sb };
        return toggled_case(case["text"].as_str().unwrap_or_default(), &mut lo, &mut Stats::new());
    }
    let lo = mk_local();
    let pi = case["pair"].as_u64().unwrap_or(8) as usize % 16;
    let text = case["text"].as_str().unwrap_or_default();
    check_keys(&lo.pairs[pi], &ascii_keys(text), &mut Stats::new(), &|| case.clone())
}
