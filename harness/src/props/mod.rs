pub mod c01;
