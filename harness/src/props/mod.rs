pub mod c01;
pub mod c02;
pub mod c04;
pub mod c12;
pub mod c13;
pub mod c14;
