pub mod c01;
pub mod c02;
