//! C07 — phonetic candidates are ranked best-first by a fixed, explainable order.

use crate::driver::{Ctx, Opts, Rendered, Sandbox};
use crate::gen::pools;
use crate::phon::{analyse, classify, TextInfo};
use crate::props::c01::panic_kind;
use crate::runner::{hash_of, with_fresh_retry, Failure, Run, Stats};
use proptest::prelude::*;
use serde_json::{json, Value};
use std::collections::HashMap;

pub const LEVEL: &str = "exploration";
pub const EXHAUSTIVE: bool = false;
pub const RULE: &str = "typed texts judged after every key: exhaustive over the 94 typeable characters for length 1..2 (thorough also length 3 over a 30-character sub-alphabet), every bundled auto-correct key, every emoji name and emoticon, then generated words (auto-correct keys / random Avro-biased letters, +/- one of the 737 suffix keys, +/- wrapping punctuation); options English / smart quote / ANSI free; in 1 of 5 generated cases a user auto-correct file that overrides a bundled key or adds one for the word or a base. Oracle: every candidate is classified independently (auto-correct of the word, user before bundled; dictionary word matching the okkhor pattern with distance = own Levenshtein to the transliteration; suffix-built from a dictionary base with the base's distance, all splits collected; suffix-built from an auto-correct base; emoji of the tables; transliteration; raw text). Checks: auto-correct exists => it is candidate 0; a greedy pass finds a non-decreasing distance assignment for the dictionary-class candidates in list order; the transliteration, unless a dictionary match, comes after every dictionary-class candidate; English on and text not an emoticon => raw text last; no emoji before a dictionary word that equals the transliteration; no text twice. Non-trivial: the list mixes >= 3 classes or contains a suffix-built item; distinct by (options, user file, text). Plus a data-guided part: validated spellings (independent oracle) of 573 dictionary words covering every final character class, bare and with a suffix key, and of EVERY word the dictionary lists more than once (all 8 option sets).";
pub const ASSUMPTIONS: &[&str] = &[
    "dictionary / auto-correct / suffix JSON read independently; okkhor regex; own Levenshtein over code points; emojicon tables",
    "the position of suffix forms built on an auto-correct base is not constrained (the statement does not place them)",
    "emoticon texts: literal before transliteration is pinned by riti's tests, so 'raw text last' applies to non-emoticon texts",
];

pub struct Local {
    sb: Sandbox,
    ctxs: Vec<Ctx>, // english | smart<<1 | ansi<<2
}

pub fn mk_local() -> Local {
    let sb = Sandbox::new();
    // contexts 0..8: created with their options.  8 and 9: the English-on sets (without / with smart quotes) reached the
    // way a front-end reaches them that keeps its configuration object: created under ANSI with English off, then
    // every setter called on the SAME object (in a rotated order) and update-engine
    let mut ctxs: Vec<Ctx> = (0..8).map(|i| Ctx::new(opts_of(i), &sb).expect("context")).collect();
    for i in 8..N_CTX {
        let target = opts_of(i);
        let mut from = target;
        from.ansi = true;
        from.english = false;
        let mut c = Ctx::new(from, &sb).expect("context");
        c.update_with(target, &sb, crate::driver::UpdateMode::KeepAllRot(0, i == 9)).expect("update-engine");
        ctxs.push(c);
    }
    Local { sb, ctxs }
}

const N_CTX: usize = 10;

fn opts_of(i: usize) -> Opts {
    let i = match i % N_CTX {
        8 => 1,
        9 => 3,
        k => k,
    };
    let mut o = Opts::parse("s");
    o.english = i & 1 != 0;
    o.smart = i & 2 != 0;
    o.ansi = i & 4 != 0;
    o
}

/// Judge one returned list for the typed text.
pub fn judge(run: &Run, st: &mut Stats, opts: &Opts, text: &str, r: &Rendered, user: &HashMap<String, String>, case: &dyn Fn() -> Value) -> Result<(), Failure> {
    if r.lonely {
        return Err(Failure::new("not-list", "single string with suggestions on", case()));
    }
    let info: TextInfo = analyse(text, opts.smart, opts.ansi, user);
    let cands = &r.cands;
    let classes: Vec<_> = cands.iter().map(|c| classify(&info, c, user)).collect();
    let fail = |kind: &str, msg: String| Failure::new(kind, format!("typed {text:?} ({}): {msg}; list {:?}", opts.letters(), cands), case());
    // duplicates
    for i in 0..cands.len() {
        for j in i + 1..cands.len() {
            if cands[i] == cands[j] {
                let kind = if cands[i] == text && format!("{}{}{}", info.p, info.translit_core, info.t) == text {
                    "duplicate-raw-equals-transliteration"
                } else {
                    "duplicate"
                };
                if !run.absorb(st, kind) {
                    return Err(fail(kind, format!("candidate {:?} occurs at {i} and {j}", cands[i])));
                }
            }
        }
    }
    // auto-correct first
    if let Some(ac) = &info.ac_core {
        if !info.word.is_empty() {
            let want = format!("{}{}{}", info.p, ac, info.t);
            if cands.first() != Some(&want) {
                return Err(fail("autocorrect-not-first", format!("auto-correct entry {want:?} must be candidate 0")));
            }
        }
    }
    // non-decreasing distance assignment
    let mut prev: i64 = -1;
    let mut seen_translit_only: Option<usize> = None;
    let mut classes_seen = std::collections::BTreeSet::new();
    let mut any_suffix = false;
    let eng_last = opts.english && !opts.ansi && !info.is_emoticon && !info.word.is_empty();
    for (i, (c, cl)) in cands.iter().zip(classes.iter()).enumerate() {
        if cl.suffix_built {
            any_suffix = true;
        }
        if cl.autocorrect {
            classes_seen.insert("autocorrect");
        }
        if cl.emoji {
            classes_seen.insert("emoji");
        }
        if !cl.distances.is_empty() {
            classes_seen.insert("dictionary");
        }
        if cl.translit {
            classes_seen.insert("transliteration");
        }
        if cl.raw {
            classes_seen.insert("raw");
        }
        if !cl.any() {
            st.count("unclassified-candidates", 1);
            continue;
        }
        let is_raw_slot = cl.raw && eng_last && i == cands.len() - 1;
        if is_raw_slot || cl.emoji {
            continue;
        }
        if cl.autocorrect && i == 0 {
            continue;
        }
        if cl.from_ac_base {
            continue; // may be first-ranked through its auto-correct base: position not constrained
        }
        if cl.translit && !cl.distances.is_empty() && !cl.distances.iter().any(|d| *d as i64 >= prev) {
            // The transliteration is in dictionary.json and matches the pattern, but the engine did not
            // FIND it as a dictionary word (its look-up is restricted to the sections of the first letter,
            // e.g. "o`i" -> U+0987 lives in section "i"): then it is "the plain transliteration" and must
            // come after every dictionary word (DESIGN 6b).
            seen_translit_only = Some(i);
            continue;
        }
        if !cl.distances.is_empty() {
            if let Some(li) = seen_translit_only {
                return Err(fail("dictionary-word-after-transliteration", format!("dictionary candidate {c:?} (index {i}) follows the plain transliteration (index {li})")));
            }
            match cl.distances.iter().find(|d| **d as i64 >= prev) {
                Some(d) => prev = *d as i64,
                None => {
                    return Err(fail(
                        "distance-order",
                        format!("candidate {c:?} (index {i}) has feasible distances {:?} but a candidate before it needs at least {prev}", cl.distances),
                    ))
                }
            }
        } else if cl.translit && !cl.from_ac_base && !cl.autocorrect {
            seen_translit_only = Some(i);
        }
    }
    // raw text last
    if eng_last && cands.last().map(|c| c.as_str()) != Some(text) {
        return Err(fail("raw-text-not-last", "English option on: the raw typed text must be the last candidate".into()));
    }
    // no emoji before a dictionary word equal to the transliteration
    let translit_full = format!("{}{}{}", info.p, info.translit_core, info.t);
    if let Some(ti) = cands.iter().position(|c| *c == translit_full) {
        // dictionary sections are keyed by lower-case Latin prefixes: only words that start with a
        // lower-case letter are looked up at all, so only there can the transliteration be "one of
        // those words" (DESIGN section 6)
        if classes[ti].direct_dict && info.word.starts_with(|c: char| c.is_ascii_lowercase()) {
            if let Some(ei) = (0..ti).find(|i| classes[*i].emoji && !classes[*i].any_non_emoji()) {
                return Err(fail("emoji-before-exact-dictionary-word", format!("emoji at {ei} precedes the dictionary word that equals the transliteration at {ti}")));
            }
        }
    }
    if classes_seen.len() >= 3 || any_suffix {
        if any_suffix {
            st.label("has-suffix-built");
        }
        if classes_seen.contains("autocorrect") {
            st.label("has-autocorrect");
        }
        if cands.len() >= 25 {
            st.label("list-of-25-or-more");
        }
        if classes_seen.contains("emoji") {
            st.label("has-emoji");
        }
        let uh: Vec<(&String, &String)> = { let mut v: Vec<_> = user.iter().collect(); v.sort(); v };
        st.nontrivial(hash_of(&(opts.letters(), &uh, text)), || json!({"opts": opts.letters(), "text": text, "list": cands, "user_autocorrect": user}));
    }
    Ok(())
}

fn type_and_judge(run: &Run, ctx: &Ctx, text: &str, user: &HashMap<String, String>, st: &mut Stats, case: &dyn Fn() -> Value) -> Result<(), Failure> {
    let pf = |p: crate::driver::PanicInfo| Failure::new(panic_kind(&p), p.to_string(), case());
    ctx.finish().map_err(pf)?;
    let mut typed = String::new();
    for c in text.chars() {
        typed.push(c);
        let r = ctx.ch(c, 0).map_err(pf)?;
        st.count("lists-judged", 1);
        if typed.len() > 1 {
            st.evals(1); // evaluations = lists judged
        }
        judge(run, st, &ctx.opts, &typed, &r, user, case)?;
    }
    ctx.finish().map_err(pf)?;
    Ok(())
}

#[derive(Clone, Debug)]
pub struct Case {
    pub text: String,
    pub optidx: usize,
    pub user: Vec<(String, String)>,
}

fn case_json(c: &Case) -> Value {
    json!({"text": c.text, "optidx": c.optidx, "user": c.user})
}

fn run_case(run: &Run, c: &Case, lo: &mut Local, st: &mut Stats) -> Result<(), Failure> {
    let user: HashMap<String, String> = c.user.iter().cloned().collect();
    if user.is_empty() {
        let f = |l: &mut Local, s: &mut Stats| type_and_judge(run, &l.ctxs[c.optidx % N_CTX], &c.text, &user, s, &|| case_json(c));
        with_fresh_retry(lo, mk_local, f, st)
    } else {
        // a user auto-correct file needs its own context
        let sb = Sandbox::new();
        std::fs::write(sb.autocorrect_file(), serde_json::to_string(&user).unwrap()).expect("write user autocorrect");
        let mut ctx = Ctx::new(opts_of(c.optidx % 8), &sb).map_err(|p| Failure::new(panic_kind(&p), p.to_string(), case_json(c)))?;
        st.label("with-user-autocorrect-file");
        if c.text.len() % 3 == 0 {
            // the user's list was away for a moment (file moved aside, update-engine, file moved back untouched,
            // update-engine): it is in force again and its entry comes first
            let pf = |p: crate::driver::PanicInfo| Failure::new(panic_kind(&p), p.to_string(), case_json(c));
            let f = sb.autocorrect_file();
            if let (Ok(bytes), Ok(m)) = (std::fs::read(&f), std::fs::metadata(&f).and_then(|m| m.modified())) {
                std::fs::remove_file(&f).expect("move aside");
                let o = ctx.opts;
                ctx.update(o, &sb).map_err(pf)?;
                std::fs::write(&f, bytes).expect("move back");
                std::fs::File::options().write(true).open(&f).expect("open").set_modified(m).expect("mtime");
                ctx.update(o, &sb).map_err(pf)?;
                st.label("user-list-away-and-back");
            }
        }
        type_and_judge(run, &ctx, &c.text, &user, st, &|| case_json(c))
    }
}

pub fn strategy() -> impl Strategy<Value = Case> {
    let p = pools();
    let letters: Vec<char> = "aaeiioukhgnrtsdlmbpcjyzwvfxqOIUNTDRSZ".chars().collect();
    let punct: Vec<char> = "-]~!@#%&*()_=+[{}'\";<>/?|.,:`".chars().collect();
    let base = prop_oneof![
        3 => proptest::sample::select(p.ac_keys.clone()),
        3 => proptest::collection::vec(proptest::sample::select(letters), 1..6).prop_map(|v| v.into_iter().collect::<String>()),
        1 => proptest::sample::select(p.emoji_names.clone()),
        // words a user may well put into the list: digits only, digits and letters, a capital, a single letter
        1 => proptest::sample::select(vec!["786".to_string(), "71".to_string(), "2k".to_string(), "b4".to_string(), "0".to_string(), "K".to_string(), "Dr".to_string(), "x".to_string(), "w8".to_string()]),
    ];
    let sfx = prop_oneof![2 => Just(String::new()), 3 => proptest::sample::select(p.suffix_keys.clone())];
    let wrap = || proptest::collection::vec(proptest::sample::select(punct.clone()), 0..3).prop_map(|v| v.into_iter().collect::<String>());
    let wrapped = prop_oneof![3 => Just((String::new(), String::new())), 1 => (wrap(), wrap())];
    // user file: 0 = none, 1 = override/add for the word, 2 = for the base, 3 = for a bundled key that is a prefix
    let user_kind = prop_oneof![7 => Just(0u8), 2 => Just(1u8), 1 => Just(2u8)];
    let val = proptest::sample::select(vec!["kkk".to_string(), "Onyo".to_string(), "amader".to_string(), "ekademi".to_string(), "tOmar".to_string(), "a".to_string()]);
    (base, sfx, wrapped, 0usize..8, user_kind, val).prop_map(|(b, s, (l, t), optidx, uk, val)| {
        let word = format!("{b}{s}");
        let user = match uk {
            1 => vec![(word.clone(), val)],
            2 => vec![(b.clone(), val)],
            _ => vec![],
        };
        Case { text: format!("{l}{word}{t}"), optidx, user }
    })
}

/// Long lists: the ranking clauses hold for lists of any length.  The consonant-vowel-consonant bases with the longest
/// lists (found by typing all 1 445 of them) x the 40 shortest suffix keys, under the option sets with and without
/// the English item.
fn long_lists(run: &Run) {
    let cons: Vec<char> = "kgcjtdnpbmrlsShzy".chars().collect();
    let vow: Vec<char> = "aeiou".chars().collect();
    let mut bases: Vec<String> = vec![];
    for a in &cons {
        for v in &vow {
            for b in &cons {
                bases.push(format!("{a}{v}{b}"));
            }
        }
    }
    // rank the bases by the length of their own list (one context, deterministic)
    let lo = mk_local();
    let mut ranked: Vec<(usize, String)> = bases
        .into_iter()
        .map(|b| {
            let n = lo.ctxs[0].type_text(&b).ok().flatten().map(|r| r.choices()).unwrap_or(0);
            let _ = lo.ctxs[0].finish();
            (n, b)
        })
        .collect();
    ranked.sort_by(|x, y| y.0.cmp(&x.0).then(x.1.cmp(&y.1)));
    ranked.truncate(run.tier.pick(40, 160));
    let mut sk: Vec<String> = pools().suffix_keys.clone();
    sk.sort_by_key(|s| (s.len(), s.clone()));
    sk.truncate(40);
    let items: Vec<(usize, String)> = ranked.iter().flat_map(|(_, b)| sk.iter().map(move |s| format!("{b}{s}"))).enumerate().collect();
    run.exhaustive(
        "long-lists",
        &items,
        |_| mk_local(),
        |(i, text), st, lo| {
            // every text under an option set with the English item and one without
            for optidx in [*i % 8, (*i % 8) ^ 1] {
                let c = Case { text: text.clone(), optidx, user: vec![] };
                run_case(run, &c, lo, st)?;
            }
            Ok(())
        },
    );
    run.require_label("list-of-25-or-more", 5);
}

/// One context lives through ALL auto-correct keys (and first through `pass` other words, which shifts every later
/// keystroke by a few memo entries): thousands of distinct word parts in one context, each list judged as usual.  A
/// bound on anything the engine keeps per word (256, 1024, 4096 entries ...) is crossed inside this stream, and the
/// keystroke that crosses it completes an auto-correct key in at least one of the passes.
fn long_lived_pass(run: &Run, pass: usize, upto: Option<usize>, st: &mut Stats) -> Result<(), Failure> {
    let p = pools();
    let sb = Sandbox::new();
    let ctx = Ctx::new(opts_of(pass), &sb).map_err(|e| Failure::new(panic_kind(&e), e.to_string(), json!({})))?;
    let user = HashMap::new();
    for j in 0..pass {
        let w = format!("q{}", j + 2);
        type_and_judge(run, &ctx, &w, &user, st, &|| json!({"long_lived_keys": {"pass": pass, "upto": 0}}))?;
    }
    for (i, k) in p.ac_keys.iter().enumerate() {
        if upto.map(|u| i > u).unwrap_or(false) {
            break;
        }
        let case = || json!({"long_lived_keys": {"pass": pass, "upto": i}, "text": k});
        if let Err(f) = type_and_judge(run, &ctx, k, &user, st, &case) {
            // the same key in a brand-new context: wrong in itself, or only after everything typed before?
            let fresh = Ctx::new(opts_of(pass), &sb).map_err(|e| Failure::new(panic_kind(&e), e.to_string(), case()))?;
            let was = st.frozen;
            st.frozen = true;
            let alone = type_and_judge(run, &fresh, k, &user, st, &case);
            st.frozen = was;
            return Err(match alone {
                Err(f2) => f2,
                Ok(()) => Failure::new(format!("warm-only:{}", f.kind), format!("only after {i} other auto-correct keys in the same context (history dependence): {}", f.message), f.case),
            });
        }
    }
    st.label("long-lived-context-all-auto-correct-keys");
    Ok(())
}

pub fn run(run: &Run) {
    let passes: Vec<usize> = (0..8).collect();
    run.exhaustive("one-context-through-all-auto-correct-keys", &passes, |_| (), |&pass, st, _| long_lived_pass(run, pass, None, st));
    long_lists(run);
    // exhaustive short texts
    let all = crate::driver::typeable();
    let mut texts: Vec<String> = all.iter().map(|c| c.to_string()).collect();
    for a in &all {
        for b in &all {
            texts.push(format!("{a}{b}"));
        }
    }
    if run.tier == crate::runner::Tier::Thorough {
        let sub: Vec<char> = "aeioukgtdnrsmlhbpyOZ1.:`'\"(-!?".chars().collect();
        for a in &sub {
            for b in &sub {
                for c in &sub {
                    texts.push(format!("{a}{b}{c}"));
                }
            }
        }
    }
    let p = pools();
    texts.extend(p.ac_keys.iter().cloned());
    texts.extend(p.emoji_names.iter().cloned());
    texts.extend(p.emoticons.iter().cloned());
    let items: Vec<(usize, String)> = texts.into_iter().enumerate().collect();
    run.exhaustive(
        "short-texts-and-data-keys",
        &items,
        |_| mk_local(),
        |(i, text), st, lo| {
            let c = Case { text: text.clone(), optidx: *i, user: vec![] };
            run_case(run, &c, lo, st)
        },
    );
    // data-guided: spellings of real dictionary words (every final character class), bare and with a suffix, and
    // every word the dictionary lists twice ("no candidate text occurs twice" must not lean on clean data)
    let twice = crate::gen::twice_listed_words();
    let mut guided: Vec<(String, bool)> = vec![];
    for w in &twice {
        match crate::gen::romanise_validated(w) {
            Some(sp) => guided.push((sp, true)),
            None => {}
        }
    }
    let twice_typeable = guided.len();
    let sk = &p.suffix_keys;
    for (i, (sp, _)) in crate::gen::guided_bases().iter().enumerate() {
        guided.push((sp.clone(), false));
        if i % 3 == 0 {
            guided.push((format!("{sp}{}", sk[(i * 31) % sk.len()]), false));
        }
    }
    let gitems: Vec<(usize, (String, bool))> = guided.into_iter().enumerate().collect();
    run.exhaustive(
        "dictionary-guided-spellings",
        &gitems,
        |_| mk_local(),
        |(i, (text, is_twice)), st, lo| {
            if *is_twice {
                st.label("typed-a-twice-listed-dictionary-word");
            }
            // the twice-listed words under all 8 option sets, the others under one
            for k in 0..(if *is_twice { 8 } else { 1 }) {
                let c = Case { text: text.clone(), optidx: *i + k, user: vec![] };
                run_case(run, &c, lo, st)?;
            }
            Ok(())
        },
    );
    if !twice.is_empty() {
        run.require_label("typed-a-twice-listed-dictionary-word", twice_typeable.max(1) as u64);
    }
    // the user's own entry comes first whatever the word looks like: digits only, digits and letters, capitals, one letter
    let special: Vec<(String, usize)> = ["786", "71", "2k", "b4", "0", "K", "Dr", "x", "w8", "a1", "1a", "ok"].iter().flat_map(|k| (0..8usize).map(move |o| (k.to_string(), o))).collect();
    run.exhaustive(
        "user-entries-for-unusual-words",
        &special,
        |_| mk_local(),
        |(key, optidx), st, lo| {
            for (val, trail) in [("kkk", ""), ("\u{09AC}\u{09BF}\u{09B8}\u{09AE}\u{09BF}\u{09B2}\u{09CD}\u{09B2}\u{09BE}\u{09B9}", ""), ("amader", "."), ("tOmar", "!")] {
                let c = Case { text: format!("{key}{trail}"), optidx: *optidx, user: vec![(key.clone(), val.to_string())] };
                run_case(run, &c, lo, st)?;
            }
            Ok(())
        },
    );
    run.sharded("generated-words", 16, run.tier.pick(700, 25000), 800, strategy, |_| mk_local(), |c: &Case, st, lo| run_case(run, c, lo, st));
    run.require_label("has-suffix-built", 50);
    run.require_label("has-autocorrect", 50);
    run.require_label("has-emoji", 20);
    run.require_label("with-user-autocorrect-file", 20);
    run.require_label("user-list-away-and-back", 5);
}

pub fn replay(run: &Run, case: &Value) -> Result<(), Failure> {
    if let Some(l) = case.get("long_lived_keys") {
        return long_lived_pass(run, l["pass"].as_u64().unwrap_or(0) as usize, Some(l["upto"].as_u64().unwrap_or(0) as usize), &mut Stats::new());
    }
    let c = Case {
        text: case["text"].as_str().unwrap_or_default().to_string(),
        optidx: case["optidx"].as_u64().unwrap_or(0) as usize,
        user: serde_json::from_value(case["user"].clone()).unwrap_or_default(),
    };
    let mut lo = mk_local();
    let _ = &lo.sb;
    let user: HashMap<String, String> = c.user.iter().cloned().collect();
    if user.is_empty() {
        type_and_judge(run, &lo.ctxs[c.optidx % N_CTX], &c.text, &user, &mut Stats::new(), &|| case.clone())
    } else {
        run_case(run, &c, &mut lo, &mut Stats::new())
    }
}
