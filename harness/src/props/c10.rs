//! C10 — damaged or missing user files never stop the keyboard from working.

use crate::driver::{Ctx, Opts, PanicInfo, Rendered, Sandbox};
use crate::gen::pools;
use crate::props::c01::panic_kind;
use crate::runner::{hash_of, Failure, Run, Stats};
use proptest::prelude::*;
use serde_json::{json, Value};
use std::collections::{BTreeSet, HashMap};
use std::path::Path;

pub const LEVEL: &str = "fault_enumeration";
pub const EXHAUSTIVE: bool = true;
pub const RULE: &str = "fault states x follow-up history. (a) crash points: learning histories are run first through the API and every distinct content the engine wrote to phonetic-candidate-selection.json is collected; EVERY byte prefix 0..len of every collected store (and of generator-made user autocorrect.json documents) is a fault state (exhaustive over the collected stores); (b) malformed corpus: empty, whitespace, null, [], [1,2], wrong value types, nesting depth 200, invalid UTF-8, BOM, NUL bytes, duplicate keys, 1 MB of '[', plus proptest byte mutations (flip / delete / insert / truncate) of valid documents; (c) right shape, odd content: empty-string keys and values, punctuation-only values, values ending in khanda-ta / anusvara, non-Bengali values; (d) directories: user dir missing, XDG base missing, user dir is a regular file, store path is a directory, auto-correct path is a directory. Follow-up: construct a context, type words built on the stored keys (bare, + suffix key, emoji names, ':er', 'abe'), commit the last (non-preselected) candidate each time, update-engine, type again, restart; 1 in 16 states with the bundled data directory, the rest without (documented configuration). Oracle: no panic anywhere incl. construction; content that does not parse as an object of strings => every rendering equals the run with the file absent; after a failed save the following events work; after the directory is repaired the next learning commit leaves a loadable file. Non-trivial: the fault state makes the file unreadable or the save fail; distinct by (file, content hash / directory fault). (e) fault TRANSITIONS under a live context: generated sequences of 2..7 steps over {healthy document written, damaged bytes written, file removed, removed file put back untouched (same content and modification time), user directory renamed away, renamed back}; after each step followed by update-engine (idle) six probe words are typed in the live context and in a context created at that moment over the same directory state, every rendering compared (no learning commits in this part). After update-engine the follow-up commits the FIRST candidate of each word whose last candidate was learned before (the user's own entry, whatever its value) and then the last one again.";
pub const ASSUMPTIONS: &[&str] = &[
    "an interrupted std::fs::write leaves a byte prefix of the new content (incl. the empty file)",
    "the process runs as root: 'not writable' = missing directory / regular file in place of the directory / directory in place of the file",
    "the bulk of the states runs without the bundled data directory",
    "fault transitions: an EDIT always advances the modification time; a time stamp only goes backwards while the content is the one the context has already seen (the engine reloads on an advancing time stamp - C11's anchor)",
];

const COMPANION_LIST: &str = "{\"abc\":\"kkk\",\"smile\":\"hasi\",\"a\":\"o\",\"abe\":\"obe\",\"cool\":\"thanda\"}";
const COMPANION_STORE: &str = "{\"onno\":\"\u{0985}\u{09A8}\u{09CD}\u{09AF}\",\"sesh\":\"\u{09B6}\u{09C7}\u{09B7}\",\"a\":\"\u{0986}\u{0983}\",\"smile\":\"\u{09B8}\u{09CD}\u{09AE}\u{09BE}\u{0987}\u{09B2}\"}";

#[derive(Clone, Debug, PartialEq, Eq, Hash)]
pub enum Fault {
    Selection(Vec<u8>),
    Autocorrect(Vec<u8>),
    Dir(u8),
}

fn is_object_of_strings(b: &[u8]) -> bool {
    serde_json::from_slice::<HashMap<String, String>>(b).is_ok()
}

fn keys_of(b: &[u8]) -> Vec<String> {
    // keys that look like stored keys, also from damaged documents
    let text = String::from_utf8_lossy(b);
    let mut out = vec![];
    for part in text.split('"') {
        if !part.is_empty() && part.len() <= 12 && part.chars().all(|c| crate::driver::keys().has_char(c)) && part.chars().any(|c| c.is_ascii_alphabetic()) {
            out.push(part.to_string());
        }
    }
    out.sort();
    out.dedup();
    out.truncate(4);
    out
}

/// What went wrong in a follow-up history: (kind prefix, what was being done, detail).
pub struct Broken {
    pub kind: String,
    pub what: String,
    pub detail: String,
}

fn panic_at(what: String, p: PanicInfo) -> Broken {
    Broken { kind: panic_kind(&p), what, detail: p.to_string() }
}

/// The follow-up history.  Returns the renderings (for the differentials) and the number of
/// renderings made before the restart.
fn follow_up(opts: Opts, base: &Path, words: &[String]) -> Result<(Vec<Rendered>, usize), Broken> {
    let mut out = vec![];
    let mut ctx = Ctx::new_at(opts, base).map_err(|p| panic_at("creating a context".into(), p))?;
    for w in words {
        let r = ctx.type_frontend(w).map_err(|p| panic_at(format!("typing {w:?}"), p))?;
        if let Some(r) = r {
            let n = r.choices();
            out.push(r);
            if n > 0 {
                ctx.commit(n - 1).map_err(|p| panic_at(format!("committing the last candidate of {w:?}"), p))?;
                if ctx.ongoing() {
                    return Err(Broken { kind: "session-open-after-commit".into(), what: format!("committing the last candidate of {w:?}"), detail: "the context still reports an ongoing input session after the commit".into() });
                }
            }
        }
    }
    let cfg = crate::driver::mk_config_at(&opts, base);
    {
        let c = &mut ctx.ctx;
        crate::driver::guarded(|| c.update_engine(&cfg)).map_err(|p| panic_at("update-engine".into(), p))?;
    }
    for w in words.iter().take(3) {
        // the word has a learned choice now (its last candidate): the user goes back to the FIRST candidate - which is
        // the user's own entry, whatever its value (an empty string included)
        let mut committed = false;
        if let Some(r) = ctx.type_frontend(w).map_err(|p| panic_at(format!("typing {w:?} after update-engine"), p))? {
            let n = r.choices();
            out.push(r);
            if n > 0 {
                ctx.commit(0).map_err(|p| panic_at(format!("committing the first candidate of {w:?} after its last one was learned"), p))?;
                committed = true;
                // ... and learns the last one again, so that the restart below still has a choice other than the first
                // to show (a store that did not reach the disk is told from one that did)
                if let Some(r2) = ctx.type_frontend(w).map_err(|p| panic_at(format!("typing {w:?} once more"), p))? {
                    let n2 = r2.choices();
                    out.push(r2);
                    if n2 > 0 {
                        ctx.commit(n2 - 1).map_err(|p| panic_at(format!("committing the last candidate of {w:?} again"), p))?;
                    } else {
                        ctx.finish().map_err(|p| panic_at("finish".into(), p))?;
                    }
                }
            }
        }
        if !committed {
            ctx.finish().map_err(|p| panic_at("finish".into(), p))?;
        }
    }
    let before_restart = out.len();
    let ctx2 = Ctx::new_at(opts, base).map_err(|p| panic_at("creating a second context (restart)".into(), p))?;
    if let Some(w) = words.first() {
        if let Some(r) = ctx2.type_frontend(w).map_err(|p| panic_at(format!("typing {w:?} after restart"), p))? {
            out.push(r);
        }
    }
    Ok((out, before_restart))
}

/// Late injection: the context starts over a healthy user directory, types, and only then the
/// user auto-correct file appears in its faulty state (mtime forward) and update-engine re-reads it.
/// `inject` = None deletes the file instead (the reference for unreadable content).
fn late_follow_up(opts: Opts, base: &Path, ac_file: &Path, initial: Option<&str>, inject: Option<&[u8]>, words: &[String]) -> Result<Vec<Rendered>, Broken> {
    use std::time::{Duration, UNIX_EPOCH};
    let stamp = |secs: u64| {
        if let Ok(f) = std::fs::File::options().write(true).open(ac_file) {
            let _ = f.set_modified(UNIX_EPOCH + Duration::from_secs(secs));
        }
    };
    if let Some(doc) = initial {
        std::fs::write(ac_file, doc).expect("initial autocorrect");
        stamp(1_000_000);
    }
    let mut out = vec![];
    let mut ctx = Ctx::new_at(opts, base).map_err(|p| panic_at("creating a context".into(), p))?;
    for w in words.iter().take(2) {
        if let Some(r) = ctx.type_frontend(w).map_err(|p| panic_at(format!("typing {w:?}"), p))? {
            out.push(r);
        }
        ctx.finish().map_err(|p| panic_at("finish".into(), p))?;
    }
    match inject {
        Some(bytes) => {
            std::fs::write(ac_file, bytes).expect("inject");
            stamp(1_000_100);
        }
        None => {
            let _ = std::fs::remove_file(ac_file);
        }
    }
    let cfg = crate::driver::mk_config_at(&opts, base);
    {
        let c = &mut ctx.ctx;
        crate::driver::guarded(|| c.update_engine(&cfg)).map_err(|p| panic_at("update-engine after the file changed".into(), p))?;
    }
    for w in words {
        if let Some(r) = ctx.type_frontend(w).map_err(|p| panic_at(format!("typing {w:?} after the reload"), p))? {
            let n = r.choices();
            out.push(r);
            if n > 0 {
                ctx.commit(n - 1).map_err(|p| panic_at(format!("committing the last candidate of {w:?} after the reload"), p))?;
            }
        }
    }
    Ok(out)
}

pub fn check_late(bytes: &[u8], with_data: bool, initial: bool, st: &mut Stats) -> Result<(), Failure> {
    let mut opts = Opts::parse("sqe");
    opts.nodata = !with_data;
    let desc = json!({"late_injection": true, "file": "autocorrect.json", "content_lossy": String::from_utf8_lossy(&bytes[..bytes.len().min(300)]), "bytes": bytes, "with_data": with_data, "initial_file": initial});
    let f = Fault::Autocorrect(bytes.to_vec());
    let words = words_for(&f);
    let init = if initial { Some("{\"abc\":\"kkk\",\"smile\":\"hasi\"}") } else { None };
    let unreadable = !is_object_of_strings(bytes);
    let sb = Sandbox::new();
    let got = late_follow_up(opts, sb.base(), &sb.autocorrect_file(), init, Some(bytes), &words)
        .map_err(|b| Failure::new(format!("late-{}:{}", if unreadable { "unreadable-file" } else { "odd-content" }, b.kind), format!("{}: {}", b.what, b.detail), desc.clone()))?;
    if unreadable {
        let clean = Sandbox::new();
        let want = late_follow_up(opts, clean.base(), &clean.autocorrect_file(), init, None, &words).map_err(|b| Failure::new(b.kind, format!("reference run: {}: {}", b.what, b.detail), desc.clone()))?;
        if got != want {
            let i = got.iter().zip(want.iter()).position(|(a, b)| a != b).unwrap_or(0);
            return Err(Failure::new(
                "unreadable-file-not-treated-as-absent",
                format!("late injection: rendering #{i} differs from the run where the file was removed instead: {} vs {}", got.get(i).map(|r| r.short()).unwrap_or_default(), want.get(i).map(|r| r.short()).unwrap_or_default()),
                desc,
            ));
        }
    }
    st.evals(1);
    st.label("late-injection-before-update-engine");
    st.nontrivial(hash_of(&("late", bytes, with_data, initial)), || {
        let mut d = desc.clone();
        if let Some(o) = d.as_object_mut() {
            o.remove("bytes");
        }
        d
    });
    Ok(())
}

fn words_for(f: &Fault) -> Vec<String> {
    let mut w: Vec<String> = vec![];
    let ks = match f {
        Fault::Selection(b) | Fault::Autocorrect(b) => keys_of(b),
        Fault::Dir(_) => vec![],
    };
    let sk = &pools().suffix_keys;
    for (i, k) in ks.iter().enumerate() {
        w.push(k.clone());
        w.push(format!("{k}{}", sk[(hash_of(k) as usize + i) % sk.len()]));
        w.push(format!("{k}e"));
        w.push(format!("{k}er"));
        w.push(format!("{k}i"));
    }
    for x in ["smile", ":er", "abe", "a", "onnogulo", "cool."] {
        w.push(x.to_string());
    }
    w
}

pub fn check_fault(f: &Fault, with_data: bool, st: &mut Stats) -> Result<(), Failure> {
    let mut opts = Opts::parse("sqe");
    opts.nodata = !with_data;
    let sb = Sandbox::new_bare();
    let desc = match f {
        Fault::Selection(b) => json!({"file": "phonetic-candidate-selection.json", "content_lossy": String::from_utf8_lossy(&b[..b.len().min(300)]), "bytes": b, "with_data": with_data}),
        Fault::Autocorrect(b) => json!({"file": "autocorrect.json", "content_lossy": String::from_utf8_lossy(&b[..b.len().min(300)]), "bytes": b, "with_data": with_data}),
        Fault::Dir(d) => json!({"directory_fault": d, "with_data": with_data}),
    };
    let mut unreadable = false;
    let mut save_fails = false;
    match f {
        Fault::Selection(b) => {
            std::fs::create_dir_all(sb.user_dir()).unwrap();
            std::fs::write(sb.selection_file(), b).unwrap();
            unreadable = !is_object_of_strings(b);
        }
        Fault::Autocorrect(b) => {
            std::fs::create_dir_all(sb.user_dir()).unwrap();
            std::fs::write(sb.autocorrect_file(), b).unwrap();
            unreadable = !is_object_of_strings(b);
        }
        Fault::Dir(d) => {
            save_fails = true;
            match d {
                0 => {} // user dir missing (base exists)
                1 => {
                    let _ = std::fs::remove_dir_all(sb.base()); // XDG base missing too
                }
                2 => std::fs::write(sb.user_dir(), b"not a directory").unwrap(),
                3 => std::fs::create_dir_all(sb.selection_file()).unwrap(),
                _ => {
                    save_fails = false;
                    std::fs::create_dir_all(sb.autocorrect_file()).unwrap();
                }
            }
        }
    }
    // the OTHER user file is healthy and in use (every second fault state, decided by the content): a damaged store
    // next to a good auto-correct list and the other way round - "treated as if the file were absent" is about the
    // damaged file only; the reference run gets the same healthy companion
    let companion: Option<(bool, &str)> = match f {
        Fault::Selection(b) if hash_of(b) % 2 == 0 => Some((true, COMPANION_LIST)),
        Fault::Autocorrect(b) if hash_of(b) % 2 == 0 => Some((false, COMPANION_STORE)),
        _ => None,
    };
    let place = |dir: &Sandbox| {
        if let Some((is_list, content)) = companion {
            std::fs::write(if is_list { dir.autocorrect_file() } else { dir.selection_file() }, content).expect("companion file");
        }
    };
    place(&sb);
    if companion.is_some() {
        st.label("healthy-companion-file-next-to-the-damaged-one");
    }
    let words = words_for(f);
    let class = if matches!(f, Fault::Dir(_)) { "directory-fault" } else if unreadable { "unreadable-file" } else { "odd-content" };
    let (got, before_restart) = follow_up(opts, sb.base(), &words).map_err(|b| Failure::new(format!("{class}:{}", b.kind), format!("{}: {}", b.what, b.detail), desc.clone()))?;
    if unreadable || matches!(f, Fault::Dir(_)) {
        // differential: the same history in a healthy user directory without the file
        let clean = Sandbox::new();
        place(&clean);
        let (want, _) = follow_up(opts, clean.base(), &words).map_err(|b| Failure::new(b.kind, format!("reference run: {}: {}", b.what, b.detail), desc.clone()))?;
        // unreadable content: everything equals the run with the file absent; failed save: everything up
        // to the restart (the choices are still in memory) - after it the lost choices may show
        let n = if matches!(f, Fault::Dir(d) if *d < 4) { before_restart } else { got.len().max(want.len()) };
        let a: Vec<&Rendered> = got.iter().take(n).collect();
        let b: Vec<&Rendered> = want.iter().take(n).collect();
        if a != b {
            let i = a.iter().zip(b.iter()).position(|(x, y)| x != y).unwrap_or(a.len().min(b.len()));
            return Err(Failure::new(
                if unreadable { "unreadable-file-not-treated-as-absent" } else { "failed-save-disturbs-later-events" },
                format!("rendering #{i} differs from the run in a healthy directory without the file: {} vs {}", got.get(i).map(|r| r.short()).unwrap_or_default(), want.get(i).map(|r| r.short()).unwrap_or_default()),
                desc,
            ));
        }
        st.label(if unreadable { "unreadable-compared-with-absent" } else { "failed-save-compared-with-healthy-directory" });
    }
    if let Fault::Dir(d) = f {
        // repair the directory, then a learning commit must leave a loadable file
        match d {
            2 => {
                let _ = std::fs::remove_file(sb.user_dir());
            }
            3 => {
                let _ = std::fs::remove_dir_all(sb.selection_file());
            }
            4 => {
                let _ = std::fs::remove_dir_all(sb.autocorrect_file());
            }
            _ => {}
        }
        std::fs::create_dir_all(sb.user_dir()).unwrap();
        let ctx = Ctx::new_at(opts, sb.base()).map_err(|p| Failure::new(format!("panic-directory-fault:{}", panic_kind(&p)), format!("after repair: {p}"), desc.clone()))?;
        let r = ctx.type_frontend("smile").map_err(|p| Failure::new(panic_kind(&p), p.to_string(), desc.clone()))?.unwrap();
        if r.choices() > 1 {
            ctx.commit(r.choices() - 1).map_err(|p| Failure::new(panic_kind(&p), p.to_string(), desc.clone()))?;
            match sb.read_selections() {
                Some(b) if is_object_of_strings(&b) => {}
                other => {
                    return Err(Failure::new(
                        "no-loadable-file-after-repair",
                        format!("after the directory was repaired a learning commit left {:?}", other.map(|b| String::from_utf8_lossy(&b).to_string())),
                        desc,
                    ))
                }
            }
        }
        st.label("directory-fault");
    }
    if unreadable || save_fails || matches!(f, Fault::Dir(_)) {
        st.nontrivial(hash_of(&(f, with_data)), || {
            let mut d = desc.clone();
            if let Some(o) = d.as_object_mut() {
                o.remove("bytes");
            }
            d
        });
    }
    Ok(())
}

/// Learning histories through the API; every distinct file content written is collected.
fn collect_stores(n_hist: usize, seed: u64) -> Vec<Vec<u8>> {
    let mut out: BTreeSet<Vec<u8>> = BTreeSet::new();
    let p = pools();
    let words: Vec<&String> = p.ac_keys.iter().filter(|k| k.len() <= 8 && k.chars().all(|c| c.is_ascii_lowercase())).collect();
    for h in 0..n_hist {
        let sb = Sandbox::new();
        let opts = Opts::parse(if h % 2 == 0 { "sqe" } else { "se" });
        let ctx = match Ctx::new(opts, &sb) {
            Ok(c) => c,
            Err(_) => continue,
        };
        for j in 0..(2 + h % 4) {
            let x = hash_of(&(seed, h, j)) as usize;
            let w = words[x % words.len()];
            let (l, t) = [("", ""), ("\"", "\""), ("(", ")."), ("", "?")][x / 7 % 4];
            let text = format!("{l}{w}{t}");
            if let Ok(Some(r)) = ctx.type_frontend(&text) {
                if r.choices() > 1 {
                    let _ = ctx.commit(1 + x / 31 % (r.choices() - 1));
                    if let Some(b) = sb.read_selections() {
                        out.insert(b);
                    }
                } else {
                    let _ = ctx.finish();
                }
            }
        }
    }
    out.into_iter().collect()
}

pub fn malformed_corpus() -> Vec<Vec<u8>> {
    let mut docs: Vec<Vec<u8>> = vec![];
    for d in [
        "", " ", "\n", "null", "true", "0", "\"x\"", "[]", "[1,2]", "{\"a\":1}", "{\"a\":null}", "{\"a\":{\"b\":\"c\"}}", "{\"a\":[\"b\"]}", "{\"a\":\"b\",}", "{\"a\":\"b\"}}", "{a:\"b\"}",
        "\u{feff}{}", "\u{feff}{\"a\":\"b\"}", "{\"a\":\"b\",\"a\":\"c\"}", "{\"a\":\"b\"}\n{\"c\":\"d\"}", "{\"a\":\"\\ud800\"}", "{\"a\":\"b\" \"c\":\"d\"}", "{}", "{ }", "{\"a\":\"b\"}",
    ] {
        docs.push(d.as_bytes().to_vec());
    }
    docs.push(vec![0xff, 0xfe, 0x00]);
    docs.push(b"{\"a\":\"\xff\"}".to_vec());
    docs.push(b"{\"a\":\"b\0\"}".to_vec());
    docs.push(b"\0\0\0\0".to_vec());
    docs.push(vec![b'['; 1 << 20]);
    docs.push(format!("{}1{}", "[".repeat(200), "]".repeat(200)).into_bytes());
    docs.push(format!("{}\"a\":\"b\"{}", "{\"k\":".repeat(200), "}".repeat(200)).into_bytes());
    docs
}

pub fn odd_content() -> Vec<Vec<u8>> {
    [
        // values that begin in ASCII and go on in another script / an emoji, and the other way round
        "{\"a\":\"Dr. \u{09B0}\u{09B9}\u{09AE}\u{09BE}\u{09A8}\",\"abc\":\"ok \u{2705}\"}", "{\"a\":\"\u{09B0} r\",\"smile\":\"x\u{1F600}y\"}", "{\"ab\":\"a\u{00E9}b\",\"a\":\"1\u{09E7}\"}",
        "{\"\":\"\"}", "{\"a\":\"\"}", "{\"on\":\"\",\"onno\":\"\"}", "{\"ab\":\"\",\"abc\":\"kkk\"}", "{\":\":\"\"}", "{\"a\":\"...\"}", "{\"a\":\"!?\",\"ami\":\"()\"}",
        "{\"hothat\":\"\u{09B9}\u{09A0}\u{09BE}\u{09CE}\",\"ebong\":\"\u{098F}\u{09AC}\u{0982}\"}", "{\"a\":\"hello\",\"smile\":\"SMILE\"}", "{\"a\":\"\u{1F600}\"}", "{\"a\":\"\u{09CE}\"}", "{\"a\":\"\u{0982}\"}",
        "{\"a b\":\"c\"}", "{\"A\":\"\u{0986}\"}", "{\"a\":\" \"}", "{\"smile\":\"\u{200D}\"}", "{\"abe\":\"\",\"ab\":\"\"}",
    ]
    .iter()
    .map(|s| s.as_bytes().to_vec())
    .collect()
}

fn mutate(doc: &[u8], kind: u8, pos: u16, byte: u8) -> Vec<u8> {
    let mut d = doc.to_vec();
    if d.is_empty() {
        return vec![byte];
    }
    let i = (pos as usize * d.len()) >> 16;
    match kind % 4 {
        0 => d[i] ^= 1 << (byte % 8),
        1 => {
            d.remove(i);
        }
        2 => d.insert(i, byte),
        _ => d[i] = byte,
    }
    d
}

/// Fault TRANSITIONS under a live context: the optional files and the user directory come and go while the context
/// lives, and "re-loading the configuration keeps working" after each change: after every update-engine (idle) the
/// context must behave like a context created at that moment over the same directory state (unreadable = absent).
/// No learning commits here (what a failed save may lose is judged by the other parts).
#[derive(Clone, Debug, serde::Serialize, serde::Deserialize)]
pub enum Trans {
    /// write a healthy auto-correct document (modification time advances)
    WriteAc(u8),
    /// write damaged bytes (truncated document / wrong shape), modification time advances
    DamageAc(u8),
    /// remove the auto-correct file, remembering content and modification time
    RemoveAc,
    /// put the removed file back untouched (same content, same modification time)
    RestoreAc,
    /// rename the whole user directory away / back (untouched)
    DirAway,
    DirBack,
    /// the modification time of the existing file goes BACKWARDS, content unchanged (a backup put back with its old
    /// time stamp, a clock that was stepped): nothing to reload, and certainly nothing to fall over
    TouchOlder,
}

const T_DOCS: &[&str] = &[
    "{\"qxk\":\"dhaka\",\"abc\":\"kkk\"}",
    "{\"abc\":\"ttt\",\"amar\":\"amader\"}",
    "{\"onno\":\"Onyo\",\"qxk\":\"kolkata\"}",
    "{}",
];
const T_BAD: &[&str] = &["{\"qxk\":\"dha", "[1,2]", "", "{\"abc\":5}", "\u{feff}{\"abc\":\"kkk\"}"];
const T_PROBES: &[&str] = &["qxk", "abc", "amar", "onno", "abcgulo", "ami"];

pub fn check_transitions(steps: &[(Trans, bool)], english: bool, st: &mut Stats) -> Result<(), Failure> {
    use std::time::{Duration, UNIX_EPOCH};
    let case = || json!({"transitions": steps, "english": english});
    let pf = |p: PanicInfo| Failure::new(format!("transition:{}", panic_kind(&p)), p.to_string(), case());
    let sb = Sandbox::new();
    let mut opts = Opts::parse("s");
    opts.english = english;
    let ac = sb.autocorrect_file();
    let away = sb.base().join("moved-away");
    let mut clock: u64 = 2_000_000;
    let write = |bytes: &[u8], clock: &mut u64| {
        if sb.user_dir().is_dir() {
            std::fs::write(&ac, bytes).expect("write autocorrect");
            *clock += 10;
            let f = std::fs::File::options().write(true).open(&ac).expect("open autocorrect");
            f.set_modified(UNIX_EPOCH + Duration::from_secs(*clock)).expect("set mtime");
        }
    };
    write(T_DOCS[0].as_bytes(), &mut clock);
    let mut live = Ctx::new_at(opts, sb.base()).map_err(pf)?;
    let mut removed: Option<(Vec<u8>, std::time::SystemTime)> = None;
    let mut kinds = BTreeSet::new();
    let mut dirty = false;
    for (i, (t, update)) in steps.iter().enumerate() {
        if !matches!(t, Trans::TouchOlder) {
            dirty = true;
        }
        match t {
            Trans::WriteAc(k) => write(T_DOCS[*k as usize % T_DOCS.len()].as_bytes(), &mut clock),
            Trans::DamageAc(k) => write(T_BAD[*k as usize % T_BAD.len()].as_bytes(), &mut clock),
            Trans::RemoveAc => {
                if let (Ok(b), Ok(m)) = (std::fs::read(&ac), std::fs::metadata(&ac).and_then(|m| m.modified())) {
                    removed = Some((b, m));
                    std::fs::remove_file(&ac).expect("remove");
                    kinds.insert("remove");
                }
            }
            Trans::RestoreAc => {
                if let (Some((b, m)), false, true) = (&removed, ac.exists(), sb.user_dir().is_dir()) {
                    std::fs::write(&ac, b).expect("restore");
                    std::fs::File::options().write(true).open(&ac).expect("open").set_modified(*m).expect("set mtime");
                    removed = None;
                    kinds.insert("restore");
                }
            }
            Trans::DirAway => {
                if sb.user_dir().is_dir() && !away.exists() {
                    std::fs::rename(sb.user_dir(), &away).expect("rename away");
                    kinds.insert("dir-away");
                }
            }
            Trans::TouchOlder => {
                // only while the context has seen the present content (an edit whose time stamp does not advance is
                // outside the domain: the engine is documented to reload when the modification time advances)
                if ac.is_file() && !dirty {
                    if let Ok(m) = std::fs::metadata(&ac).and_then(|m| m.modified()) {
                        let older = m - Duration::from_secs(5000);
                        std::fs::File::options().write(true).open(&ac).expect("open").set_modified(older).expect("set mtime");
                        kinds.insert("touch-older");
                    }
                }
            }
            Trans::DirBack => {
                if away.is_dir() && !sb.user_dir().exists() {
                    std::fs::rename(&away, sb.user_dir()).expect("rename back");
                    kinds.insert("dir-back");
                }
            }
        }
        if !*update {
            continue;
        }
        live.update(opts, &sb).map_err(pf)?;
        dirty = false;
        let fresh = Ctx::new_at(opts, sb.base()).map_err(pf)?;
        for w in T_PROBES {
            let mut sel = 0u8;
            for ch in w.chars() {
                let a = live.ch(ch, sel).map_err(pf)?;
                let b = fresh.ch(ch, sel).map_err(pf)?;
                st.evals(1);
                if a != b {
                    return Err(Failure::new(
                        "reload-after-fault-transition-differs-from-new-context",
                        format!("after transition #{i} ({t:?}) and update-engine: typing {w:?}, at {ch:?} the live context returns {} but a context created now returns {}", a.short(), b.short()),
                        case(),
                    ));
                }
                sel = if a.lonely { 0 } else { a.sel.min(255) as u8 };
            }
            live.finish().map_err(pf)?;
            fresh.finish().map_err(pf)?;
        }
    }
    if kinds.contains("touch-older") {
        st.label("modification-time-went-backwards");
    }
    if kinds.contains("restore") || kinds.contains("dir-back") {
        st.label("file-or-directory-came-back-untouched");
    }
    if kinds.len() >= 2 {
        st.nontrivial(hash_of(&format!("{steps:?}{english}")), || json!({"transitions": steps}));
    }
    Ok(())
}

fn trans_strategy() -> impl Strategy<Value = (Vec<(Trans, bool)>, bool)> {
    let t = prop_oneof![
        2 => any::<u8>().prop_map(Trans::WriteAc),
        2 => any::<u8>().prop_map(Trans::DamageAc),
        2 => Just(Trans::RemoveAc),
        3 => Just(Trans::RestoreAc),
        2 => Just(Trans::DirAway),
        3 => Just(Trans::DirBack),
        2 => Just(Trans::TouchOlder),
    ];
    (proptest::collection::vec((t, proptest::bool::weighted(0.75)), 2..8), any::<bool>())
}

/// "A failed save loses at most that one learned choice": a word is learned and stored, the user directory
/// breaks, the same word is re-learned with another candidate (the save fails silently).  The live context must go
/// on preselecting one of the two choices for it (never fall back to "nothing learned"), another learned word must
/// be untouched, and after the directory is repaired a new context must still find the choice stored earlier.
fn relearn_under_fault(run: &Run) {
    let words = ["kotha", "sesh", "onno", "amar", "park", "din"];
    let mut items = vec![];
    for w in 0..words.len() {
        for fault in 0..2u8 {
            for (i1, i2) in [(1usize, 2usize), (2, 1), (1, 0), (2, 0)] {
                items.push((w, fault, i1, i2));
            }
        }
    }
    run.exhaustive("re-learn-a-stored-word-while-the-save-fails", &items, |_| (), |&(w, fault, i1, i2), st, _| relearn_case(words[w], words[(w + 1) % words.len()], fault, i1, i2, st));
    run.require_label("re-learned-under-a-failing-save", 20);
}

fn relearn_case(word: &str, other: &str, fault: u8, i1: usize, i2: usize, st: &mut Stats) -> Result<(), Failure> {
    let case = || json!({"relearn_under_fault": {"word": word, "other": other, "fault": fault, "first_index": i1, "second_index": i2}});
    let pf = |p: PanicInfo| Failure::new(format!("relearn:{}", panic_kind(&p)), p.to_string(), case());
    let fail = |kind: &str, msg: String| Failure::new(kind, msg, case());
    let sb = Sandbox::new();
    let opts = Opts::parse("s");
    let ctx = Ctx::new_at(opts, sb.base()).map_err(pf)?;
    let learn = |ctx: &Ctx, w: &str, i: usize| -> Result<Option<(String, Vec<String>)>, Failure> {
        let l = ctx.type_frontend(w).map_err(pf)?.unwrap();
        if l.lonely || i >= l.cands.len() || i == l.sel {
            ctx.finish().map_err(pf)?;
            return Ok(None);
        }
        ctx.commit(i).map_err(pf)?;
        Ok(Some((l.cands[i].clone(), l.cands)))
    };
    let Some((c_other, _)) = learn(&ctx, other, 1)? else { return Ok(()) };
    let Some((c1, _)) = learn(&ctx, word, i1)? else { return Ok(()) };
    if sb.parsed_selections().map(|m| m.get(word) != Some(&c1)).unwrap_or(true) {
        return Err(fail("learned-choice-not-stored", format!("{word:?} -> {c1:?} committed in a healthy directory; the store is {:?}", sb.parsed_selections())));
    }
    // break the directory
    let away = sb.base().join("moved-away");
    std::fs::rename(sb.user_dir(), &away).expect("rename away");
    if fault == 1 {
        std::fs::write(sb.user_dir(), b"not a directory").expect("file in place of the directory");
    }
    let Some((c2, _)) = learn(&ctx, word, i2)? else {
        return Ok(());
    };
    st.label("re-learned-under-a-failing-save");
    let preselected = |ctx: &Ctx, w: &str| -> Result<String, Failure> {
        let l = ctx.type_frontend(w).map_err(pf)?.unwrap();
        ctx.finish().map_err(pf)?;
        Ok(l.cands.get(l.sel).cloned().unwrap_or_default())
    };
    let now = preselected(&ctx, word)?;
    st.evals(1);
    if now != c1 && now != c2 {
        return Err(fail(
            "failed-save-loses-more-than-one-choice",
            format!("{word:?}: {c1:?} stored, then {c2:?} committed while the save failed; the live context now preselects {now:?} - neither of the two"),
        ));
    }
    let o = preselected(&ctx, other)?;
    if o != c_other {
        return Err(fail("failed-save-loses-more-than-one-choice", format!("after the failed save for {word:?} the live context preselects {o:?} for {other:?}, learned as {c_other:?}")));
    }
    // repair, restart: the user's directory is there again with the files it had.  If the engine has meanwhile put
    // something of its own where the directory belongs, that stays (a user who re-mounts a directory does not delete what
    // is in the way either): the old files are moved in next to it where their names are free.
    if fault == 1 {
        let _ = std::fs::remove_file(sb.user_dir());
    }
    if std::fs::rename(&away, sb.user_dir()).is_err() {
        let _ = std::fs::create_dir_all(sb.user_dir());
        if let Ok(rd) = std::fs::read_dir(&away) {
            for e in rd.flatten() {
                let to = sb.user_dir().join(e.file_name());
                if !to.exists() {
                    let _ = std::fs::rename(e.path(), to);
                }
            }
        }
        st.label("engine-created-something-in-place-of-the-missing-directory");
    }
    // the directory is healthy again: the LIVE context's next learning commit must reach the file ("loses at most
    // that one learned choice" - not every later one)
    let third = ["tumi", "rat", "boi"].iter().find(|w| **w != word && **w != other).copied().unwrap_or("tumi");
    if let Some((c3, _)) = learn(&ctx, third, 1)? {
        let stored = sb.parsed_selections().and_then(|m| m.get(third).cloned());
        if stored.as_deref() != Some(c3.as_str()) {
            return Err(fail(
                "save-stays-off-after-one-failed-save",
                format!("the save of {word:?} failed while the directory was broken; after the repair {third:?} -> {c3:?} was committed in the same context, but the store has {stored:?} for it (store {:?})", sb.parsed_selections()),
            ));
        }
        st.label("learning-commit-after-the-repair-in-the-live-context");
    }
    let ctx2 = Ctx::new_at(opts, sb.base()).map_err(pf)?;
    let later = preselected(&ctx2, word)?;
    // the commit after the repair wrote the whole in-memory map: the word now has c2 in the file if the live context
    // kept it, else still c1 - either way one of the two
    if later != c1 && later != c2 {
        return Err(fail(
            "failed-save-loses-more-than-one-choice",
            format!("{word:?}: {c1:?} was stored before the failing save of {c2:?}; after the repair a new context preselects {later:?} (store {:?})", sb.parsed_selections()),
        ));
    }
    let o2 = preselected(&ctx2, other)?;
    if o2 != c_other {
        return Err(fail("failed-save-loses-more-than-one-choice", format!("after the repair a new context preselects {o2:?} for {other:?}, learned as {c_other:?}")));
    }
    st.nontrivial(hash_of(&(word, fault, i1, i2)), || json!({"word": word, "stored": c1, "committed_while_the_save_failed": c2, "fault": fault}));
    Ok(())
}

fn damaged_case(state: &[u8], w1: &str, w2: &str, st: &mut Stats) -> Result<(), Failure> {
    let case = || json!({"damaged_between_commits": {"state": state, "first": w1, "second": w2}});
    let pf = |p: PanicInfo| Failure::new(format!("damaged-in-place:{}", panic_kind(&p)), p.to_string(), case());
    // one run with the damage, one with the file deleted instead
    let go = |damage: Option<&[u8]>| -> Result<Vec<Rendered>, Failure> {
        let sb = Sandbox::new();
        let opts = Opts::parse("s");
        let ctx = Ctx::new_at(opts, sb.base()).map_err(pf)?;
        let mut out = vec![];
        let l = ctx.type_frontend(w1).map_err(pf)?.unwrap();
        ctx.commit(1.min(l.choices().saturating_sub(1))).map_err(pf)?;
        match damage {
            Some(b) => std::fs::write(sb.selection_file(), b).expect("damage"),
            None => {
                let _ = std::fs::remove_file(sb.selection_file());
            }
        }
        let l2 = ctx.type_frontend(w2).map_err(pf)?.unwrap();
        ctx.commit(1.min(l2.choices().saturating_sub(1))).map_err(pf)?;
        for w in [w1, w2, "tumi"] {
            out.push(ctx.type_frontend(w).map_err(pf)?.unwrap());
            ctx.finish().map_err(pf)?;
        }
        match sb.read_selections() {
            Some(b) if is_object_of_strings(&b) => {}
            other => return Err(Failure::new("no-loadable-file-after-a-commit-over-a-damaged-store", format!("after the second learning commit the store is {:?}", other.map(|b| String::from_utf8_lossy(&b).to_string())), case())),
        }
        let ctx2 = Ctx::new_at(opts, sb.base()).map_err(pf)?;
        for w in [w1, w2] {
            out.push(ctx2.type_frontend(w).map_err(pf)?.unwrap());
            ctx2.finish().map_err(pf)?;
        }
        Ok(out)
    };
    let got = go(Some(state))?;
    let want = go(None)?;
    st.evals(1);
    if got != want {
        let i = got.iter().zip(want.iter()).position(|(a, b)| a != b).unwrap_or(0);
        return Err(Failure::new(
            "unreadable-file-not-treated-as-absent",
            format!("store damaged in place between the learning commits of {w1:?} and {w2:?}: rendering #{i} is {} but {} when the file was deleted instead", got[i].short(), want[i].short()),
            case(),
        ));
    }
    Ok(())
}

/// The store is damaged IN PLACE under a live context (another program truncated it, a save of another process was cut
/// off): between two learning commits of one context the file gets one of the unreadable states.  "Unreadable content is
/// treated as if the file were absent": the context must behave exactly as in the run where the file was deleted at that
/// moment - in particular the choice learned BEFORE the damage is still in force in the live context, the second commit
/// leaves a loadable file, and a restarted context agrees with the reference run's restarted context.
fn damaged_between_two_commits(run: &Run) {
    let mut states: Vec<Vec<u8>> = vec![b"".to_vec(), b"[]".to_vec(), b"null".to_vec(), b"{\"ami\":1}".to_vec(), b"{\"ami\":".to_vec(), b"{".to_vec(), vec![0xEF, 0xBB], b"{\"a\":\"b\"".to_vec()];
    // every proper prefix of a store the engine itself writes for the first commit
    let own = "{\"kotha\":\"\u{0995}\u{09A5}\u{09BE}\"}".as_bytes().to_vec();
    for i in (1..own.len()).step_by(3) {
        states.push(own[..i].to_vec());
    }
    let items: Vec<(usize, usize)> = (0..states.len()).flat_map(|s| (0..3usize).map(move |w| (s, w))).collect();
    let words = [("kotha", "sesh"), ("ami", "onno"), ("park", "din")];
    run.exhaustive(
        "store-damaged-in-place-between-two-learning-commits",
        &items,
        |_| (),
        |&(si, wi), st, _| {
            let (w1, w2) = words[wi];
            damaged_case(&states[si], w1, w2, st)?;
            st.label("store-damaged-in-place-under-a-live-context");
            st.nontrivial(hash_of(&(si, wi)), || json!({"state_lossy": String::from_utf8_lossy(&states[si]), "first": w1, "second": w2}));
            Ok(())
        },
    );
}

pub fn run(run: &Run) {
    damaged_between_two_commits(run);
    relearn_under_fault(run);
    let n_hist = run.tier.pick(40, 600);
    let stores = collect_stores(n_hist, run.seed);
    run.stats.lock().unwrap().count("distinct-engine-written-stores", stores.len() as u64);
    let ac_docs: Vec<Vec<u8>> = [
        "{\"abc\":\"kkk\",\"ab\":\"\",\"academy\":\"ekademi\"}",
        "{\"onno\":\"Onyo\",\"smile\":\"hasi\"}",
        "{\"a\":\"a\",\"ami\":\"tumi\",\"cool\":\"kul\",\"abe\":\"abe\"}",
    ]
    .iter()
    .map(|s| s.as_bytes().to_vec())
    .collect();
    let mut faults: Vec<Fault> = vec![];
    for s in &stores {
        for i in 0..=s.len() {
            faults.push(Fault::Selection(s[..i].to_vec()));
        }
    }
    for s in &ac_docs {
        for i in 0..=s.len() {
            faults.push(Fault::Autocorrect(s[..i].to_vec()));
        }
    }
    // documents as other programs write them: with a UTF-8 byte order mark, in UTF-16, with leading white space -
    // again cut at every byte (an interrupted save can end inside the mark)
    let foreign: Vec<Vec<u8>> = vec![
        [&[0xEF, 0xBB, 0xBF][..], b"{\"abc\":\"kkk\",\"onno\":\"Onyo\"}"].concat(),
        [&[0xFF, 0xFE][..], &"{\"abc\":\"kkk\"}".encode_utf16().flat_map(|u| u.to_le_bytes()).collect::<Vec<u8>>()[..]].concat(),
        b" \n\t{ \"abc\" : \"kkk\" }\n".to_vec(),
        [&[0xEF, 0xBB, 0xBF][..], &[0xEF, 0xBB, 0xBF][..], b"{}"].concat(),
    ];
    for s in &foreign {
        for i in 0..=s.len() {
            faults.push(Fault::Autocorrect(s[..i].to_vec()));
            faults.push(Fault::Selection(s[..i].to_vec()));
        }
    }
    for d in malformed_corpus().into_iter().chain(odd_content()) {
        faults.push(Fault::Selection(d.clone()));
        faults.push(Fault::Autocorrect(d));
    }
    for d in 0..5u8 {
        faults.push(Fault::Dir(d));
    }
    // de-duplicate fault states
    let mut seen = std::collections::HashSet::new();
    faults.retain(|f| seen.insert(hash_of(f)));
    let items: Vec<(usize, Fault)> = faults.into_iter().enumerate().collect();
    run.exhaustive(
        "crash-points-corpus-directories",
        &items,
        |_| (),
        |(i, f), st, _| {
            // loadable content (an object of strings, however odd) is judged with the bundled data loaded: what the engine
            // makes of an empty or strange value only shows when the suffix and dictionary tables are there
            let loadable = matches!(f, Fault::Selection(b) | Fault::Autocorrect(b) if b.len() < 400 && is_object_of_strings(b));
            let with_data = i % 16 == 0 || matches!(f, Fault::Dir(_)) || loadable;
            check_fault(f, with_data, st)?;
            if let Fault::Autocorrect(b) = f {
                check_late(b, with_data, i % 2 == 0, st)?;
            }
            if matches!(f, Fault::Dir(_)) {
                check_fault(f, false, st)?;
            }
            Ok(())
        },
    );
    // generated mutations of valid documents
    let base_docs: Vec<Vec<u8>> = stores.iter().take(20).cloned().chain(ac_docs.iter().cloned()).collect();
    if !base_docs.is_empty() {
        let n = base_docs.len();
        run.sharded(
            "mutated-documents",
            16,
            run.tier.pick(300, 8000),
            300,
            move || (0..n, proptest::collection::vec((any::<u8>(), any::<u16>(), any::<u8>()), 1..4), any::<bool>(), 0u8..16),
            |_| (),
            |(di, muts, is_sel, dsel): &(usize, Vec<(u8, u16, u8)>, bool, u8), st, _| {
                let mut d = base_docs[*di].clone();
                for (k, p, b) in muts {
                    d = mutate(&d, *k, *p, *b);
                }
                if !*is_sel {
                    check_late(&d, *dsel == 0, *dsel & 2 != 0, st)?;
                }
                let f = if *is_sel { Fault::Selection(d) } else { Fault::Autocorrect(d) };
                check_fault(&f, *dsel == 0, st)
            },
        );
    }
    run.sharded("fault-transitions-under-a-live-context", 16, run.tier.pick(60, 1500), 200, trans_strategy, |_| (), |(steps, english): &(Vec<(Trans, bool)>, bool), st, _| check_transitions(steps, *english, st));
    run.require_label("file-or-directory-came-back-untouched", 50);
    run.require_label("modification-time-went-backwards", 50);
    run.require_label("unreadable-compared-with-absent", 100);
    run.require_label("directory-fault", 5);
    run.require_label("late-injection-before-update-engine", 100);
}

pub fn replay(_run: &Run, case: &Value) -> Result<(), Failure> {
    if let Some(r) = case.get("relearn_under_fault") {
        let g = |k: &str| r[k].as_str().unwrap_or_default().to_string();
        let n = |k: &str| r[k].as_u64().unwrap_or(0) as usize;
        return relearn_case(&g("word"), &g("other"), n("fault") as u8, n("first_index"), n("second_index"), &mut Stats::new());
    }
    if let Some(d) = case.get("damaged_between_commits") {
        let state: Vec<u8> = serde_json::from_value(d["state"].clone()).unwrap_or_default();
        return damaged_case(&state, d["first"].as_str().unwrap_or("kotha"), d["second"].as_str().unwrap_or("sesh"), &mut Stats::new());
    }
    if case.get("transitions").is_some() {
        let steps: Vec<(Trans, bool)> = serde_json::from_value(case["transitions"].clone()).unwrap_or_default();
        return check_transitions(&steps, case["english"].as_bool().unwrap_or(false), &mut Stats::new());
    }
    let with_data = case["with_data"].as_bool().unwrap_or(true);
    if case["late_injection"].as_bool() == Some(true) {
        let bytes: Vec<u8> = serde_json::from_value(case["bytes"].clone()).unwrap_or_default();
        return check_late(&bytes, with_data, case["initial_file"].as_bool().unwrap_or(false), &mut Stats::new());
    }
    let f = if let Some(d) = case["directory_fault"].as_u64() {
        Fault::Dir(d as u8)
    } else {
        let bytes: Vec<u8> = serde_json::from_value(case["bytes"].clone()).unwrap_or_default();
        if case["file"].as_str() == Some("autocorrect.json") {
            Fault::Autocorrect(bytes)
        } else {
            Fault::Selection(bytes)
        }
    };
    check_fault(&f, with_data, &mut Stats::new())
}
