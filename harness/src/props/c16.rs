//! C16 — ANSI mode yields pure Bijoy text and never offers what it cannot encode.

use crate::driver::{guarded, keys, layout_inverse, Ctx, Layout, Opts, Rendered, Sandbox};
use crate::gen::{self, pools, AbsOp, Ev, Interp, OpWeights, Outcome, Step};
use crate::model::{self, avro, bijoy, data, emoji, is_bengali_block, ref_split};
use crate::props::c01::panic_kind;
use crate::runner::{hash_of, Failure, Run, Stats};
use proptest::prelude::*;
use serde_json::{json, Value};

pub const LEVEL: &str = "exploration";
pub const EXHAUSTIVE: bool = false;
pub const RULE: &str = "(i) generated in-contract histories in both methods (all options, 3 layouts) with every candidate of every returned suggestion read out; ANSI on: a twin context with the English option flipped receives the same events; (ii) the same histories with ANSI off for the identity clause; (iii) data passes: dictionary words typed through Probhat with suggestions and ANSI on (quick: every 9th word offset by seed, thorough: ALL words) and bundled auto-correct keys x suffix keys typed in phonetic mode (quick: 4 suffixes per key, thorough: 60 per key). Oracle, ANSI on: pre-edit(i) == poriborton::unicode_to_bijoy(candidate i) and contains no code point of U+0980..U+09FF; no candidate is an emoji of the tables or contains a code point of the tables' emoji inventory; the raw typed text is a candidate only if it is the transliteration / composed text itself; the list is identical with English on and off. ANSI off: pre-edit(i) == candidate i. Non-trivial: an ANSI candidate with a conjunct, a left-standing sign or a reph, or an emoticon / emoji-name text under ANSI with English on; distinct by (options, candidate). Plus the ANSI switch made in one update-engine call together with each of 8 other options (8 texts x English x 3 endings x both directions).";
pub const ASSUMPTIONS: &[&str] = &[
    "poriborton::bijoy2000::unicode_to_bijoy is the definition of the Bijoy-2000 encoding",
    "emoji inventory = non-ASCII, non-Bengali code points of the emojicon tables, joiners excluded",
];

fn inventory_hit(s: &str) -> bool {
    let e = emoji();
    s.chars().any(|c| c != model::ZWJ && c != model::ZWNJ && e.inventory.contains(&c))
}

fn hard_for_encoder(s: &str) -> bool {
    s.contains(model::HASANTA) || s.chars().any(|c| matches!(c, '\u{09BF}' | '\u{09C7}' | '\u{09C8}' | '\u{09CB}' | '\u{09CC}'))
}

/// Judge one returned suggestion.  `raw`: raw typed text (phonetic) / raw key text (fixed) if known.
pub fn judge(run: &Run, st: &mut Stats, opts: &Opts, r: &Rendered, raw: Option<&str>, case: &dyn Fn() -> Value) -> Result<(), Failure> {
    let items: Vec<(&String, &Result<String, String>)> = if r.lonely { vec![(&r.text, &r.pre[0])] } else { r.cands.iter().zip(r.pre.iter()).collect() };
    st.evals(items.len() as u64); // one evaluation = one candidate read out and judged
    for (i, (cand, pre)) in items.iter().enumerate() {
        let fail = |kind: &str, msg: String| Failure::new(kind, format!("({}) candidate {i} {cand:?}: {msg}", opts.letters()), case());
        let pre = match pre {
            Ok(p) => p,
            Err(e) => {
                let kind = if opts.ansi && cand.contains(model::VOCALIC_RR_SIGN) && e.contains("Unknown Kar replacement") { "readout-panic-bijoy-vocalic-rr".to_string() } else { format!("readout-panic:{}", e.chars().take(80).collect::<String>()) };
                if run.absorb(st, &kind) {
                    continue;
                }
                return Err(fail(&kind, format!("pre-edit text cannot be read: {e}")));
            }
        };
        if !opts.ansi {
            if pre != *cand {
                return Err(fail("ansi-off-preedit-differs", format!("ANSI off but pre-edit text is {pre:?}")));
            }
            continue;
        }
        match guarded(|| bijoy(cand)) {
            Ok(b) => {
                if *pre != b {
                    return Err(fail("not-bijoy-encoding", format!("pre-edit {pre:?} but unicode_to_bijoy gives {b:?}")));
                }
            }
            Err(_) => {}
        }
        if pre.chars().any(is_bengali_block) {
            return Err(fail("bengali-code-point-in-ansi-preedit", format!("pre-edit {pre:?} still contains a Bengali-block code point")));
        }
        if emoji().all_emoji.contains(*cand) || inventory_hit(cand) {
            return Err(fail("emoji-offered-under-ansi", "an emoji (or a code point of the emoji inventory) is offered although ANSI is on".into()));
        }
        if hard_for_encoder(cand) {
            st.nontrivial(hash_of(&(opts.letters(), cand)), || json!({"opts": opts.letters(), "candidate": cand, "pre_edit": pre}));
        }
    }
    // raw text must not be offered under ANSI (unless it is the transliteration / composed text)
    if let (true, false, Some(raw)) = (opts.ansi, r.lonely, raw) {
        if !raw.is_empty() {
            let allowed: String = if opts.is_phonetic() {
                let (p, w, t) = ref_split(raw, false);
                format!("{}{}{}", avro(&p), avro(&w), avro(&t))
            } else {
                r.text.clone()
            };
            let uncurled_allowed = model::uncurl(&allowed);
            for (i, c) in r.cands.iter().enumerate() {
                if c == raw && *c != allowed && model::uncurl(c) != uncurled_allowed && !(i == 0 && !opts.is_phonetic()) {
                    return Err(Failure::new("raw-text-offered-under-ansi", format!("({}) raw typed text {raw:?} is offered at {i} although ANSI is on; list {:?}", opts.letters(), r.cands), case()));
                }
            }
            let e = emoji();
            if opts.english && (e.emoticon_map.contains_key(raw) || e.name_map.contains_key(&ref_split(raw, false).1)) {
                st.label("emoticon-or-name-under-ansi-with-english");
                st.nontrivial(hash_of(&(opts.letters(), raw)), || json!({"opts": opts.letters(), "typed": raw, "list": r.cands}));
            }
        }
    }
    Ok(())
}

pub fn weights() -> OpWeights {
    OpWeights { key: 20, text: 45, learned: 2, backspace: 12, ctrl_backspace: 2, commit: 8, finish: 4, update: 3, restart: 1 }
}

struct Mirror {
    ctx: Option<Ctx>,
    sb: Sandbox,
}

impl Mirror {
    fn sync(&mut self, opts: &Opts) {
        if opts.ansi {
            let mut o = *opts;
            o.english = !o.english;
            self.ctx = Ctx::new(o, &self.sb).ok();
        } else {
            self.ctx = None;
        }
    }
}

pub fn run_history(run: &Run, opts: &Opts, ops: &[AbsOp], st: &mut Stats) -> Result<(), Failure> {
    let sb = Sandbox::new();
    run_history_in(run, opts, ops, st, &sb)
}

/// As `run_history`, over a user directory prepared by the caller (byte-coded histories with user files, see oracle.rs).
pub fn run_history_in(run: &Run, opts: &Opts, ops: &[AbsOp], st: &mut Stats, sb: &Sandbox) -> Result<(), Failure> {
    let mut it = match Interp::new(*opts, sb) {
        Ok(it) => it,
        Err(_) => return Ok(()),
    };
    // the mirror lives over a copy of the user files as they are at the start (its own store from then on)
    let mut mirror = Mirror { ctx: None, sb: sb.duplicate() };
    mirror.sync(opts);
    let opts0 = *opts;
    let mut trace: Vec<Ev> = vec![];
    let mut raw = String::new();
    let mut raw_valid = true;
    let mut obs = |s: &Step| -> Result<(), Failure> {
        trace.push(s.ev.clone());
        let cur = s.ctx.opts;
        let t = trace.clone();
        let case = || gen::trace_json(&opts0, &t);
        let mut twin: Option<Rendered> = None;
        match s.ev {
            Ev::Key { code, m, sel } => {
                if cur.is_phonetic() {
                    if let Some(c) = keys().by_code(*code).and_then(|k| k.ascii) {
                        raw.push(c);
                    }
                } else {
                    raw_valid = false; // fixed: the raw key text needs the layout; judged in the data pass
                }
                if let Some(mc) = &mirror.ctx {
                    twin = mc.key(*code, *m, *sel).ok();
                }
            }
            Ev::Backspace | Ev::CtrlBackspace => {
                let ctrl = matches!(s.ev, Ev::CtrlBackspace);
                if ctrl {
                    raw.clear();
                } else {
                    raw.pop();
                }
                if let Some(mc) = &mirror.ctx {
                    twin = mc.backspace(ctrl).ok();
                }
            }
            Ev::Commit(i) => {
                raw.clear();
                raw_valid = true;
                if let Some(mc) = &mirror.ctx {
                    let _ = mc.commit(*i);
                }
            }
            Ev::Finish => {
                raw.clear();
                raw_valid = true;
                if let Some(mc) = &mirror.ctx {
                    let _ = mc.finish();
                }
            }
            Ev::Update(_) | Ev::Restart => {
                raw.clear();
                raw_valid = true;
                mirror.sync(&cur);
            }
        }
        if let Outcome::Suggestion(r) = s.outcome {
            if !s.ctx.ongoing() {
                raw.clear();
                raw_valid = true;
            }
            let rawopt = if raw_valid && cur.is_phonetic() { Some(raw.as_str()) } else { None };
            judge(run, st, &cur, r, rawopt, &case)?;
            if cur.ansi {
                st.count("ansi-suggestions-judged", 1);
                if let Some(tw) = &twin {
                    if tw.lonely != r.lonely || tw.cands != r.cands || tw.text != r.text {
                        return Err(Failure::new(
                            "english-option-changes-ansi-list",
                            format!("ANSI on: English={} gives {} but English={} gives {}", cur.english, r.short(), !cur.english, tw.short()),
                            case(),
                        ));
                    }
                }
            } else {
                st.count("ansi-off-suggestions-judged", 1);
            }
        }
        Ok(())
    };
    for op in ops {
        match it.run_op(op, &mut obs) {
            Ok(Ok(())) => {}
            Ok(Err(f)) => return Err(f),
            Err(p) => return Err(Failure::new(panic_kind(&p.info), format!("event #{}: {}", p.at, p.info), gen::trace_json(opts, &it.trace))),
        }
    }
    Ok(())
}

fn dictionary_pass(run: &Run) {
    let all = &data().all_words;
    let step = run.tier.pick(9usize, 1usize);
    let off = run.seed as usize % step;
    let items: Vec<usize> = (off..all.len()).step_by(step).collect();
    let inv = layout_inverse(Layout::Probhat);
    run.exhaustive(
        "dictionary-words-fixed-ansi",
        &items,
        |_| {
            let sb = Sandbox::new();
            let ctxs: Vec<Ctx> = ["Pfa", "Pfaeq", "Pfak"].iter().map(|o| Ctx::new(Opts::parse(o), &sb).expect("context")).collect();
            (sb, ctxs)
        },
        |&wi, st, (_sb, ctxs)| {
            let w = &all[wi];
            let ks = match gen::keys_for_word(&inv, w) {
                Some(k) => k,
                None => {
                    st.skip("word-not-typeable-through-layout");
                    return Ok(());
                }
            };
            let ctx = &ctxs[wi % ctxs.len()];
            let case = || json!({"fixed_word": w, "opts": ctx.opts.letters()});
            let pf = |p: crate::driver::PanicInfo| Failure::new(panic_kind(&p), p.to_string(), case());
            ctx.finish().map_err(pf)?;
            let mut raw = String::new();
            let mut last = None;
            for (code, m) in &ks {
                if let Some(a) = keys().by_code(*code).and_then(|k| k.ascii) {
                    raw.push(a);
                }
                last = Some(ctx.key(*code, *m, 0).map_err(pf)?);
            }
            ctx.finish().map_err(pf)?;
            if let Some(r) = last {
                judge(run, st, &ctx.opts, &r, Some(&raw), &case)?;
                if !ctx.opts.kar && r.cands.first() != Some(w) {
                    return Err(Failure::new("word-not-first-candidate", format!("typed {w:?}: list {:?}", r.cands), case()));
                }
            }
            Ok(())
        },
    );
}

fn suffix_pass(run: &Run) {
    let p = pools();
    let per = run.tier.pick(4usize, 60usize);
    let items: Vec<usize> = (0..p.ac_keys.len()).collect();
    run.exhaustive(
        "autocorrect-keys-x-suffixes-phonetic-ansi",
        &items,
        |_| {
            let sb = Sandbox::new();
            let ctxs: Vec<Ctx> = ["sa", "saeq"].iter().map(|o| Ctx::new(Opts::parse(o), &sb).expect("context")).collect();
            (sb, ctxs)
        },
        |&ki, st, (_sb, ctxs)| {
            let k = &p.ac_keys[ki];
            for j in 0..per {
                st.evals(1);
                let h = hash_of(&(ki, j, run.seed)) as usize;
                let s = &p.suffix_keys[h % p.suffix_keys.len()];
                let ctx = &ctxs[h / 1000 % ctxs.len()];
                let text = format!("{k}{s}");
                let case = || json!({"phonetic_text": text, "opts": ctx.opts.letters()});
                let pf = |p: crate::driver::PanicInfo| Failure::new(panic_kind(&p), p.to_string(), case());
                ctx.finish().map_err(pf)?;
                let r = ctx.type_text(&text).map_err(pf)?.unwrap();
                ctx.finish().map_err(pf)?;
                judge(run, st, &ctx.opts, &r, Some(&text), &case)?;
            }
            Ok(())
        },
    );
}

/// A choice learned while ANSI was off (an emoji of the word, or the raw English text) must not come back
/// as a candidate once ANSI is on - neither in the same context after update-engine nor in a new context
/// over the same store.  Every emoji name / a sample of words x every candidate index.
fn learned_then_ansi(run: &Run) {
    let p = pools();
    let mut words: Vec<String> = p.emoji_names.iter().step_by(run.tier.pick(9, 1)).cloned().collect();
    words.extend(["sesh", "ami", "help", "cool", "a"].iter().map(|s| s.to_string()));
    run.exhaustive(
        "choice-learned-without-ansi-then-ansi-on",
        &words,
        |_| (),
        |w, st, _| {
            for english in [false, true] {
                let sb = Sandbox::new();
                let mut off = Opts::parse("sq");
                off.english = english;
                let mut on = off;
                on.ansi = true;
                let case = || json!({"learned_then_ansi": w, "english": english});
                let pf = |p: crate::driver::PanicInfo| Failure::new(panic_kind(&p), p.to_string(), case());
                let mut ctx = Ctx::new(off, &sb).map_err(pf)?;
                let n = match ctx.type_frontend(w).map_err(pf)? {
                    Some(r) => r.cands.len(),
                    None => continue,
                };
                ctx.finish().map_err(pf)?;
                for idx in 1..n {
                    ctx.update(off, &sb).map_err(pf)?;
                    ctx.type_frontend(w).map_err(pf)?;
                    ctx.commit(idx).map_err(pf)?;
                    ctx.update(on, &sb).map_err(pf)?;
                    let r = ctx.type_frontend(w).map_err(pf)?.unwrap();
                    ctx.finish().map_err(pf)?;
                    judge(run, st, &on, &r, Some(w), &case)?;
                    let fresh = Ctx::new(on, &sb).map_err(pf)?;
                    let r2 = fresh.type_frontend(w).map_err(pf)?.unwrap();
                    judge(run, st, &on, &r2, Some(w), &case)?;
                    if r.cands != r2.cands {
                        return Err(Failure::new("ansi-list-depends-on-history", format!("typed {w:?} under ANSI after learning index {idx} without ANSI: re-configured context {:?}, new context {:?}", r.cands, r2.cands), case()));
                    }
                    st.count("learned-then-ansi-checks", 1);
                }
            }
            st.label("learned-then-ansi-words");
            Ok(())
        },
    );
}

fn ansi_switch_case(run: &Run, phonetic: bool, w: &str, english: bool, end: u8, to_ansi: bool, st: &mut Stats) -> Result<(), Failure> {
    ansi_switch_case_with(run, phonetic, w, english, end, to_ansi, None, st)
}

/// `together`: another option that changes in the SAME update-engine call as ANSI (0 English, 3 auto vowel, 4 auto
/// chandrabindu, 5 traditional joining, 6 old reph, 7 number pad, 8 old vowel-sign order, 10 smart quotes).
#[allow(clippy::too_many_arguments)]
fn ansi_switch_case_with(run: &Run, phonetic: bool, w: &str, english: bool, end: u8, to_ansi: bool, together: Option<u8>, st: &mut Stats) -> Result<(), Failure> {
    let sb = Sandbox::new();
    let mut off = Opts::parse(if phonetic { "sq" } else { "Pfq" });
    off.english = english;
    let mut on = off;
    on.ansi = true;
    let (first, mut second) = if to_ansi { (off, on) } else { (on, off) };
    match together {
        Some(0) => second.english = !second.english,
        Some(3) => second.vowel = !second.vowel,
        Some(4) => second.chandra = !second.chandra,
        Some(5) => second.kar = !second.kar,
        Some(6) => second.reph = !second.reph,
        Some(7) => second.numpad = !second.numpad,
        Some(8) => second.karorder = !second.karorder,
        Some(10) => second.smart = !second.smart,
        _ => {}
    }
    let case = || json!({"ansi_switch": {"text": w, "phonetic": phonetic, "english": english, "ending": end, "to_ansi": to_ansi, "together": together}});
    let pf = |p: crate::driver::PanicInfo| Failure::new(panic_kind(&p), p.to_string(), case());
    let mut ctx = Ctx::new(first, &sb).map_err(pf)?;
    let r0 = ctx.type_frontend(w).map_err(pf)?;
    match end {
        0 => ctx.finish().map_err(pf)?,
        1 => {
            if r0.as_ref().map(|r| r.choices() > 0).unwrap_or(false) {
                ctx.commit(0).map_err(pf)?;
            }
        }
        2 => {
            ctx.backspace(true).map_err(pf)?;
        }
        _ => {
            for _ in 0..(3 * w.chars().count() + 2) {
                if !ctx.ongoing() {
                    break;
                }
                ctx.backspace(false).map_err(pf)?;
            }
        }
    }
    if ctx.ongoing() {
        ctx.finish().map_err(pf)?;
    }
    ctx.update_with(second, &sb, if end == 4 { crate::driver::UpdateMode::KeepChanged } else { crate::driver::UpdateMode::NewObject }).map_err(pf)?;
    let mut sel = 0u8;
    for (i, ch) in w.chars().enumerate() {
        let r = ctx.ch(ch, sel).map_err(pf)?;
        sel = if r.lonely { 0 } else { r.sel.min(255) as u8 };
        let typed: String = w.chars().take(i + 1).collect();
        judge(run, st, &second, &r, if phonetic { Some(typed.as_str()) } else { None }, &case)?;
    }
    ctx.finish().map_err(pf)?;
    Ok(())
}

/// The same text on both sides of the ANSI switch: typed with ANSI off (emoji and raw text on offer), the word is ended in
/// one of five ways (finish, commit, ctrl-backspace, plain backspaces down to nothing, or left as it is and erased),
/// update-engine switches ANSI on (idle), and the SAME text is typed again - every list is judged, and the other
/// direction (ANSI on -> off) must give pre-edit text equal to the candidates.  Both methods.
/// The ANSI switch made in one update-engine call TOGETHER with one other option (a settings dialog applies all changes
/// at once): the text typed after the call is judged under the new settings.
fn ansi_switch_together_with_another_option(run: &Run) {
    let mut items: Vec<(bool, &str, u8)> = vec![];
    for t in [0u8, 3, 4, 5, 6, 7, 8, 10] {
        for w in ["help", "cool", ":)", "\"k\"", "ami"] {
            items.push((true, w, t));
        }
        for w in ["vmi", "\"k\"", ";)"] {
            items.push((false, w, t));
        }
    }
    run.exhaustive("ansi-switch-together-with-another-option", &items, |_| (), |&(phonetic, w, t), st, _| {
        for english in [false, true] {
            for end in [0u8, 1, 4] {
                for to_ansi in [true, false] {
                    ansi_switch_case_with(run, phonetic, w, english, end, to_ansi, Some(t), st)?;
                    st.count("ansi-switch-checks", 1);
                }
            }
        }
        st.label("ansi-switched-together-with-another-option");
        Ok(())
    });
}

fn same_text_across_the_ansi_switch(run: &Run) {
    let p = pools();
    let mut texts: Vec<(bool, String)> = vec![];
    for w in ["a", "k", "ami", "cool", ":)", "+1", "smile", "\"k\"", "x`", "rri"] {
        texts.push((true, w.to_string()));
    }
    texts.extend(p.emoticons.iter().step_by(run.tier.pick(23, 3)).map(|e| (true, e.clone())));
    texts.extend(p.emoji_names.iter().step_by(run.tier.pick(97, 11)).map(|e| (true, e.clone())));
    for w in ["k", "vmi", ";)", "B]", "hvsi", "\"k\""] {
        texts.push((false, w.to_string()));
    }
    run.exhaustive(
        "same-text-on-both-sides-of-the-ansi-switch",
        &texts,
        |_| (),
        |(phonetic, w), st, _| {
            for english in [false, true] {
                for end in 0..5u8 {
                    for to_ansi in [true, false] {
                        ansi_switch_case(run, *phonetic, w, english, end, to_ansi, st)?;
                        st.count("ansi-switch-checks", 1);
                    }
                }
            }
            st.label("same-text-across-the-ansi-switch");
            Ok(())
        },
    );
}

pub fn run(run: &Run) {
    same_text_across_the_ansi_switch(run);
    ansi_switch_together_with_another_option(run);
    learned_then_ansi(run);
    dictionary_pass(run);
    suffix_pass(run);
    // emoticons and emoji names under ANSI with English on and off
    let e = pools();
    let texts: Vec<String> = e.emoticons.iter().chain(e.emoji_names.iter()).cloned().collect();
    run.exhaustive(
        "emoticons-and-names-under-ansi",
        &texts,
        |_| {
            let sb = Sandbox::new();
            let ctxs: Vec<Ctx> = ["sae", "sa", "saeq"].iter().map(|o| Ctx::new(Opts::parse(o), &sb).expect("context")).collect();
            (sb, ctxs)
        },
        |text, st, (_sb, ctxs)| {
            let mut lists = vec![];
            for ctx in ctxs.iter() {
                let case = || json!({"phonetic_text": text, "opts": ctx.opts.letters()});
                let pf = |p: crate::driver::PanicInfo| Failure::new(panic_kind(&p), p.to_string(), case());
                ctx.finish().map_err(pf)?;
                let r = ctx.type_text(text).map_err(pf)?.unwrap();
                ctx.finish().map_err(pf)?;
                judge(run, st, &ctx.opts, &r, Some(text), &case)?;
                lists.push(r.cands);
            }
            if lists[0] != lists[1] {
                return Err(Failure::new("english-option-changes-ansi-list", format!("typed {text:?}: English on {:?}, off {:?}", lists[0], lists[1]), json!({"phonetic_text": text, "opts": "sae"})));
            }
            Ok(())
        },
    );
    let cases = run.tier.pick(350, 8000);
    run.sharded(
        "histories-ansi-on-and-off",
        16,
        cases,
        500,
        || {
            (gen::opts_strategy(), proptest::bool::weighted(0.75), proptest::collection::vec(gen::op_strategy(&weights(), false), 1..40)).prop_map(|(mut o, a, ops)| {
                o.ansi = a;
                (o, ops)
            })
        },
        |_| (),
        |(opts, ops): &(Opts, Vec<AbsOp>), st, _| run_history(run, opts, ops, st),
    );
    run.require_label("emoticon-or-name-under-ansi-with-english", 20);
}

pub fn replay(run: &Run, case: &Value) -> Result<(), Failure> {
    if let Some(a) = case.get("ansi_switch") {
        return ansi_switch_case_with(run, a["phonetic"].as_bool().unwrap_or(true), a["text"].as_str().unwrap_or_default(), a["english"].as_bool().unwrap_or(false), a["ending"].as_u64().unwrap_or(0) as u8, a["to_ansi"].as_bool().unwrap_or(true), a["together"].as_u64().map(|t| t as u8), &mut Stats::new());
    }
    let opts = Opts::parse(case["opts"].as_str().unwrap_or_default());
    let mut st = Stats::new();
    let sb = Sandbox::new();
    if let Some(w) = case["fixed_word"].as_str() {
        let ctx = Ctx::new(opts, &sb).map_err(|p| Failure::new(panic_kind(&p), p.to_string(), case.clone()))?;
        let inv = layout_inverse(opts.layout);
        let ks = gen::keys_for_word(&inv, w).unwrap_or_default();
        let mut raw = String::new();
        let mut last = None;
        for (code, m) in &ks {
            if let Some(a) = keys().by_code(*code).and_then(|k| k.ascii) {
                raw.push(a);
            }
            last = Some(ctx.key(*code, *m, 0).map_err(|p| Failure::new(panic_kind(&p), p.to_string(), case.clone()))?);
        }
        return match last {
            Some(r) => judge(run, &mut st, &opts, &r, Some(&raw), &|| case.clone()),
            None => Ok(()),
        };
    }
    if let Some(w) = case["learned_then_ansi"].as_str() {
        let english = case["english"].as_bool().unwrap_or(false);
        let mut off = Opts::parse("sq");
        off.english = english;
        let mut on = off;
        on.ansi = true;
        let pf = |p: crate::driver::PanicInfo| Failure::new(panic_kind(&p), p.to_string(), case.clone());
        let mut ctx = Ctx::new(off, &sb).map_err(pf)?;
        let n = ctx.type_frontend(w).map_err(pf)?.map(|r| r.cands.len()).unwrap_or(0);
        ctx.finish().map_err(pf)?;
        for idx in 1..n {
            ctx.update(off, &sb).map_err(pf)?;
            ctx.type_frontend(w).map_err(pf)?;
            ctx.commit(idx).map_err(pf)?;
            ctx.update(on, &sb).map_err(pf)?;
            let r = ctx.type_frontend(w).map_err(pf)?.unwrap();
            ctx.finish().map_err(pf)?;
            judge(run, &mut st, &on, &r, Some(w), &|| case.clone())?;
        }
        return Ok(());
    }
    if let Some(t) = case["phonetic_text"].as_str() {
        let ctx = Ctx::new(opts, &sb).map_err(|p| Failure::new(panic_kind(&p), p.to_string(), case.clone()))?;
        let r = ctx.type_text(t).map_err(|p| Failure::new(panic_kind(&p), p.to_string(), case.clone()))?;
        if let Some(r) = r {
            judge(run, &mut st, &opts, &r, Some(t), &|| case.clone())?;
            let mut o2 = opts;
            o2.english = !o2.english;
            if opts.ansi {
                let c2 = Ctx::new(o2, &sb).map_err(|p| Failure::new(panic_kind(&p), p.to_string(), case.clone()))?;
                if let Ok(Some(r2)) = c2.type_text(t) {
                    if r2.cands != r.cands {
                        return Err(Failure::new("english-option-changes-ansi-list", format!("{:?} vs {:?}", r.cands, r2.cands), case.clone()));
                    }
                }
            }
        }
        return Ok(());
    }
    // concrete trace: re-run with a single-op wrapper
    let events: Vec<Ev> = serde_json::from_value(case["events"].clone()).unwrap_or_default();
    let ops: Vec<AbsOp> = vec![];
    let _ = ops;
    replay_events(run, &opts, &events, &mut st)
}

fn replay_events(run: &Run, opts: &Opts, events: &[Ev], st: &mut Stats) -> Result<(), Failure> {
    // Re-use run_history's observer by converting concrete events to exact abstract ops is not
    // possible for commits; execute directly instead.
    let sb = Sandbox::new();
    let mut it = Interp::new(*opts, &sb).map_err(|p| Failure::new(panic_kind(&p.info), p.info.to_string(), json!({})))?;
    let mut mirror = Mirror { ctx: None, sb: Sandbox::new() };
    mirror.sync(opts);
    for ev in events {
        let mut obs = |s: &Step| -> Result<(), Failure> {
            let cur = s.ctx.opts;
            let mut twin = None;
            match s.ev {
                Ev::Key { code, m, sel } => {
                    if let Some(mc) = &mirror.ctx {
                        twin = mc.key(*code, *m, *sel).ok();
                    }
                }
                Ev::Backspace | Ev::CtrlBackspace => {
                    if let Some(mc) = &mirror.ctx {
                        twin = mc.backspace(matches!(s.ev, Ev::CtrlBackspace)).ok();
                    }
                }
                Ev::Commit(i) => {
                    if let Some(mc) = &mirror.ctx {
                        let _ = mc.commit(*i);
                    }
                }
                Ev::Finish => {
                    if let Some(mc) = &mirror.ctx {
                        let _ = mc.finish();
                    }
                }
                Ev::Update(_) | Ev::Restart => mirror.sync(&cur),
            }
            if let Outcome::Suggestion(r) = s.outcome {
                judge(run, st, &cur, r, None, &|| json!({"at": s.index}))?;
                if let (true, Some(tw)) = (cur.ansi, &twin) {
                    if tw.cands != r.cands || tw.text != r.text {
                        return Err(Failure::new("english-option-changes-ansi-list", format!("{} vs {}", r.short(), tw.short()), json!({"at": s.index})));
                    }
                }
            }
            Ok(())
        };
        match it.exec(ev.clone(), &mut obs) {
            Ok(Ok(())) => {}
            Ok(Err(f)) => return Err(f),
            Err(p) => return Err(Failure::new(panic_kind(&p.info), format!("event #{}: {}", p.at, p.info), json!({}))),
        }
    }
    Ok(())
}
