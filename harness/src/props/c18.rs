//! C18 — every emoticon and emoji name in the tables produces its emoji.

use crate::driver::{keys, layout_inverse, Ctx, Layout, Opts, Sandbox};
use crate::gen::keys_for_word;
use crate::model::{avro, curl_close, curl_open, emoji, META};
use crate::props::c01::panic_kind;
use crate::runner::{hash_of, Failure, Run, Stats, Tier};
use serde_json::{json, Value};
use std::collections::HashMap;

pub const LEVEL: &str = "exploration";
pub const EXHAUSTIVE: bool = true;
pub const RULE: &str = "enumerated completely: every key of emojicon's emoticon table (phonetic, bare; fixed Probhat, bare), every English emoji name (phonetic) and every Bengali emoji name (fixed: Probhat and the synthetic layout, suggestions on) each bare and in 5 punctuation wrappers incl. quotes, English option both ways (the English-on context is created under ANSI and re-configured by update-engine before use), smart quotes on; thorough additionally after a warm-up word and under traditional joining. Entries a method cannot type (character outside the 94 ASCII keys / not producible by the layout) are counted and listed, not failed. Oracle: emoticon => its emoji is a candidate, and in phonetic mode the literal text too; name => wrapper'.e.wrapper' is a candidate for every emoji e of the entry, in table order relative to each other (fixed mode: the first k table emoji for the largest k the 9-candidate cap allows); non-disturbance: removing the emoji (and the raw literal) leaves exactly the list of an ANSI twin (phonetic) / a prefix of it (fixed, the cap). Non-trivial: every typeable table entry; distinct by (method, entry, wrapper, English). Plus: every emoticon typed right after EACH candidate of the previous table entry was committed (phonetic plain / English, Probhat plain / English), no finish request in between: emoji offered, phonetic literal available.";
pub const ASSUMPTIONS: &[&str] = &[
    "emojicon::internal tables are the bundled tables",
    "the nine-candidate cap of C15 wins over 'offers all emoji' in fixed mode (pinned by riti's test_emojis)",
    "ANSI twin = same configuration with ANSI on, English off",
];

const WRAPS: &[(&str, &str)] = &[("", ""), ("(", ")"), ("\"", "\""), ("'", "'."), ("[", "]!"), ("", "?"), ("", ":`"), ("(", ":`)")];
/// wrappers whose characters the fixed layouts can produce
const FIXED_WRAPS: &[(&str, &str)] = &[("", ""), ("(", ")"), ("\"", "\""), ("'", "'"), ("", "!"), ("\"(", "?")];

fn typeable(s: &str) -> bool {
    !s.is_empty() && s.chars().all(|c| keys().has_char(c))
}

fn subsequence_in_order(list: &[String], want: &[String]) -> bool {
    let got: Vec<&String> = list.iter().filter(|x| want.contains(x)).collect();
    got.len() == want.len() && got.iter().zip(want.iter()).all(|(a, b)| *a == b)
}

struct Phon {
    _sb: Sandbox,
    plain: Ctx,
    english: Ctx,
    ansi: Ctx,
}

/// A context that was created under ANSI and re-configured while idle ("outside ANSI mode" is about the
/// configuration in force, not about how the context started): the English-on context of every
/// triple is made this way.
fn created_under_ansi(opts: Opts, sb: &Sandbox) -> Ctx {
    let mut first = opts;
    first.ansi = true;
    let mut c = Ctx::new(first, sb).unwrap();
    let _ = c.type_text("k");
    let _ = c.finish();
    c.update(opts, sb).unwrap();
    c
}

fn mk_phon() -> Phon {
    let sb = Sandbox::new();
    Phon { plain: Ctx::new(Opts::parse("sq"), &sb).unwrap(), english: created_under_ansi(Opts::parse("sqe"), &sb), ansi: Ctx::new(Opts::parse("sqa"), &sb).unwrap(), _sb: sb }
}

fn type_list(ctx: &Ctx, text: &str, warm: Option<&str>, case: &dyn Fn() -> Value) -> Result<Vec<String>, Failure> {
    let pf = |p: crate::driver::PanicInfo| Failure::new(panic_kind(&p), p.to_string(), case());
    ctx.finish().map_err(pf)?;
    if let Some(w) = warm {
        ctx.type_text(w).map_err(pf)?;
        ctx.finish().map_err(pf)?;
    }
    let r = ctx.type_text(text).map_err(pf)?.unwrap();
    ctx.finish().map_err(pf)?;
    if r.lonely {
        return Err(Failure::new("not-list", "single string with suggestions on".to_string(), case()));
    }
    Ok(r.cands)
}

/// `list` minus emoji minus at most the occurrences of the raw text must equal / extend to `twin`.
fn undisturbed(list: &[String], emojis: &[String], raw: &str, twin: &[String], prefix_ok: bool) -> bool {
    let rest: Vec<&String> = list.iter().filter(|c| !emojis.contains(c)).collect();
    let matches = |r: &[&String]| -> bool {
        if prefix_ok {
            r.len() <= twin.len() && r.iter().zip(twin.iter()).all(|(a, b)| *a == b)
        } else {
            r.len() == twin.len() && r.iter().zip(twin.iter()).all(|(a, b)| *a == b)
        }
    };
    if matches(&rest) {
        return true;
    }
    // allow the raw literal to be removed once (emoticon literal / English candidate)
    if let Some(pos) = rest.iter().rposition(|c| c.as_str() == raw) {
        let mut r2 = rest.clone();
        r2.remove(pos);
        if matches(&r2) {
            return true;
        }
    }
    false
}

fn phonetic_entry(run: &Run, lo: &Phon, st: &mut Stats, name: &str, emojis: &[String], is_emoticon: bool, wrap: (&str, &str), warm: Option<&str>) -> Result<(), Failure> {
    let text = format!("{}{}{}", wrap.0, name, wrap.1);
    for (ctx, eng) in [(&lo.plain, false), (&lo.english, true)] {
        let case = || json!({"method": "phonetic", "text": text, "entry": name, "emoticon": is_emoticon, "wrap": [wrap.0, wrap.1], "english": eng, "warm": warm});
        let list = type_list(ctx, &text, warm, &case)?;
        let twin = type_list(&lo.ansi, &text, warm, &case)?;
        st.evals(1);
        let want: Vec<String> = if is_emoticon {
            emojis.to_vec()
        } else {
            let (p, t) = (curl_open(&avro(wrap.0)), curl_close(&avro(wrap.1)));
            emojis.iter().map(|e| format!("{p}{e}{t}")).collect()
        };
        let fail = |kind: &str, msg: String| Failure::new(kind, format!("phonetic, typed {text:?} (English {eng}): {msg}; list {list:?}"), case());
        for w in &want {
            if !list.contains(w) {
                let edge = name.starts_with(|c: char| META.contains(c)) || name.ends_with(|c: char| META.contains(c) || c == ':' || c == '`');
                let kind = if !is_emoticon && edge { "emoji-name-with-edge-punctuation" } else { "emoji-missing" };
                if run.absorb(st, kind) {
                    return Ok(());
                }
                return Err(fail(kind, format!("emoji {w:?} of table entry {name:?} is not offered")));
            }
        }
        if !subsequence_in_order(&list, &want) {
            return Err(fail("emoji-order", format!("emoji of {name:?} are not in table order {want:?}")));
        }
        if is_emoticon && !list.iter().any(|c| c == &text) {
            return Err(fail("emoticon-literal-missing", "the literal typed text is not available as a candidate".into()));
        }
        if !undisturbed(&list, &want, &text, &twin, false) {
            return Err(fail("non-emoji-candidates-disturbed", format!("without the emoji the list should be the ANSI twin's {twin:?}")));
        }
        st.nontrivial(hash_of(&("phonetic", &text, eng, warm)), || json!({"method": "phonetic", "typed": text, "english": eng, "list": list}));
    }
    Ok(())
}

struct Fixed {
    _sb: Sandbox,
    layout: Layout,
    inv: HashMap<String, (u16, u8)>,
    plain: Ctx,
    english: Ctx,
    ansi: Ctx,
    /// old vowel-sign order on: emoticons are typed after an erased word of waiting signs
    karorder: Ctx,
}

fn mk_fixed(layout: Layout, kar: bool) -> Fixed {
    let sb = Sandbox::new();
    let base = if layout == Layout::Probhat { "Pfq" } else { "Sfq" };
    let k = if kar { "k" } else { "" };
    Fixed {
        layout,
        inv: layout_inverse(layout),
        plain: Ctx::new(Opts::parse(&format!("{base}{k}")), &sb).unwrap(),
        english: created_under_ansi(Opts::parse(&format!("{base}{k}e")), &sb),
        ansi: Ctx::new(Opts::parse(&format!("{base}{k}a")), &sb).unwrap(),
        karorder: Ctx::new(Opts::parse(&format!("{base}{k}oe")), &sb).unwrap(),
        _sb: sb,
    }
}

fn fixed_type(ctx: &Ctx, ks: &[(u16, u8)], case: &dyn Fn() -> Value) -> Result<(Vec<String>, String), Failure> {
    fixed_type_after(ctx, None, ks, case)
}

/// `refused`: a key the layout does not accept (a number-pad key while the option is off, the number-pad '=')
/// pressed from the idle state right before the entry - it composes nothing and starts nothing, so it cannot count.
fn fixed_type_after(ctx: &Ctx, refused: Option<u16>, ks: &[(u16, u8)], case: &dyn Fn() -> Value) -> Result<(Vec<String>, String), Failure> {
    let pf = |p: crate::driver::PanicInfo| Failure::new(panic_kind(&p), p.to_string(), case());
    ctx.finish().map_err(pf)?;
    if let Some(code) = refused {
        let r = ctx.key(code, 0, 0).map_err(pf)?;
        if !r.is_empty() || ctx.ongoing() {
            return Err(Failure::new("refused-key-not-refused", format!("key code {code} is not in the layout (number pad off) but returned {} / ongoing {}", r.short(), ctx.ongoing()), case()));
        }
    }
    let mut last = None;
    for (c, m) in ks {
        last = Some(ctx.key(*c, *m, 0).map_err(pf)?);
    }
    ctx.finish().map_err(pf)?;
    let r = last.unwrap();
    if r.lonely {
        return Err(Failure::new("not-list", "single string with suggestions on".to_string(), case()));
    }
    Ok((r.cands, r.text))
}

fn fixed_entry(run: &Run, lo: &Fixed, st: &mut Stats, name: &str, emojis: &[String], is_emoticon: bool, wrap: (&str, &str)) -> Result<(), Failure> {
    let text = format!("{}{}{}", wrap.0, name, wrap.1);
    if is_emoticon {
        // the emoticon is looked up on the raw keys of THIS word: words erased before must not count
        let ctx = &lo.karorder;
        let case = || json!({"method": format!("{:?}", lo.layout), "opts": ctx.opts.letters(), "text": text, "entry": name, "emoticon": true, "wrap": ["", ""], "english": true, "after_erased_waiting_signs": true});
        let pf = |p: crate::driver::PanicInfo| Failure::new(panic_kind(&p), p.to_string(), case());
        for pre in [vec!['i', '['], vec!['k', 'i'], vec!['[', 'k', '/']] {
            ctx.finish().map_err(pf)?;
            for c in &pre {
                ctx.ch(*c, 0).map_err(pf)?;
            }
            for _ in 0..6 {
                if ctx.backspace(false).map_err(pf)?.is_empty() {
                    break;
                }
            }
            let r = ctx.type_text(&text).map_err(pf)?.unwrap();
            ctx.finish().map_err(pf)?;
            if !r.lonely && !emojis.iter().all(|e| r.cands.contains(e)) {
                return Err(Failure::new("emoji-missing", format!("{:?}, old vowel-sign order, emoticon {text:?} typed after the erased word {pre:?}: its emoji is not offered; list {:?}", lo.layout, r.cands), case()));
            }
        }
        st.count("emoticons-after-erased-words", 1);
    }
    let ks = if is_emoticon { Some(text.chars().map(|c| (keys().code_for(c), 0u8)).collect::<Vec<_>>()) } else { keys_for_word(&lo.inv, &text) };
    let ks = match ks {
        Some(k) => k,
        None => {
            st.skip(&format!("{:?}-cannot-type-entry", lo.layout));
            return Ok(());
        }
    };
    for (ctx, eng) in [(&lo.plain, false), (&lo.english, true)] {
        let case = || json!({"method": format!("{:?}", lo.layout), "opts": ctx.opts.letters(), "text": text, "entry": name, "emoticon": is_emoticon, "wrap": [wrap.0, wrap.1], "english": eng});
        let (list, composed) = fixed_type(ctx, &ks, &case)?;
        // the same entry right after a refused key (from idle): the list must be the same
        for name_of_key in ["KP_EQUALS", "KP_5"] {
            if let Some(k) = keys().by_name(name_of_key) {
                let (l2, _) = fixed_type_after(ctx, Some(k.code), &ks, &case)?;
                st.count("entries-typed-after-a-refused-key", 1);
                if l2 != list {
                    return Err(Failure::new(
                        "refused-key-changes-the-next-word",
                        format!("{:?}, {text:?} typed right after the refused key {name_of_key} (idle, number pad off): list {l2:?}, without that key {list:?}", lo.layout),
                        case(),
                    ));
                }
            }
        }
        if !is_emoticon && composed != text {
            // a composition helper changed the text (traditional joining): the name is no longer what was typed
            st.skip("composed-text-differs-from-name");
            continue;
        }
        let (twin, _) = fixed_type(&lo.ansi, &ks, &case)?;
        st.evals(1);
        let raw: String = ks.iter().filter_map(|(c, _)| keys().by_code(*c).and_then(|k| k.ascii)).collect();
        let english_item = eng && raw != composed;
        let slots = if english_item { 7 } else { 8 };
        let want_all: Vec<String> = if is_emoticon { emojis.to_vec() } else { emojis.iter().map(|e| format!("{}{}{}", curl_open(wrap.0), e, curl_close(wrap.1))).collect() };
        let k = want_all.len().min(slots);
        let want = &want_all[..k];
        let fail = |kind: &str, msg: String| Failure::new(kind, format!("{:?}, typed {text:?} (English {eng}): {msg}; list {list:?}", lo.layout), case());
        for w in want {
            if !list.contains(w) {
                let edge = name.starts_with(|c: char| META.contains(c)) || name.ends_with(|c: char| META.contains(c) || c == ':' || c == '`');
                if !is_emoticon && edge && run.absorb(st, "emoji-name-with-edge-punctuation") {
                    return Ok(());
                }
                return Err(fail(if !is_emoticon && edge { "emoji-name-with-edge-punctuation" } else { "emoji-missing" }, format!("emoji {w:?} of table entry {name:?} is not offered (the first {k} table emoji fit under the cap)")));
            }
        }
        let shown: Vec<String> = list.iter().filter(|c| want_all.contains(c)).cloned().collect();
        if shown.len() < k || shown[..k] != want[..] {
            return Err(fail("emoji-order", format!("emoji shown {shown:?} are not the first {k} of the table order {want_all:?}")));
        }
        if !undisturbed(&list, &want_all, &raw, &twin, true) {
            return Err(fail("non-emoji-candidates-disturbed", format!("without the emoji the list should be a prefix of the ANSI twin's {twin:?}")));
        }
        if want_all.len() > 8 {
            st.label("entry-with-more-emoji-than-the-cap");
        }
        st.nontrivial(hash_of(&(format!("{:?}", lo.layout), &text, eng)), || json!({"method": format!("{:?}", lo.layout), "typed": text, "english": eng, "list": list}));
    }
    Ok(())
}

#[allow(clippy::too_many_arguments)]
fn after_commit_one(ctx: &Ctx, name: &str, phonetic: bool, prev: &str, cur: &str, emo: &str, only: Option<usize>, st: &mut Stats) -> Result<(), Failure> {
    let mut j = only.unwrap_or(0);
    loop {
        let case = || json!({"after_commit": {"context": name, "previous": prev, "committed_index": j, "emoticon": cur}});
        let pf = |p: crate::driver::PanicInfo| Failure::new(panic_kind(&p), p.to_string(), case());
        ctx.finish().map_err(pf)?;
        let Some(l) = ctx.type_frontend(prev).map_err(pf)? else { break };
        if l.lonely || j >= l.cands.len() {
            ctx.finish().map_err(pf)?;
            break;
        }
        ctx.commit(j).map_err(pf)?;
        let r = ctx.type_text(cur).map_err(pf)?.unwrap();
        ctx.finish().map_err(pf)?;
        st.evals(1);
        if j != l.sel {
            st.label("emoticon-typed-after-a-non-preselected-commit");
        }
        if r.lonely || !r.cands.iter().any(|c| c == emo) {
            return Err(Failure::new("emoji-missing", format!("{name}: {prev:?} typed and candidate {j} of {:?} committed, then {cur:?} typed: its emoji {emo:?} is not offered; got {}", l.cands, r.short()), case()));
        }
        if phonetic && !r.cands.iter().any(|c| c == cur) {
            return Err(Failure::new("emoticon-literal-missing", format!("{name}: after committing candidate {j} of {prev:?}, typing {cur:?}: the literal text is not a candidate; got {}", r.short()), case()));
        }
        if only.is_some() {
            break;
        }
        j += 1;
    }
    Ok(())
}

/// A word is also ended by committing one of its candidates.  Every emoticon (phonetic: plain and English context;
/// Probhat with suggestions) is typed right after the previous table entry was committed at EACH of its candidate
/// indices in turn - no finish request in between - and must still offer its emoji (phonetic: and its literal text).
fn after_commit(run: &Run) {
    let e = emoji();
    let emoticons: Vec<(String, String)> = e.emoticons.iter().filter(|(k, _)| typeable(k)).cloned().collect();
    let n = emoticons.len();
    let items: Vec<usize> = (0..n).collect();
    run.exhaustive(
        "emoticon-after-each-candidate-of-the-previous-one-was-committed",
        &items,
        |_| (mk_phon(), mk_fixed(Layout::Probhat, false)),
        |&i, st, (ph, fx)| {
            let (prev, _) = &emoticons[(i + n - 1) % n];
            let (cur, emo) = &emoticons[i];
            for (ctx, name, phonetic) in [(&ph.plain, "phonetic", true), (&ph.english, "phonetic+English", true), (&fx.plain, "Probhat", false), (&fx.english, "Probhat+English", false)] {
                after_commit_one(ctx, name, phonetic, prev, cur, emo, None, st)?;
            }
            Ok(())
        },
    );
    run.require_label("emoticon-typed-after-a-non-preselected-commit", 100);
}

/// "in table order" - also when the user has picked one of them before: for every English name with two or more emoji each
/// emoji is committed in turn (a learned choice), and the name is typed again bare and wrapped, in the same context and in
/// a restarted one: all emoji still offered, still in table order (what is learned moves the preselection, nothing else).
fn name_again_after_each_emoji_was_chosen(run: &Run) {
    let e = emoji();
    let names: Vec<(String, Vec<String>)> = e.names.iter().filter(|(k, v)| typeable(k) && v.len() >= 2 && k.chars().all(|c| c.is_ascii_alphanumeric())).cloned().collect();
    run.exhaustive(
        "name-typed-again-after-each-of-its-emoji-was-chosen",
        &names,
        |_| (),
        |(name, emojis), st, _| {
            let sb = Sandbox::new();
            let opts = Opts::parse("sq");
            let case = || json!({"name_after_choice": name});
            let pf = |p: crate::driver::PanicInfo| Failure::new(panic_kind(&p), p.to_string(), case());
            let mut ctx = Ctx::new(opts, &sb).map_err(pf)?;
            for (ei, em) in emojis.iter().enumerate() {
                let r = ctx.type_frontend(name).map_err(pf)?.unwrap();
                let Some(idx) = r.cands.iter().position(|c| c == em) else {
                    ctx.finish().map_err(pf)?;
                    continue;
                };
                ctx.commit(idx).map_err(pf)?;
                if ei % 2 == 1 {
                    ctx = Ctx::new(opts, &sb).map_err(pf)?;
                }
                for (l, t) in [("", ""), ("(", ")"), ("", "!")] {
                    let text = format!("{l}{name}{t}");
                    let list = type_list(&ctx, &text, None, &case)?;
                    let want: Vec<String> = emojis.iter().map(|x| format!("{}{x}{}", curl_open(&avro(l)), curl_close(&avro(t)))).collect();
                    st.evals(1);
                    if want.iter().any(|w| !list.contains(w)) || !subsequence_in_order(&list, &want) {
                        return Err(Failure::new(
                            "emoji-order",
                            format!("after {em:?} was chosen for {name:?}, typing {text:?}: the emoji of the entry must all be offered in table order {want:?}; list {list:?}"),
                            case(),
                        ));
                    }
                }
            }
            st.label("names-with-several-emoji-after-a-choice");
            st.nontrivial(hash_of(&("after-choice", name)), || json!({"name": name, "emoji": emojis}));
            Ok(())
        },
    );
}

pub fn run(run: &Run) {
    name_again_after_each_emoji_was_chosen(run);
    after_commit(run);
    let e = emoji();
    // phonetic: emoticons
    let mut untypeable: Vec<String> = vec![];
    let emoticons: Vec<(String, String)> = e.emoticons.iter().filter(|(k, _)| if typeable(k) { true } else { untypeable.push(k.clone()); false }).cloned().collect();
    let names: Vec<(String, Vec<String>)> = e.names.iter().filter(|(k, _)| if typeable(k) { true } else { untypeable.push(k.clone()); false }).cloned().collect();
    run.stats.lock().unwrap().count("entries-not-typeable-in-phonetic-mode", untypeable.len() as u64);
    let warm = if run.tier == Tier::Thorough { vec![None, Some("amar")] } else { vec![None] };
    for w in &warm {
        run.exhaustive("phonetic-emoticons", &emoticons, |_| mk_phon(), |(k, v), st, lo| phonetic_entry(run, lo, st, k, &[v.clone()], true, ("", ""), *w));
        run.exhaustive(
            "phonetic-english-names",
            &names,
            |_| mk_phon(),
            |(k, v), st, lo| {
                for wr in WRAPS {
                    phonetic_entry(run, lo, st, k, v, false, *wr, *w)?;
                }
                Ok(())
            },
        );
    }
    // fixed: emoticons (Probhat) and Bengali names (both layouts)
    let kars = if run.tier == Tier::Thorough { vec![false, true] } else { vec![false] };
    for kar in kars {
        run.exhaustive("fixed-emoticons", &emoticons, |_| mk_fixed(Layout::Probhat, kar), |(k, v), st, lo| fixed_entry(run, lo, st, k, &[v.clone()], true, ("", "")));
        for layout in [Layout::Probhat, Layout::Synthetic] {
            run.exhaustive(
                if layout == Layout::Probhat { "fixed-bengali-names-probhat" } else { "fixed-bengali-names-synthetic" },
                &e.bn_names,
                |_| mk_fixed(layout, kar),
                |(k, v), st, lo| {
                    for wr in FIXED_WRAPS {
                        fixed_entry(run, lo, st, k, v, false, *wr)?;
                    }
                    Ok(())
                },
            );
        }
    }
    run.require_label("entry-with-more-emoji-than-the-cap", 1);
}

pub fn replay(run: &Run, case: &Value) -> Result<(), Failure> {
    if let Some(name) = case["name_after_choice"].as_str() {
        let e = emoji();
        let Some((_, emojis)) = e.names.iter().find(|(k, _)| k == name) else { return Ok(()) };
        let sb = Sandbox::new();
        let opts = Opts::parse("sq");
        let pf = |p: crate::driver::PanicInfo| Failure::new(panic_kind(&p), p.to_string(), case.clone());
        let mut ctx = Ctx::new(opts, &sb).map_err(pf)?;
        for (ei, em) in emojis.iter().enumerate() {
            let r = ctx.type_frontend(name).map_err(pf)?.unwrap();
            let Some(idx) = r.cands.iter().position(|c| c == em) else {
                ctx.finish().map_err(pf)?;
                continue;
            };
            ctx.commit(idx).map_err(pf)?;
            if ei % 2 == 1 {
                ctx = Ctx::new(opts, &sb).map_err(pf)?;
            }
            for (l, t) in [("", ""), ("(", ")"), ("", "!")] {
                let text = format!("{l}{name}{t}");
                let list = type_list(&ctx, &text, None, &|| case.clone())?;
                let want: Vec<String> = emojis.iter().map(|x| format!("{}{x}{}", curl_open(&avro(l)), curl_close(&avro(t)))).collect();
                if want.iter().any(|w| !list.contains(w)) || !subsequence_in_order(&list, &want) {
                    return Err(Failure::new("emoji-order", format!("after {em:?} was chosen, typing {text:?}: want {want:?} in order; list {list:?}"), case.clone()));
                }
            }
        }
        return Ok(());
    }
    let e = emoji();
    if let Some(ac) = case.get("after_commit") {
        let g = |k: &str| ac[k].as_str().unwrap_or_default().to_string();
        let (name, prev, cur) = (g("context"), g("previous"), g("emoticon"));
        let emo = e.emoticon_map.get(&cur).cloned().unwrap_or_default();
        let (ph, fx) = (mk_phon(), mk_fixed(Layout::Probhat, false));
        let (ctx, phonetic) = match name.as_str() {
            "phonetic" => (&ph.plain, true),
            "phonetic+English" => (&ph.english, true),
            "Probhat" => (&fx.plain, false),
            _ => (&fx.english, false),
        };
        return after_commit_one(ctx, &name, phonetic, &prev, &cur, &emo, Some(ac["committed_index"].as_u64().unwrap_or(0) as usize), &mut Stats::new());
    }
    let name = case["entry"].as_str().unwrap_or_default();
    let is_emoticon = case["emoticon"].as_bool().unwrap_or(false);
    let wrap = (case["wrap"][0].as_str().unwrap_or_default(), case["wrap"][1].as_str().unwrap_or_default());
    let mut st = Stats::new();
    match case["method"].as_str() {
        Some("phonetic") => {
            let emojis: Vec<String> = if is_emoticon { e.emoticon_map.get(name).cloned().into_iter().collect() } else { e.name_map.get(name).cloned().unwrap_or_default() };
            phonetic_entry(run, &mk_phon(), &mut st, name, &emojis, is_emoticon, wrap, case["warm"].as_str())
        }
        m => {
            let layout = if m == Some("Synthetic") { Layout::Synthetic } else { Layout::Probhat };
            let kar = case["opts"].as_str().map(|o| o.contains('k')).unwrap_or(false);
            let emojis: Vec<String> = if is_emoticon { e.emoticon_map.get(name).cloned().into_iter().collect() } else { e.bn_map.get(name).cloned().unwrap_or_default() };
            fixed_entry(run, &mk_fixed(layout, kar), &mut st, name, &emojis, is_emoticon, wrap)
        }
    }
}
