//! C09 — a learned candidate choice is remembered, also after a restart.

use crate::driver::{Ctx, Opts, Rendered, Sandbox};
use crate::gen::pools;
use crate::model::{avro, curl_close, curl_open, data, join};
use crate::props::c01::panic_kind;
use crate::runner::{hash_of, Failure, Run, Stats};
use proptest::prelude::*;
use serde::{Deserialize, Serialize};
use serde_json::{json, Value};
use std::collections::HashMap;

pub const LEVEL: &str = "exploration";
pub const EXHAUSTIVE: bool = false;
pub const RULE: &str = "generated histories of 2..9 steps over {type a text lead.letters.trail with front-end selection bytes and commit an index (70% any index, 30% the preselected one), re-type the identical text of an earlier step, restart = new context over the same user directory}, smart quotes and English free; then 3 suffix probes (a learned word + one of the 737 suffix keys) in a freshly restarted context. Oracle (model of the store): after a commit of i != preselected with candidate c for text X, the next typing of the identical X - same context or after any number of restarts and other commits - has candidates[preselected] == c (expectation dropped when a later learning commit concerns the same word under another text); commit of the preselected index leaves the parsed store unchanged; after EVERY commit the file parses as a JSON object of strings and a new context loads it; suffix clause: with ideal(K) = the file's entry for K, else the unique join(ideal(K'), suffix[s']) over all splits K = K'.s' (ambiguous ones counted and skipped), typing W = B.s with W absent from the file, ideal(W) defined and its wrapped form offered must preselect exactly that candidate. Commits of the raw English candidate under a wrapper that transliterates are excluded by construction (known finding) and counted. Non-trivial: a non-preselected commit followed by a re-typing after a restart; distinct by history.";
pub const ASSUMPTIONS: &[&str] = &[
    "selection bytes follow the front-end protocol (the previous list's preselected index)",
    "'the same text' = identical key sequence, wrapper included",
    "joining rules as stated; ambiguous suffix decompositions are not judged",
    "entries present in the file count as 'a learned choice of its own'",
];

const WORDS: &[&str] = &[
    "onno", "a", "ami", "sesh", "kkhet", "as", "form", "atm", "ebong", "hothat", "i", "amar", "tumi", "ke", "ki", "e", "o", "ba", "na", "apni",
    "kotha", "bangla", "smile", "cool", "park", "computer", "academy", "boi", "din", "rat", "sot", "rong", "ut",
];
const WRAPS: &[(&str, &str)] = &[
    ("", ""), ("", ""), ("", ""), ("(", ")"), ("\"", "\""), ("", "."), ("'", "',"), ("[", "]!"), ("", "?"), ("\"'", "'\""), ("", ":"), ("-", ";"), ("", "`"), ("{", "}.."),
];

#[derive(Clone, Debug, Serialize, Deserialize, Hash)]
pub enum StepKind {
    Type { word: u16, wrap: u8 },
    Retype { k: u8 },
    /// the word of an earlier step followed by a suffix key (learned base + suffix as a text of its own)
    Suffixed { k: u8, suffix: u16, wrap: u8 },
}

#[derive(Clone, Debug, Serialize, Deserialize, Hash)]
pub struct Step {
    pub kind: StepKind,
    /// None = commit the preselected index, Some(f) = index by fraction
    pub commit: Option<u16>,
    pub restart: bool,
    /// type this extra letter and erase it again before the commit (the list that is committed from was
    /// then returned by a backspace, not by a key)
    #[serde(default)]
    pub detour: Option<char>,
}

#[derive(Clone, Debug, Serialize, Deserialize, Hash)]
pub struct Case {
    pub english: bool,
    pub smart: bool,
    pub steps: Vec<Step>,
    pub probes: Vec<(u8, u16)>,
}

fn words() -> Vec<String> {
    let mut w: Vec<String> = WORDS.iter().map(|s| s.to_string()).collect();
    w.extend(pools().ac_keys.iter().filter(|k| k.chars().all(|c| c.is_ascii_lowercase())).step_by(9).cloned());
    w
}

/// None = undefined, Some(None) = ambiguous, Some(Some(v)) = defined
fn ideal(k: &str, store: &HashMap<String, String>, memo: &mut HashMap<String, Option<Option<String>>>) -> Option<Option<String>> {
    if let Some(m) = memo.get(k) {
        return m.clone();
    }
    let r = if let Some(v) = store.get(k) {
        Some(Some(v.clone()))
    } else if k.len() < 2 {
        None
    } else {
        let mut vals: Vec<Option<String>> = vec![];
        for i in 1..k.len() {
            let (p, s) = k.split_at(i);
            if let Some(sbn) = data().suffix.get(s) {
                match ideal(p, store, memo) {
                    Some(Some(b)) => vals.push(Some(join(&b, sbn))),
                    Some(None) => vals.push(None),
                    None => {}
                }
            }
        }
        if vals.is_empty() {
            None
        } else if vals.iter().any(|v| v.is_none()) || !vals.iter().all(|v| *v == vals[0]) {
            Some(None)
        } else {
            Some(vals[0].clone())
        }
    };
    memo.insert(k.to_string(), r.clone());
    r
}

fn fail(kind: &str, msg: String, c: &Case, log: &[String]) -> Failure {
    let mut v = serde_json::to_value(c).unwrap();
    v["log"] = json!(log);
    Failure::new(kind, msg, v)
}

pub fn run_case(run: &Run, c: &Case, st: &mut Stats) -> Result<(), Failure> {
    let sb = Sandbox::new();
    let mut opts = Opts::parse("s");
    opts.english = c.english;
    opts.smart = c.smart;
    let ws = words();
    let mut log: Vec<String> = vec![];
    let pf = |p: crate::driver::PanicInfo, log: &[String]| fail(&panic_kind(&p), p.to_string(), c, log);
    let mut ctx = Ctx::new(opts, &sb).map_err(|p| pf(p, &log))?;
    // text -> (word, committed candidate)
    let mut learned_text: HashMap<String, (String, String)> = HashMap::new();
    let mut learned_words: Vec<String> = vec![];
    let mut typed: Vec<(String, String, String)> = vec![]; // (lead, word, trail)
    let mut restarted_since: HashMap<String, bool> = HashMap::new();
    let mut nontrivial = false;
    for step in &c.steps {
        let (l, w, t) = match &step.kind {
            StepKind::Type { word, wrap } => {
                let (l, t) = WRAPS[*wrap as usize % WRAPS.len()];
                (l.to_string(), ws[*word as usize % ws.len()].clone(), t.to_string())
            }
            StepKind::Retype { k } => {
                if typed.is_empty() {
                    continue;
                }
                typed[*k as usize % typed.len()].clone()
            }
            StepKind::Suffixed { k, suffix, wrap } => {
                let base = if typed.is_empty() { ws[*k as usize % ws.len()].clone() } else { typed[*k as usize % typed.len()].1.clone() };
                let sk = &pools().suffix_keys;
                let (l, t) = WRAPS[*wrap as usize % WRAPS.len()];
                if base.ends_with(':') || base.ends_with('`') {
                    continue;
                }
                st.label("suffixed-text-step");
                (l.to_string(), format!("{base}{}", sk[*suffix as usize % sk.len()]), t.to_string())
            }
        };
        let x = format!("{l}{w}{t}");
        typed.push((l.clone(), w.clone(), t.clone()));
        let mut r: Rendered = ctx.type_frontend(&x).map_err(|p| pf(p, &log))?.unwrap();
        if let (Some(d), true) = (step.detour, x.chars().last().map(|c| c.is_ascii_alphanumeric()).unwrap_or(false)) {
            ctx.ch(d, r.sel.min(255) as u8).map_err(|p| pf(p, &log))?;
            r = ctx.backspace(false).map_err(|p| pf(p, &log))?;
            st.label("commit-after-backspace");
        }
        if r.lonely || r.cands.is_empty() {
            return Err(fail("not-list", format!("typed {x:?}: {}", r.short()), c, &log));
        }
        let psi = r.sel;
        // known finding: the raw English text was learned for this word and the wrapper typed now
        // transliterates ('.' -> danda): the rebuilt look-up text can never match, and because the
        // returned index after the punctuation key is the caller's byte, what happens next is not
        // what the statement describes.  Such steps are not judged (counted), expectations dropped.
        let tainted = sb.parsed_selections().map(|m| m.get(&w) == Some(&w)).unwrap_or(false) && (avro(&l) != l || avro(&t) != t);
        if tainted {
            if !run.absorb(st, "raw-english-choice-under-transliterating-wrapper") {
                return Err(fail("raw-english-choice-under-transliterating-wrapper", format!("store maps {w:?} to itself and {x:?} has a wrapper that transliterates: {}", r.short()), c, &log));
            }
            ctx.commit(psi.min(r.cands.len() - 1)).map_err(|p| pf(p, &log))?;
            log.push(format!("{x}#tainted"));
            learned_text.retain(|_, (ww, _)| *ww != w);
            learned_words.retain(|x| *x != w);
            continue;
        }
        if let Some((_, want)) = learned_text.get(&x) {
            st.count("retype-checks", 1);
            if restarted_since.get(&x).copied().unwrap_or(false) {
                nontrivial = true;
                st.label("retyped-after-restart");
            }
            if r.cands.get(psi) != Some(want) {
                // known: a trailing ':' stays inside the word part, so the key that completes the learned
                // text is a selection-preserving punctuation key and the caller's byte (the preselection of
                // the list shown for the text without the colon) overrides the learned index
                // the known finding is only the override: after one more key and a backspace the list for
                // the same text is rebuilt WITHOUT a punctuation key, and must then preselect the learned choice
                let mut colon_in_word = crate::model::ref_split(&x, false).1.ends_with(':');
                if colon_in_word {
                    ctx.ch('k', psi.min(255) as u8).map_err(|p| pf(p, &log))?;
                    let again = ctx.backspace(false).map_err(|p| pf(p, &log))?;
                    if again.cands.get(again.sel) != Some(want) {
                        colon_in_word = false; // the learned entry itself is not found: not the known finding
                    }
                }
                let kind = if colon_in_word && r.cands.contains(want) { "learned-choice-overridden-colon-in-word" } else if r.cands.contains(want) { "learned-choice-not-preselected" } else { "learned-choice-not-offered" };
                if !run.absorb(st, kind) {
                return Err(fail(kind, format!("re-typed {x:?}: learned choice {want:?} but preselected index {psi} of {:?}", r.cands), c, &log));
                }
            }
        }
        // choose the index to commit
        let (lp, tp) = {
            let (a, b) = (avro(&l), avro(&t));
            if c.smart { (curl_open(&a), curl_close(&b)) } else { (a, b) }
        };
        let mut idx = match step.commit {
            None => psi.min(r.cands.len() - 1),
            Some(f) => ((f as usize) * r.cands.len()) >> 16,
        };
        // known finding excluded by construction: the raw English candidate under a transliterating wrapper
        if idx != psi && c.english && r.cands[idx] == x && (avro(&l) != l || avro(&t) != t) {
            st.skip("raw-english-commit-under-transliterating-wrapper");
            idx = psi.min(r.cands.len() - 1);
        }
        let before = sb.parsed_selections();
        ctx.commit(idx).map_err(|p| pf(p, &log))?;
        log.push(format!("{x}#{idx}(psi {psi})"));
        let after_raw = sb.read_selections();
        let after = sb.parsed_selections();
        if idx == psi {
            let colon_in_word = crate::model::ref_split(&x, false).1.ends_with(':');
            if before != after && colon_in_word && run.absorb(st, "learned-choice-overridden-colon-in-word") {
                // same root cause: the engine's own preselection differs from the index it reported
                learned_text.retain(|_, (ww, _)| *ww != w);
            } else if before != after {
                return Err(fail("preselected-commit-changed-store", format!("typed {x:?}, committed the preselected index {idx}: store was {before:?}, now {after:?}"), c, &log));
            }
        } else {
            if after_raw.is_some() && after.is_none() {
                return Err(fail("store-not-an-object-of-strings", format!("after committing {x:?}#{idx} the file is {:?}", after_raw.map(|b| String::from_utf8_lossy(&b).to_string())), c, &log));
            }
            let cand = r.cands[idx].clone();
            learned_text.retain(|_, (ww, _)| *ww != w);
            restarted_since.retain(|k, _| learned_text.contains_key(k));
            if cand.len() >= lp.len() + tp.len() && cand.starts_with(&lp) && cand.ends_with(&tp) {
                learned_text.insert(x.clone(), (w.clone(), cand));
                restarted_since.insert(x.clone(), false);
                if !learned_words.contains(&w) {
                    learned_words.push(w.clone());
                }
                st.label("learning-commit");
            } else {
                // an un-wrapped candidate (bare emoji, raw text): the statement is about wrapped words
                st.skip("committed-candidate-without-the-wrapper");
                learned_words.retain(|x| *x != w);
            }
        }
        if step.restart {
            ctx = Ctx::new(opts, &sb).map_err(|p| fail(&panic_kind(&p), format!("a new context cannot be created over the store {:?}: {p}", sb.read_selections().map(|b| String::from_utf8_lossy(&b).to_string())), c, &log))?;
            log.push("RESTART".into());
            for v in restarted_since.values_mut() {
                *v = true;
            }
        }
    }
    // suffix clause in a freshly restarted context
    let store = sb.parsed_selections().unwrap_or_default();
    let ctx2 = Ctx::new(opts, &sb).map_err(|p| fail(&panic_kind(&p), format!("a new context cannot be created over the final store: {p}"), c, &log))?;
    let sk = &pools().suffix_keys;
    for (wi, si) in &c.probes {
        if learned_words.is_empty() {
            break;
        }
        let w = &learned_words[*wi as usize % learned_words.len()];
        let s = &sk[*si as usize % sk.len()];
        let big = format!("{w}{s}");
        let mut memo = HashMap::new();
        match ideal(&big, &store, &mut memo) {
            Some(Some(v)) if !store.contains_key(&big) => {
                let r = ctx2.type_frontend(&big).map_err(|p| pf(p, &log))?.unwrap();
                ctx2.finish().map_err(|p| pf(p, &log))?;
                if r.cands.contains(&v) {
                    st.count("suffix-checks", 1);
                    let splits = (1..big.len()).filter(|i| data().suffix.contains_key(&big[*i..]) && ideal(&big[..*i], &store, &mut memo).is_some()).count();
                    if splits >= 2 {
                        st.label("suffix-check-with-two-agreeing-decompositions");
                    }
                    if r.cands[r.sel.min(r.cands.len() - 1)] != v {
                        return Err(fail(
                            "suffixed-form-not-preselected",
                            format!("store {store:?}: typed {big:?}, joined form {v:?} is offered but index {} is preselected in {:?}", r.sel, r.cands),
                            c,
                            &log,
                        ));
                    }
                } else {
                    st.count("suffix-form-not-offered", 1);
                }
            }
            Some(None) => st.count("suffix-ambiguous-skipped", 1),
            _ => {}
        }
    }
    if nontrivial {
        st.nontrivial(hash_of(c), || json!({"english": c.english, "smart": c.smart, "log": log, "final_store": store}));
    }
    Ok(())
}

pub fn strategy() -> impl Strategy<Value = Case> {
    let kind = prop_oneof![
        3 => (any::<u16>(), any::<u8>()).prop_map(|(word, wrap)| StepKind::Type { word, wrap }),
        3 => any::<u8>().prop_map(|k| StepKind::Retype { k }),
        2 => (any::<u8>(), any::<u16>(), any::<u8>()).prop_map(|(k, suffix, wrap)| StepKind::Suffixed { k, suffix, wrap }),
    ];
    let detour = prop_oneof![4 => Just(None), 1 => proptest::sample::select(vec!['k', 'e', 'r', 'a']).prop_map(Some)];
    let step = (kind, prop_oneof![3 => Just(None), 7 => any::<u16>().prop_map(Some)], proptest::bool::weighted(0.3), detour).prop_map(|(kind, commit, restart, detour)| Step { kind, commit, restart, detour });
    (any::<bool>(), any::<bool>(), proptest::collection::vec(step, 2..9), proptest::collection::vec((any::<u8>(), any::<u16>()), 3..4))
        .prop_map(|(english, smart, steps, probes)| Case { english, smart, steps, probes })
}

pub fn run(run: &Run) {
    run.sharded("learn-retype-restart", 16, run.tier.pick(250, 6000), 400, strategy, |_| (), |c: &Case, st, _| run_case(run, c, st));
    run.require_label("retyped-after-restart", 30);
    run.require_label("suffixed-text-step", 100);
    run.require_label("commit-after-backspace", 100);
    run.require_label("learning-commit", 100);
    run.require_label("suffix-check-with-two-agreeing-decompositions", 3);
}

pub fn replay(run: &Run, case: &Value) -> Result<(), Failure> {
    let c: Case = serde_json::from_value(case.clone()).map_err(|e| Failure::new("replay", format!("bad case: {e}"), case.clone()))?;
    run_case(run, &c, &mut Stats::new())
}
