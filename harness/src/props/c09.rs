//! C09 — a learned candidate choice is remembered, also after a restart.

use crate::driver::{Ctx, Opts, Rendered, Sandbox};
use crate::gen::pools;
use crate::model::{avro, curl_close, curl_open, data, join};
use crate::props::c01::panic_kind;
use crate::runner::{hash_of, Failure, Run, Stats};
use proptest::prelude::*;
use serde::{Deserialize, Serialize};
use serde_json::{json, Value};
use std::collections::{HashMap, HashSet};

pub const LEVEL: &str = "exploration";
pub const EXHAUSTIVE: bool = false;
pub const RULE: &str = "generated histories of 2..9 steps over {type a text lead.letters.trail with front-end selection bytes and commit an index (70% any index, 30% the preselected one), re-type the identical text of an earlier step, compose a learned word followed by a suffix key, restart = new context over the same user directory}, smart quotes and English free; then suffix probes (3 learned words + generated suffix keys, plus EVERY base+suffix text composed on the way) typed both in the context that lived through the history and in a freshly restarted one; plus a directed part where both decompositions of W = B.s1.s2 rest on choices of the user (B.s1 learned first, then B). Oracle (model of the store): after a commit of i != preselected with candidate c for text X, the next typing of the identical X - same context or after any number of restarts and other commits - has candidates[preselected] == c (expectation dropped when a later learning commit concerns the same word under another text); commit of the preselected index leaves the parsed store unchanged; after EVERY commit the file parses as a JSON object of strings and a new context loads it; suffix clause: own = the store entries whose key the user committed a non-preselected candidate for; ideal(W) = own[W], else the unique join(own[B], suffix[s]) over all splits W = B.s into an own-learned word and ONE known suffix (several different values: ambiguous, counted and skipped); typing W that is not an own choice, with ideal(W) defined and offered, must preselect exactly that candidate. Commits of the raw English candidate under a wrapper that transliterates are excluded by construction (known finding) and counted. Non-trivial: a non-preselected commit followed by a re-typing after a restart, or a two-decomposition check whose expected candidate is not at index 0; distinct by history. The every-suffix-key part also learns five one-letter words (the suffixed text then has two letters).";
pub const ASSUMPTIONS: &[&str] = &[
    "selection bytes follow the front-end protocol (the previous list's preselected index)",
    "'the same text' = identical key sequence, wrapper included",
    "joining rules as stated; ambiguous suffix decompositions are not judged",
    "'a learned choice of its own' = the user committed a non-preselected candidate for a text with that word part",
];

const WORDS: &[&str] = &[
    "onno", "a", "ami", "sesh", "kkhet", "as", "form", "atm", "ebong", "hothat", "i", "amar", "tumi", "ke", "ki", "e", "o", "ba", "na", "apni",
    "kotha", "bangla", "smile", "cool", "park", "computer", "academy", "boi", "din", "rat", "sot", "rong", "ut",
];
const WRAPS: &[(&str, &str)] = &[
    ("", ""), ("", ""), ("", ""), ("(", ")"), ("\"", "\""), ("", "."), ("'", "',"), ("[", "]!"), ("", "?"), ("\"'", "'\""), ("", ":"), ("-", ";"), ("", "`"), ("{", "}.."),
];
/// the escape character: a colon followed by a back-tick is punctuation, not part of the word (selected by wrap
/// bytes >= 224, so that the meaning of every earlier replay file is unchanged)
const WRAPS_ESCAPED: &[(&str, &str)] = &[("", ":`"), ("(", ":`)"), ("", ":`."), ("\"", ":`\""), ("", "`:"), ("", ".`")];

const ESCAPED_WORDS: &[&str] = &["ok\\", "a\\b", "k\"t", "sesh\\", "am\"i", "\\a"];

fn wrap_of(w: u8) -> (&'static str, &'static str) {
    if w >= 224 {
        WRAPS_ESCAPED[(w - 224) as usize % WRAPS_ESCAPED.len()]
    } else {
        WRAPS[w as usize % WRAPS.len()]
    }
}

#[derive(Clone, Debug, Serialize, Deserialize, Hash)]
pub enum StepKind {
    Type { word: u16, wrap: u8 },
    Retype { k: u8 },
    /// the word of an earlier step followed by a suffix key (learned base + suffix as a text of its own)
    Suffixed { k: u8, suffix: u16, wrap: u8 },
}

#[derive(Clone, Debug, Serialize, Deserialize, Hash)]
pub struct Step {
    pub kind: StepKind,
    /// None = commit the preselected index, Some(f) = index by fraction
    pub commit: Option<u16>,
    pub restart: bool,
    /// type this extra letter and erase it again before the commit (the list that is committed from was
    /// then returned by a backspace, not by a key)
    #[serde(default)]
    pub detour: Option<char>,
}

#[derive(Clone, Debug, Serialize, Deserialize, Hash)]
pub struct Case {
    pub english: bool,
    pub smart: bool,
    pub steps: Vec<Step>,
    pub probes: Vec<(u8, u16)>,
    /// restarts create the new context with the candidate list switched OFF and switch it on by update-engine
    /// (a front-end may well start that way); the learned choices must be there all the same
    #[serde(default)]
    pub restart_via_update: bool,
}

fn words() -> Vec<String> {
    let mut w: Vec<String> = WORDS.iter().map(|s| s.to_string()).collect();
    w.extend(pools().ac_keys.iter().filter(|k| k.chars().all(|c| c.is_ascii_lowercase())).step_by(9).cloned());
    w
}

/// The candidate the statement expects for the text `k`, from the user's OWN choices only (`own` = the entries of
/// the store whose key the user committed a non-preselected candidate for): the own entry for `k`, else the
/// *unique* value of join(own[K'], suffix[s']) over all splits k = K'.s' into an own-learned word and ONE known
/// suffix (the statement says "that word followed by a known suffix").
/// None = undefined, Some(None) = ambiguous, Some(Some(v)) = defined
fn ideal(k: &str, own: &HashMap<String, String>) -> Option<Option<String>> {
    if let Some(v) = own.get(k) {
        return Some(Some(v.clone()));
    }
    let mut vals: Vec<String> = vec![];
    for i in 1..k.len() {
        if !k.is_char_boundary(i) {
            continue;
        }
        let (p, s) = k.split_at(i);
        if let (Some(b), Some(sbn)) = (own.get(p), data().suffix.get(s)) {
            vals.push(join(b, sbn));
        }
    }
    if vals.is_empty() {
        None
    } else if !vals.iter().all(|v| *v == vals[0]) {
        Some(None)
    } else {
        Some(Some(vals[0].clone()))
    }
}

fn fail(kind: &str, msg: String, c: &Case, log: &[String]) -> Failure {
    let mut v = serde_json::to_value(c).unwrap();
    v["log"] = json!(log);
    Failure::new(kind, msg, v)
}

pub fn run_case(run: &Run, c: &Case, st: &mut Stats) -> Result<(), Failure> {
    let sb = Sandbox::new();
    let mut opts = Opts::parse("s");
    opts.english = c.english;
    opts.smart = c.smart;
    let ws = words();
    let mut log: Vec<String> = vec![];
    let pf = |p: crate::driver::PanicInfo, log: &[String]| fail(&panic_kind(&p), p.to_string(), c, log);
    let mut ctx = Ctx::new(opts, &sb).map_err(|p| pf(p, &log))?;
    // text -> (word, committed candidate)
    let mut learned_text: HashMap<String, (String, String)> = HashMap::new();
    let mut learned_words: Vec<String> = vec![];
    let mut typed: Vec<(String, String, String)> = vec![]; // (lead, word, trail)
    let mut restarted_since: HashMap<String, bool> = HashMap::new();
    let mut nontrivial = false;
    // store keys for which the user made a choice of their own (a commit that was, or was taken as, a new choice)
    let mut own: HashSet<String> = HashSet::new();
    // base+suffix texts composed on the way (each time the engine derived a choice for them from the base)
    let mut suffixed_seen: Vec<String> = vec![];
    for step in &c.steps {
        let (l, w, t) = match &step.kind {
            StepKind::Type { word, wrap } => {
                let (l, t) = wrap_of(*wrap);
                // some word numbers (>= 30000 and 7 modulo 8 - none of the committed replay files uses one) select words
                // whose stored form needs a JSON escape (back-slash, inner quote): the store must come back from the
                // file exactly as it went in
                let w = if *word >= 30000 && *word % 8 == 7 { ESCAPED_WORDS[(*word / 8) as usize % ESCAPED_WORDS.len()].to_string() } else { ws[*word as usize % ws.len()].clone() };
                (l.to_string(), w, t.to_string())
            }
            StepKind::Retype { k } => {
                if typed.is_empty() {
                    continue;
                }
                typed[*k as usize % typed.len()].clone()
            }
            StepKind::Suffixed { k, suffix, wrap } => {
                let base = if typed.is_empty() { ws[*k as usize % ws.len()].clone() } else { typed[*k as usize % typed.len()].1.clone() };
                let sk = &pools().suffix_keys;
                let (l, t) = wrap_of(*wrap);
                if base.ends_with(':') || base.ends_with('`') {
                    continue;
                }
                st.label("suffixed-text-step");
                let big = format!("{base}{}", sk[*suffix as usize % sk.len()]);
                if !suffixed_seen.contains(&big) {
                    suffixed_seen.push(big.clone());
                }
                (l.to_string(), big, t.to_string())
            }
        };
        let x = format!("{l}{w}{t}");
        typed.push((l.clone(), w.clone(), t.clone()));
        let mut r: Rendered = ctx.type_frontend(&x).map_err(|p| pf(p, &log))?.unwrap();
        if let (Some(d), true) = (step.detour, x.chars().last().map(|c| c.is_ascii_alphanumeric()).unwrap_or(false)) {
            ctx.ch(d, r.sel.min(255) as u8).map_err(|p| pf(p, &log))?;
            r = ctx.backspace(false).map_err(|p| pf(p, &log))?;
            st.label("commit-after-backspace");
        }
        if r.lonely || r.cands.is_empty() {
            return Err(fail("not-list", format!("typed {x:?}: {}", r.short()), c, &log));
        }
        let psi = r.sel;
        // known finding: the raw English text was learned for this word and the wrapper typed now
        // transliterates ('.' -> danda): the rebuilt look-up text can never match, and because the
        // returned index after the punctuation key is the caller's byte, what happens next is not
        // what the statement describes.  Such steps are not judged (counted), expectations dropped.
        let tainted = sb.parsed_selections().map(|m| m.get(&w) == Some(&w)).unwrap_or(false) && (avro(&l) != l || avro(&t) != t);
        if tainted {
            if !run.absorb(st, "raw-english-choice-under-transliterating-wrapper") {
                return Err(fail("raw-english-choice-under-transliterating-wrapper", format!("store maps {w:?} to itself and {x:?} has a wrapper that transliterates: {}", r.short()), c, &log));
            }
            let before = sb.parsed_selections().unwrap_or_default();
            ctx.commit(psi.min(r.cands.len() - 1)).map_err(|p| pf(p, &log))?;
            let k = crate::model::ref_split(&x, false).1;
            if before.get(&k) != sb.parsed_selections().unwrap_or_default().get(&k) {
                own.insert(k);
            }
            log.push(format!("{x}#tainted"));
            learned_text.retain(|_, (ww, _)| *ww != w);
            learned_words.retain(|x| *x != w);
            continue;
        }
        if let Some((_, want)) = learned_text.get(&x) {
            st.count("retype-checks", 1);
            if restarted_since.get(&x).copied().unwrap_or(false) {
                nontrivial = true;
                st.label("retyped-after-restart");
            }
            if r.cands.get(psi) != Some(want) {
                // known: a trailing ':' stays inside the word part, so the key that completes the learned
                // text is a selection-preserving punctuation key and the caller's byte (the preselection of
                // the list shown for the text without the colon) overrides the learned index
                // the known finding is only the override: after one more key and a backspace the list for
                // the same text is rebuilt WITHOUT a punctuation key, and must then preselect the learned choice
                let mut colon_in_word = crate::model::ref_split(&x, false).1.ends_with(':');
                if colon_in_word {
                    ctx.ch('k', psi.min(255) as u8).map_err(|p| pf(p, &log))?;
                    let again = ctx.backspace(false).map_err(|p| pf(p, &log))?;
                    if again.cands.get(again.sel) != Some(want) {
                        colon_in_word = false; // the learned entry itself is not found: not the known finding
                    }
                }
                let kind = if colon_in_word && r.cands.contains(want) { "learned-choice-overridden-colon-in-word" } else if r.cands.contains(want) { "learned-choice-not-preselected" } else { "learned-choice-not-offered" };
                if !run.absorb(st, kind) {
                return Err(fail(kind, format!("re-typed {x:?}: learned choice {want:?} but preselected index {psi} of {:?}", r.cands), c, &log));
                }
            }
        }
        // choose the index to commit
        let (lp, tp) = {
            let (a, b) = (avro(&l), avro(&t));
            if c.smart { (curl_open(&a), curl_close(&b)) } else { (a, b) }
        };
        let mut idx = match step.commit {
            None => psi.min(r.cands.len() - 1),
            Some(f) => ((f as usize) * r.cands.len()) >> 16,
        };
        // known finding excluded by construction: the raw English candidate under a transliterating wrapper
        if idx != psi && c.english && r.cands[idx] == x && (avro(&l) != l || avro(&t) != t) {
            st.skip("raw-english-commit-under-transliterating-wrapper");
            idx = psi.min(r.cands.len() - 1);
        }
        let before = sb.parsed_selections();
        ctx.commit(idx).map_err(|p| pf(p, &log))?;
        log.push(format!("{x}#{idx}(psi {psi})"));
        let after_raw = sb.read_selections();
        let after = sb.parsed_selections();
        {
            let k = crate::model::ref_split(&x, false).1;
            let get = |m: &Option<HashMap<String, String>>| m.as_ref().and_then(|m| m.get(&k).cloned());
            if idx != psi || get(&before) != get(&after) {
                own.insert(k);
            }
        }
        if idx == psi {
            let colon_in_word = crate::model::ref_split(&x, false).1.ends_with(':');
            if before != after && colon_in_word && run.absorb(st, "learned-choice-overridden-colon-in-word") {
                // same root cause: the engine's own preselection differs from the index it reported
                learned_text.retain(|_, (ww, _)| *ww != w);
            } else if before != after {
                return Err(fail("preselected-commit-changed-store", format!("typed {x:?}, committed the preselected index {idx}: store was {before:?}, now {after:?}"), c, &log));
            }
        } else {
            if after_raw.is_some() && after.is_none() {
                return Err(fail("store-not-an-object-of-strings", format!("after committing {x:?}#{idx} the file is {:?}", after_raw.map(|b| String::from_utf8_lossy(&b).to_string())), c, &log));
            }
            let cand = r.cands[idx].clone();
            learned_text.retain(|_, (ww, _)| *ww != w);
            restarted_since.retain(|k, _| learned_text.contains_key(k));
            if cand.len() >= lp.len() + tp.len() && cand.starts_with(&lp) && cand.ends_with(&tp) {
                learned_text.insert(x.clone(), (w.clone(), cand));
                restarted_since.insert(x.clone(), false);
                if !learned_words.contains(&w) {
                    learned_words.push(w.clone());
                }
                st.label("learning-commit");
            } else {
                // an un-wrapped candidate (bare emoji, raw text): the statement is about wrapped words
                st.skip("committed-candidate-without-the-wrapper");
                learned_words.retain(|x| *x != w);
            }
        }
        if step.restart {
            let mut o0 = opts;
            if c.restart_via_update {
                o0.psug = false;
                st.label("restart-with-the-list-off-then-update-engine");
            }
            ctx = Ctx::new(o0, &sb).map_err(|p| fail(&panic_kind(&p), format!("a new context cannot be created over the store {:?}: {p}", sb.read_selections().map(|b| String::from_utf8_lossy(&b).to_string())), c, &log))?;
            if c.restart_via_update {
                ctx.update(opts, &sb).map_err(|p| pf(p, &log))?;
            }
            log.push(if c.restart_via_update { "RESTART(list off, then update-engine)".into() } else { "RESTART".into() });
            for v in restarted_since.values_mut() {
                *v = true;
            }
        }
    }
    // suffix clause: in the context that lived through the history AND in a freshly restarted one.  The probes are
    // learned words followed by generated suffix keys, plus every base+suffix text that was composed on the way
    // (those are the ones the engine has derived a choice for before the base was possibly re-learned).
    let store = sb.parsed_selections().unwrap_or_default();
    let own_store: HashMap<String, String> = store.iter().filter(|(k, _)| own.contains(*k)).map(|(k, v)| (k.clone(), v.clone())).collect();
    let ctx2 = {
        let mut o0 = opts;
        if c.restart_via_update {
            o0.psug = false;
        }
        let mut x = Ctx::new(o0, &sb).map_err(|p| fail(&panic_kind(&p), format!("a new context cannot be created over the final store: {p}"), c, &log))?;
        if c.restart_via_update {
            x.update(opts, &sb).map_err(|p| pf(p, &log))?;
        }
        x
    };
    let sk = &pools().suffix_keys;
    let mut bigs: Vec<(String, bool)> = vec![];
    for (wi, si) in &c.probes {
        if learned_words.is_empty() {
            break;
        }
        let w = &learned_words[*wi as usize % learned_words.len()];
        let s = &sk[*si as usize % sk.len()];
        bigs.push((format!("{w}{s}"), false));
    }
    bigs.extend(suffixed_seen.iter().map(|b| (b.clone(), true)));
    for (big, seen_before) in &bigs {
        if own.contains(big) || big.ends_with(':') || big.ends_with('`') {
            continue;
        }
        match ideal(big, &own_store) {
            Some(Some(v)) => {
                for (which, cx) in [("the context that lived through the history", &ctx), ("a freshly restarted context", &ctx2)] {
                    let r = cx.type_frontend(big).map_err(|p| pf(p, &log))?.unwrap();
                    cx.finish().map_err(|p| pf(p, &log))?;
                    if r.cands.contains(&v) {
                        st.count("suffix-checks", 1);
                        if *seen_before {
                            st.label("suffix-check-on-a-text-composed-earlier");
                        }
                        let splits = (1..big.len()).filter(|i| big.is_char_boundary(*i) && data().suffix.contains_key(&big[*i..]) && own_store.contains_key(&big[..*i])).count();
                        if splits >= 2 {
                            st.label("suffix-check-with-two-agreeing-decompositions");
                        }
                        if r.cands[r.sel.min(r.cands.len() - 1)] != v {
                            let kind = if store.get(big).map(|e| *e != v).unwrap_or(false) { "stale-derived-choice-for-suffixed-form" } else { "suffixed-form-not-preselected" };
                            return Err(fail(
                                kind,
                                format!("the user's own choices are {own_store:?} (file: {store:?}); {big:?} typed in {which}: the joined form {v:?} is offered but index {} is preselected in {:?}", r.sel, r.cands),
                                c,
                                &log,
                            ));
                        }
                    } else {
                        st.count("suffix-form-not-offered", 1);
                    }
                }
            }
            Some(None) => st.count("suffix-ambiguous-skipped", 1),
            None => {}
        }
    }
    if nontrivial {
        st.nontrivial(hash_of(c), || json!({"english": c.english, "smart": c.smart, "log": log, "final_store": store}));
    }
    Ok(())
}

/// Both decompositions of W = B.s1.s2 rest on choices of the user's own: B.s1 -> Y learned first, then B -> c with
/// Y = join(c, suffix[s1]); (B.s1, s2) and (B, s1s2) then give the same joined form, and that form must be
/// preselected for W - in the same context and after a restart.  (After the derived entries stopped being stored
/// this is the only way two decompositions meet, i.e. the only place the 'two decompositions concatenated' defect
/// could come back.)
fn two_own_decompositions(run: &Run) {
    let mut triples: Vec<(String, String, String)> = vec![];
    let suf = &data().suffix;
    let mut keys: Vec<&String> = suf.keys().collect();
    keys.sort();
    for k in keys {
        for i in 1..k.len() {
            let (a, b) = k.split_at(i);
            if suf.contains_key(a) && suf.contains_key(b) {
                triples.push((k.clone(), a.to_string(), b.to_string()));
            }
        }
    }
    let bases = ["kolkol", "park", "tank", "amar", "sesh", "onno", "kotha", "din", "rat", "boi", "rong", "sot", "hothat", "ebong", "bangla", "tumi"];
    let step = run.tier.pick(29, 3);
    let items: Vec<(String, (String, String, String))> = bases.iter().flat_map(|b| triples.iter().step_by(step).map(move |t| (b.to_string(), t.clone()))).collect();
    run.exhaustive(
        "two-own-decompositions",
        &items,
        |_| (),
        |(b, (s12, s1, s2)), st, _| {
            let case = json!({"two_own": {"base": b, "s1": s1, "s2": s2}});
            two_own_case(b, s12, s1, s2, st).map_err(|(k, m)| Failure::new(&k, m, case.clone()))
        },
    );
}

fn two_own_case(b: &str, s12: &str, s1: &str, s2: &str, st: &mut Stats) -> Result<(), (String, String)> {
    let pf = |p: crate::driver::PanicInfo| (panic_kind(&p), p.to_string());
    let suf = &data().suffix;
    let sb = Sandbox::new();
    let opts = Opts::parse("s");
    let ctx = Ctx::new(opts, &sb).map_err(pf)?;
    let lb = ctx.type_frontend(b).map_err(pf)?.unwrap();
    ctx.finish().map_err(pf)?;
    let bs1 = format!("{b}{s1}");
    let w = format!("{b}{s12}");
    // a candidate c of B (not the preselected one) whose joined form is offered for B.s1 at a non-preselected index
    for (ic, c) in lb.cands.iter().enumerate() {
        if ic == lb.sel || !c.chars().all(crate::model::is_bengali_block) {
            continue;
        }
        let y = join(c, &suf[s1]);
        let v = join(&y, &suf[s2]);
        if v != join(c, &suf[s12]) {
            st.skip("two-own-decompositions-disagree");
            continue;
        }
        let l1 = ctx.type_frontend(&bs1).map_err(pf)?.unwrap();
        let Some(iy) = l1.cands.iter().position(|x| *x == y) else {
            ctx.finish().map_err(pf)?;
            continue;
        };
        if iy == l1.sel {
            ctx.finish().map_err(pf)?;
            continue;
        }
        ctx.commit(iy).map_err(pf)?;
        let l2 = ctx.type_frontend(b).map_err(pf)?.unwrap();
        let Some(ic2) = l2.cands.iter().position(|x| x == c) else {
            ctx.finish().map_err(pf)?;
            return Ok(());
        };
        if ic2 == l2.sel {
            ctx.finish().map_err(pf)?;
            return Ok(());
        }
        ctx.commit(ic2).map_err(pf)?;
        let store = sb.parsed_selections().unwrap_or_default();
        if store.get(&bs1) != Some(&y) || store.get(b) != Some(c) {
            return Err(("own-choice-not-stored".into(), format!("committed {y:?} for {bs1:?} and {c:?} for {b:?}; the store is {store:?}")));
        }
        let ctx2 = Ctx::new(opts, &sb).map_err(pf)?;
        for (which, cx) in [("the same context", &ctx), ("a restarted context", &ctx2)] {
            let r = cx.type_frontend(&w).map_err(pf)?.unwrap();
            cx.finish().map_err(pf)?;
            let Some(iv) = r.cands.iter().position(|x| *x == v) else {
                st.count("suffix-form-not-offered", 1);
                continue;
            };
            st.count("suffix-checks", 1);
            st.label("suffix-check-with-two-agreeing-decompositions");
            if iv != 0 {
                st.nontrivial(hash_of(&(b, s1, s2, which)), || json!({"own": store, "typed": w, "expected": v, "index": iv}));
            }
            if r.sel != iv {
                return Err((
                    "suffixed-form-not-preselected".into(),
                    format!("own choices {store:?}: {w:?} = {bs1:?}+{s2:?} = {b:?}+{s12:?}, both give {v:?}, offered at index {iv}, but {which} preselects index {} of {:?}", r.sel, r.cands),
                ));
            }
        }
        return Ok(());
    }
    Ok(())
}

fn suffix_keys_of_base(base: &str, which: usize, chunk: usize, st: &mut Stats) -> Result<(), Failure> {
    let case0 = || json!({"all_suffix_keys": {"base": base}});
    let pf = |p: crate::driver::PanicInfo| Failure::new(&panic_kind(&p), p.to_string(), case0());
    let sb = Sandbox::new();
    let opts = Opts::parse("s");
    let ctx = Ctx::new(opts, &sb).map_err(pf)?;
    // before anything is learned for the base: the user takes a non-preselected candidate of two texts WITHOUT a word
    // part (an emoticon, a lone full stop's other reading).  Whatever the engine stores for them must not count for
    // real words.
    // (after the closing key the reported index is the caller's byte, so "non-preselected" cannot be told from the
    // outside: both the emoji and the literal are taken once)
    for (noise, idx) in [(";)", 0usize), (":(", 1), (";)", 1), (":(", 0)] {
        if let Some(l) = ctx.type_frontend(noise).map_err(pf)? {
            if !l.lonely && idx < l.cands.len() {
                ctx.commit(idx).map_err(pf)?;
                continue;
            }
        }
        ctx.finish().map_err(pf)?;
    }
    if sb.parsed_selections().map(|m| m.contains_key("")).unwrap_or(false) {
        st.label("store-has-an-entry-under-the-empty-word");
    }
    let l = ctx.type_frontend(base).map_err(pf)?.unwrap();
    // learn one of the dictionary-looking candidates that are not preselected: those ending in khanda-ta or anusvara
    // (the joining rules rewrite them) first, then from the end of the list
    let mut order: Vec<usize> = (0..l.cands.len()).rev().filter(|i| *i != l.sel && l.cands[*i].chars().all(crate::model::is_bengali_block)).collect();
    order.sort_by_key(|i| !matches!(l.cands[*i].chars().last(), Some('\u{09CE}') | Some('\u{0982}')));
    let Some(&idx) = order.get(which) else {
        ctx.finish().map_err(pf)?;
        return Ok(());
    };
    let c = l.cands[idx].clone();
    ctx.commit(idx).map_err(pf)?;
    let ctx2 = Ctx::new(opts, &sb).map_err(pf)?;
    let mut sk: Vec<&String> = data().suffix.keys().collect();
    sk.sort();
    for (n, s) in sk.iter().enumerate() {
        if n % 8 != chunk || !s.chars().all(|ch| crate::driver::keys().has_char(ch)) {
            continue;
        }
        let w = format!("{base}{s}");
        let mut own = HashMap::new();
        own.insert(base.to_string(), c.clone());
        let Some(Some(v)) = ideal(&w, &own) else { continue };
        for (which, cx) in [("the context that learned the base", &ctx), ("a restarted context", &ctx2)] {
            let r = cx.type_frontend(&w).map_err(pf)?.unwrap();
            cx.finish().map_err(pf)?;
            st.evals(1);
            if let Some(iv) = r.cands.iter().position(|x| *x == v) {
                st.count("suffix-checks", 1);
                st.label("suffix-key-checked-with-a-learned-base");
                if r.sel != iv {
                    return Err(Failure::new(
                        "suffixed-form-not-preselected",
                        format!("{base:?} learned as {c:?}; {w:?} (suffix key {s:?}) typed in {which}: the joined form {v:?} is offered at index {iv} but index {} is preselected in {:?}", r.sel, r.cands),
                        json!({"all_suffix_keys": {"base": base, "suffix": s}}),
                    ));
                }
                if iv != 0 {
                    st.nontrivial(hash_of(&(base, s, which)), || json!({"base": base, "learned": c, "suffix_key": s, "expected": v, "index": iv}));
                }
            } else {
                st.count("suffix-form-not-offered", 1);
            }
        }
    }
    Ok(())
}

/// One learned base x EVERY suffix key of the data (737): the joined form, when offered, must be preselected - in the
/// context that learned the base and in a restarted one.  (Generated probes meet a particular key - the longest, the
/// shortest, one that is a prefix of another - only by chance.)
fn all_suffix_keys(run: &Run) {
    // the last five are one-letter words (the suffixed text has two letters: the shortest that has a decomposition), the
    // five before them are bases whose suffixed forms are themselves suffix keys ("ta"+"r" = "tar"): the text as a whole
    // and its decomposition compete
    let bases = ["sesh", "kolkol", "onno", "amar", "hothat", "rong", "ebong", "sot", "ta", "sokol", "shob", "khana", "mala", "s", "k", "t", "n", "b"];
    let items: Vec<(usize, usize, usize)> = (0..bases.len()).flat_map(|b| (0..3usize).flat_map(move |which| (0..8usize).map(move |chunk| (b, which, chunk)))).collect();
    run.exhaustive(
        "learned-base-x-every-suffix-key",
        &items,
        |_| (),
        |&(bi, which, chunk), st, _| suffix_keys_of_base(bases[bi], which, chunk, st),
    );
    run.require_label("suffix-key-checked-with-a-learned-base", 1500);
    run.require_label("store-has-an-entry-under-the-empty-word", 8);
}

pub fn strategy() -> impl Strategy<Value = Case> {
    let kind = prop_oneof![
        3 => (any::<u16>(), any::<u8>()).prop_map(|(word, wrap)| StepKind::Type { word, wrap }),
        3 => any::<u8>().prop_map(|k| StepKind::Retype { k }),
        2 => (any::<u8>(), any::<u16>(), any::<u8>()).prop_map(|(k, suffix, wrap)| StepKind::Suffixed { k, suffix, wrap }),
    ];
    let detour = prop_oneof![4 => Just(None), 1 => proptest::sample::select(vec!['k', 'e', 'r', 'a']).prop_map(Some)];
    let step = (kind, prop_oneof![3 => Just(None), 7 => any::<u16>().prop_map(Some)], proptest::bool::weighted(0.3), detour).prop_map(|(kind, commit, restart, detour)| Step { kind, commit, restart, detour });
    (any::<bool>(), any::<bool>(), proptest::collection::vec(step, 2..9), proptest::collection::vec((any::<u8>(), any::<u16>()), 3..4), proptest::bool::weighted(0.25))
        .prop_map(|(english, smart, steps, probes, restart_via_update)| Case { english, smart, steps, probes, restart_via_update })
}

pub fn run(run: &Run) {
    two_own_decompositions(run);
    all_suffix_keys(run);
    run.sharded("learn-retype-restart", 16, run.tier.pick(250, 6000), 400, strategy, |_| (), |c: &Case, st, _| run_case(run, c, st));
    run.require_label("retyped-after-restart", 30);
    run.require_label("restart-with-the-list-off-then-update-engine", 30);
    run.require_label("suffixed-text-step", 100);
    run.require_label("commit-after-backspace", 100);
    run.require_label("learning-commit", 100);
    run.require_label("suffix-check-with-two-agreeing-decompositions", 3);
}

pub fn replay(run: &Run, case: &Value) -> Result<(), Failure> {
    if let Some(a) = case.get("all_suffix_keys") {
        // the part is cheap: the replay runs the whole base again
        let base = a["base"].as_str().unwrap_or_default().to_string();
        for which in 0..3 {
            for chunk in 0..8 {
                suffix_keys_of_base(&base, which, chunk, &mut Stats::new())?;
            }
        }
        return Ok(());
    }
    if let Some(t) = case.get("two_own") {
        let g = |k: &str| t[k].as_str().unwrap_or_default().to_string();
        let (b, s1, s2) = (g("base"), g("s1"), g("s2"));
        return two_own_case(&b, &format!("{s1}{s2}"), &s1, &s2, &mut Stats::new()).map_err(|(k, m)| Failure::new(&k, m, case.clone()));
    }
    let c: Case = serde_json::from_value(case.clone()).map_err(|e| Failure::new("replay", format!("bad case: {e}"), case.clone()))?;
    run_case(run, &c, &mut Stats::new())
}
