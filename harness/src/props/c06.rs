//! C06 — ending a word erases every trace of it; the session flag tells the truth.

use crate::driver::{keys, Ctx, Opts, Rendered, Sandbox};
use crate::gen::{self, AbsOp, Ev, Interp, OpWeights, Outcome, Step};
use crate::props::c01::panic_kind;
use crate::runner::{hash_of, Failure, Run, Stats};
use proptest::prelude::*;
use serde_json::{json, Value};

pub const LEVEL: &str = "exploration";
pub const EXHAUSTIVE: bool = false;
pub const RULE: &str = "generated case = (options x layout, history H of 1..14 abstract ops over keys / typed words / backspaces / commits / finishes, terminating event in {commit of a valid index, finish, ctrl-backspace, plain backspaces until an empty suggestion is returned}, continuation K of 1..14 ops). Oracle (i) after every event: non-empty pre-edit text => ongoing session; after commit, finish and ctrl-backspace the flag is false; backspace when idle returns an empty suggestion and starts nothing; repeated plain backspaces reach an empty suggestion within 4*keys+2 presses and leave the flag false. Oracle (ii) differential: every event of K is applied to the used context and to a context created at that moment with the same configuration over a COPY of the user directory; renderings and session flags must be identical at every step. Non-trivial: H left a composition whose raw-key count differs from its code-point count, or a pending sign, or a learned commit, and K returned a list; distinct by concrete trace. Plus a long-lived part: one context per shard (phonetic with suggestions, two fixed settings) lives through all cases of the shard (>= 400 words, learning commits included); each case types a word, ends it by one of the four terminating events, checks the flag, and types the next word both in it and in a context created at that moment over a copy of the user directory (every rendering and the flag compared). Plus an entry-removed part: a word that the user's list maps is typed and ended (three endings), that one entry is removed while the file stays, update-engine (idle), and the word, a suffixed and a wrapped form typed again are compared with a context created at that moment (108 cases).";
pub const ASSUMPTIONS: &[&str] = &[
    "a context created over a copy of the user directory is 'a newly created context with the same configuration and learned selections'",
    "selection bytes are valid for the list shown before",
];

pub fn weights_h() -> OpWeights {
    OpWeights { key: 25, text: 40, learned: 3, backspace: 15, ctrl_backspace: 2, commit: 10, finish: 3, update: 0, restart: 0 }
}

#[derive(Clone, Debug)]
pub struct Case {
    pub opts: Opts,
    pub h: Vec<AbsOp>,
    pub term: u8,
    pub term_frac: u16,
    pub k: Vec<AbsOp>,
}

pub fn strategy() -> impl Strategy<Value = Case> {
    // fixed layouts with suggestions are where three pieces of state must stay in step: bias to them
    let opts = prop_oneof![
        2 => gen::opts_strategy(),
        2 => (1usize..3, 0u16..2048).prop_map(|(l, b)| { let mut o = Opts::from_bits(l, b); o.fsug = true; o }),
        1 => (0u16..2048).prop_map(|b| { let mut o = Opts::from_bits(0, b); o.psug = true; o }),
    ];
    (
        opts,
        proptest::collection::vec(gen::op_strategy(&weights_h(), false), 1..14),
        0u8..4,
        any::<u16>(),
        proptest::collection::vec(gen::op_strategy(&weights_h(), false), 1..14),
    )
        .prop_map(|(opts, h, term, term_frac, k)| Case { opts, h, term, term_frac, k })
}

pub struct Flags {
    pub was_ongoing: bool,
    pub keys_in_word: usize,
    /// phonetic: the raw characters of the word in progress (header-derived table)
    pub raw: String,
}

fn nonempty_preedit(r: &Rendered) -> bool {
    r.pre.iter().any(|p| p.as_ref().map(|s| !s.is_empty()).unwrap_or(false)) || (r.lonely && !r.text.is_empty())
}

pub fn invariants(run: &Run, st: &mut Stats, fl: &mut Flags, s: &Step, case: &dyn Fn() -> Value) -> Result<(), Failure> {
    let ongoing = s.ctx.ongoing();
    // raw text model (phonetic only)
    match s.ev {
        Ev::Key { code, .. } => {
            if s.ctx.opts.is_phonetic() {
                if let Some(c) = keys().by_code(*code).and_then(|k| k.ascii) {
                    fl.raw.push(c);
                }
            }
        }
        Ev::Backspace => {
            fl.raw.pop();
        }
        _ => fl.raw.clear(),
    }
    let at = format!("event #{} ({})", s.index, gen::ev_to_string(s.ev));
    match (s.ev, s.outcome) {
        (Ev::Key { .. }, Outcome::Suggestion(r)) => {
            fl.keys_in_word += 1;
            if nonempty_preedit(r) && !ongoing {
                return Err(Failure::new("flag-false-with-preedit", format!("{at}: returned {} but no ongoing session is reported", r.short()), case()));
            }
        }
        (Ev::Backspace, Outcome::Suggestion(r)) => {
            if !fl.was_ongoing && (!r.is_empty() || ongoing) {
                return Err(Failure::new("idle-backspace-started-something", format!("{at}: backspace when idle returned {} ongoing={ongoing}", r.short()), case()));
            }
            if nonempty_preedit(r) && !ongoing {
                return Err(Failure::new("flag-false-with-preedit", format!("{at}: returned {} but no ongoing session is reported", r.short()), case()));
            }
            if r.is_empty() && ongoing {
                // known finding: single-string mode, the surviving raw text is not empty but transliterates to
                // the empty string (it ends in the escape character, e.g. "o`")
                let known = s.ctx.opts.is_phonetic() && !s.ctx.opts.psug && !fl.raw.is_empty() && crate::model::avro(&fl.raw).is_empty();
                let kind = if known { "empty-transliteration-of-nonempty-composition" } else { "flag-true-after-empty-backspace" };
                if !run.absorb(st, kind) {
                    return Err(Failure::new(kind, format!("{at}: backspace returned an empty suggestion but the session is still ongoing (surviving raw text {:?})", fl.raw), case()));
                }
            }
        }
        (Ev::CtrlBackspace, Outcome::Suggestion(r)) => {
            if ongoing || !r.is_empty() {
                return Err(Failure::new("flag-true-after-ctrl-backspace", format!("{at}: returned {} ongoing={ongoing}", r.short()), case()));
            }
        }
        (Ev::Commit(_) | Ev::Finish, _) => {
            if ongoing {
                return Err(Failure::new("flag-true-after-terminator", format!("{at}: still an ongoing session"), case()));
            }
        }
        _ => {}
    }
    if !ongoing {
        fl.keys_in_word = 0;
    }
    fl.was_ongoing = ongoing;
    Ok(())
}

pub fn run_case(run: &Run, c: &Case, st: &mut Stats) -> Result<(), Failure> {
    let sb = Sandbox::new();
    let mut it = match Interp::new(c.opts, &sb) {
        Ok(it) => it,
        Err(_) => return Ok(()),
    };
    let mut fl = Flags { was_ongoing: false, keys_in_word: 0, raw: String::new() };
    let opts = c.opts;
    let mut trace_for_case: Vec<Ev> = vec![];
    macro_rules! case_fn {
        () => {
            &|| gen::trace_json(&opts, &trace_for_case)
        };
    }
    // ---- H
    for op in &c.h {
        let mut obs = |s: &Step| {
            trace_for_case.push(s.ev.clone());
            let t = trace_for_case.clone();
            invariants(run, st, &mut fl, s, &|| gen::trace_json(&opts, &t))
        };
        match it.run_op(op, &mut obs) {
            Ok(Ok(())) => {}
            Ok(Err(f)) => return Err(f),
            Err(p) => return Err(Failure::new(panic_kind(&p.info), format!("event #{}: {}", p.at, p.info), gen::trace_json(&opts, &it.trace))),
        }
    }
    // what H left behind (for the non-triviality rule)
    let left = it.last.clone();
    let learned = it.trace.iter().any(|e| matches!(e, Ev::Commit(_))) && sb.parsed_selections().map(|m| !m.is_empty()).unwrap_or(false);
    let desync = match &left {
        Some(r) if it.ctx.ongoing() => {
            let comp = r.text.chars().count();
            comp != fl.keys_in_word || (r.text.is_empty())
        }
        _ => false,
    };
    // ---- terminating event
    let mut term_events: Vec<Ev> = vec![];
    match c.term {
        0 => {
            let n = it.last.as_ref().map(|r| r.choices()).unwrap_or(0);
            if n > 0 {
                term_events.push(Ev::Commit(((c.term_frac as usize) * n) >> 16));
            } else {
                term_events.push(Ev::Finish);
            }
        }
        1 => term_events.push(Ev::Finish),
        2 => term_events.push(Ev::CtrlBackspace),
        _ => {}
    }
    for ev in term_events {
        let mut obs = |s: &Step| {
            trace_for_case.push(s.ev.clone());
            let t = trace_for_case.clone();
            invariants(run, st, &mut fl, s, &|| gen::trace_json(&opts, &t))
        };
        match it.exec(ev, &mut obs) {
            Ok(Ok(())) => {}
            Ok(Err(f)) => return Err(f),
            Err(p) => return Err(Failure::new(panic_kind(&p.info), format!("event #{}: {}", p.at, p.info), gen::trace_json(&opts, &it.trace))),
        }
    }
    if c.term >= 3 {
        let limit = 4 * fl.keys_in_word + 2;
        let mut reached = !it.ctx.ongoing() && fl.keys_in_word == 0;
        let mut presses = 0;
        while !reached && presses < limit {
            presses += 1;
            let mut got_empty = false;
            let mut obs = |s: &Step| {
                trace_for_case.push(s.ev.clone());
                if let Outcome::Suggestion(r) = s.outcome {
                    got_empty = r.is_empty();
                }
                let t = trace_for_case.clone();
                invariants(run, st, &mut fl, s, &|| gen::trace_json(&opts, &t))
            };
            match it.exec(Ev::Backspace, &mut obs) {
                Ok(Ok(())) => {}
                Ok(Err(f)) => return Err(f),
                Err(p) => return Err(Failure::new(panic_kind(&p.info), format!("event #{}: {}", p.at, p.info), gen::trace_json(&opts, &it.trace))),
            }
            reached = got_empty && !it.ctx.ongoing();
        }
        if !reached {
            return Err(Failure::new("backspaces-do-not-reach-idle", format!("{presses} plain backspaces did not return an empty suggestion"), gen::trace_json(&opts, &it.trace)));
        }
        st.label("terminated-by-backspaces");
    }
    if it.ctx.ongoing() {
        return Err(Failure::new("flag-true-after-terminator", "the context still reports an ongoing session after the terminating event".to_string(), gen::trace_json(&opts, &it.trace)));
    }
    let _ = case_fn!();
    // ---- continuation, differential against a context created now over a copy of the user dir
    let copy = sb.duplicate();
    let fresh = Ctx::new(it.ctx.opts, &copy).map_err(|p| Failure::new(panic_kind(&p), p.to_string(), gen::trace_json(&opts, &it.trace)))?;
    let split_at = it.trace.len();
    let mut k_list = false;
    for op in &c.k {
        let mut obs = |s: &Step| -> Result<(), Failure> {
            trace_for_case.push(s.ev.clone());
            let t = trace_for_case.clone();
            let cj = || {
                let mut v = gen::trace_json(&opts, &t);
                v["continuation_starts_at"] = json!(split_at);
                v
            };
            invariants(run, st, &mut fl, s, &cj)?;
            let pf = |p: crate::driver::PanicInfo| Failure::new(panic_kind(&p), format!("fresh context: {p}"), cj());
            let twin: Option<Rendered> = match s.ev {
                Ev::Key { code, m, sel } => Some(fresh.key(*code, *m, *sel).map_err(pf)?),
                Ev::Backspace => Some(fresh.backspace(false).map_err(pf)?),
                Ev::CtrlBackspace => Some(fresh.backspace(true).map_err(pf)?),
                Ev::Commit(i) => {
                    fresh.commit(*i).map_err(pf)?;
                    None
                }
                Ev::Finish => {
                    fresh.finish().map_err(pf)?;
                    None
                }
                _ => None,
            };
            if let (Outcome::Suggestion(r), Some(tw)) = (s.outcome, &twin) {
                if !r.lonely && !r.cands.is_empty() {
                    k_list = true;
                }
                if r != tw {
                    let kind = if !s.ctx.opts.is_phonetic() { "leak-into-next-word-fixed" } else { "leak-into-next-word-phonetic" };
                    return Err(Failure::new(
                        kind,
                        format!("event #{} ({}): used context returns {} but a newly created context returns {}", s.index, gen::ev_to_string(s.ev), r.short(), tw.short()),
                        cj(),
                    ));
                }
            }
            if s.ctx.ongoing() != fresh.ongoing() {
                return Err(Failure::new("session-flag-differs-from-fresh", format!("event #{}: used ongoing={} fresh ongoing={}", s.index, s.ctx.ongoing(), fresh.ongoing()), cj()));
            }
            Ok(())
        };
        match it.run_op(op, &mut obs) {
            Ok(Ok(())) => {}
            Ok(Err(f)) => return Err(f),
            Err(p) => return Err(Failure::new(panic_kind(&p.info), format!("event #{}: {}", p.at, p.info), gen::trace_json(&opts, &it.trace))),
        }
    }
    st.label(["term-commit", "term-finish", "term-ctrl-backspace", "term-backspaces"][c.term.min(3) as usize]);
    st.label(if opts.is_phonetic() { "phonetic" } else { "fixed" });
    if desync {
        st.label("H-left-desynchronised-composition");
    }
    if learned {
        st.label("H-learned-a-selection");
    }
    st.count("events", it.trace.len() as u64);
    if (desync || learned) && k_list {
        let t = it.trace.clone();
        st.nontrivial(hash_of(&(opts.letters(), &t)), || json!({"opts": opts.letters(), "continuation_starts_at": split_at, "events": t.iter().take(50).map(gen::ev_to_string).collect::<Vec<_>>()}));
    }
    let _ = keys();
    Ok(())
}

/// "... behaves FROM THEN ON exactly like a newly created context": one context per shard lives through all cases of
/// the shard (thousands of distinct word parts, learning commits included); after every terminating event the next
/// word is typed in it and in a context created at that moment over a copy of the user directory.
pub struct LongLived {
    sb: Sandbox,
    ctx: Ctx,
    words: usize,
    log: Vec<String>,
    /// every step this context lived through: (word, terminator, fraction, next word) - the replay file
    history: Vec<(String, u8, u16, String)>,
}

#[derive(Clone, Debug)]
pub struct LCase {
    w1: u32,
    w2: u32,
    term: u8,
    frac: u16,
}

fn ll_words() -> &'static Vec<String> {
    static W: std::sync::OnceLock<Vec<String>> = std::sync::OnceLock::new();
    W.get_or_init(|| {
        let p = gen::pools();
        let mut w: Vec<String> = p.phonetic.clone();
        // dictionary-guided bases, bare and followed by a suffix key: the shapes whose candidates are built from the
        // per-context memo
        for (i, (sp, _)) in gen::guided_bases().iter().enumerate() {
            w.push(sp.clone());
            w.push(format!("{sp}{}", p.suffix_keys[(i * 37) % p.suffix_keys.len()]));
            if i % 4 == 0 {
                w.push(format!("({sp}{})", p.suffix_keys[(i * 101) % p.suffix_keys.len()]));
            }
        }
        w.retain(|t| !t.is_empty() && t.chars().all(|c| keys().has_char(c)));
        w
    })
}

fn mk_long_lived(shard: usize) -> LongLived {
    let sb = Sandbox::new();
    let mut o = Opts::parse("s");
    o.english = shard & 1 != 0;
    o.smart = shard & 2 != 0;
    match shard % 8 {
        5 => o = Opts::parse("Pfe"),
        7 => o = Opts::parse("Sfvo"),
        _ => {}
    }
    LongLived { ctx: Ctx::new(o, &sb).expect("context"), sb, words: 0, log: vec![], history: vec![] }
}

fn long_lived_case(c: &LCase, lo: &mut LongLived, st: &mut Stats) -> Result<(), Failure> {
    let ws = ll_words();
    // a third of the words come from a small hot pool, so that learned words are met again
    let hot = ["sar", "sesh", "kotha", "amar", "park", "onno", "din", "rat", "boi", "kor", "bon", "mon"];
    let pick = |x: u32| -> String { if x % 10 < 3 { hot[(x / 10) as usize % hot.len()].to_string() } else { ws[x as usize % ws.len()].clone() } };
    let (w1, w2) = (pick(c.w1), pick(c.w2));
    ll_step(lo, &w1, c.term, c.frac, &w2, st)
}

fn ll_step(lo: &mut LongLived, w1: &str, term: u8, frac: u16, w2: &str, st: &mut Stats) -> Result<(), Failure> {
    struct C {
        term: u8,
        frac: u16,
    }
    let c = C { term, frac };
    let opts = lo.ctx.opts;
    let log = lo.log.clone();
    let words_before = lo.words;
    lo.history.push((w1.to_string(), term, frac, w2.to_string()));
    let history = lo.history.clone();
    let case = || json!({"long_lived": {"opts": opts.letters(), "last_words": log, "words_typed_before_in_this_context": words_before, "history": history}});
    let pf = |p: crate::driver::PanicInfo| Failure::new(panic_kind(&p), p.to_string(), case());
    let r = lo.ctx.type_frontend(w1).map_err(pf)?;
    let mut what = "finish";
    match (c.term % 4, &r) {
        (0, Some(r)) if r.choices() > 0 => {
            lo.ctx.commit(((c.frac as usize) * r.choices()) >> 16).map_err(pf)?;
            what = "commit";
        }
        (2, _) => {
            lo.ctx.backspace(true).map_err(pf)?;
            what = "ctrl-backspace";
        }
        (3, _) => {
            let mut n = 0;
            loop {
                let b = lo.ctx.backspace(false).map_err(pf)?;
                n += 1;
                if b.is_empty() && !lo.ctx.ongoing() {
                    break;
                }
                if n > 4 * w1.len() + 4 {
                    return Err(Failure::new("backspaces-do-not-reach-idle", format!("{n} plain backspaces after {w1:?} did not reach the idle state"), case()));
                }
            }
            what = "backspaces";
        }
        _ => lo.ctx.finish().map_err(pf)?,
    }
    if lo.ctx.ongoing() {
        // the known finding (empty transliteration of a non-empty composition) cannot occur here: suggestions are on
        return Err(Failure::new("flag-true-after-terminator", format!("after {w1:?} and {what} the long-lived context still reports an ongoing session"), case()));
    }
    lo.log.push(format!("{w1} [{what}]"));
    if lo.log.len() > 6 {
        lo.log.remove(0);
    }
    let copy = lo.sb.duplicate();
    let mut fresh = Ctx::new(opts, &copy).map_err(pf)?;
    if c.term & 4 != 0 {
        // variant: the candidate list is switched off (update-engine, idle), the next word is typed and committed
        // there, the list is switched on again - in both contexts; nothing of the word that ended before the switch
        // (its list, its preselection) may count for that commit
        let mut off = opts;
        off.psug = false;
        off.fsug = false;
        lo.ctx.update(off, &lo.sb).map_err(pf)?;
        fresh.update(off, &copy).map_err(pf)?;
        let a = lo.ctx.type_text(w2).map_err(pf)?;
        let b = fresh.type_text(w2).map_err(pf)?;
        if a != b {
            return Err(Failure::new(
                "long-lived-context-differs-from-new",
                format!("after {w1:?} ended by {what} and the list switched off: typing {w2:?}: used context {:?}, new context {:?}", a.map(|r| r.short()), b.map(|r| r.short())),
                case(),
            ));
        }
        // a key the layout refuses (fixed layouts; in phonetic mode it is just ignored), in the middle of the word
        if let Some(k) = keys().by_name("KP_EQUALS") {
            let (ra, rb) = (lo.ctx.key(k.code, 0, 0).map_err(pf)?, fresh.key(k.code, 0, 0).map_err(pf)?);
            if ra != rb {
                return Err(Failure::new(
                    "long-lived-context-differs-from-new",
                    format!("after {w1:?} ended by {what} and the list switched off: {w2:?} typed, then the refused key KP_EQUALS: used context {}, new context {}", ra.short(), rb.short()),
                    case(),
                ));
            }
        }
        if lo.ctx.ongoing() {
            lo.ctx.commit(0).map_err(pf)?;
            fresh.commit(0).map_err(pf)?;
        }
        lo.ctx.update(opts, &lo.sb).map_err(pf)?;
        fresh.update(opts, &copy).map_err(pf)?;
        let (sa, sb2) = (lo.sb.parsed_selections(), copy.parsed_selections());
        if sa != sb2 {
            return Err(Failure::new(
                "commit-with-the-list-off-changes-the-store-unlike-a-new-context",
                format!("after {w1:?} ended by {what}: list switched off, {w2:?} committed, list switched on: the used context's store is {sa:?}, the new context's {sb2:?}"),
                case(),
            ));
        }
        st.label("next-word-committed-with-the-list-switched-off");
    }
    let mut sel = 0u8;
    for ch in w2.chars() {
        let a = lo.ctx.ch(ch, sel).map_err(pf)?;
        let b = fresh.ch(ch, sel).map_err(pf)?;
        st.evals(1);
        if a != b {
            return Err(Failure::new(
                "long-lived-context-differs-from-new",
                format!("{} words into the life of this context ({}), after {w1:?} ended by {what}: typing {w2:?}, at {ch:?} the used context returns {} but a newly created context returns {}", lo.words, opts.letters(), a.short(), b.short()),
                case(),
            ));
        }
        if lo.ctx.ongoing() != fresh.ongoing() {
            return Err(Failure::new("session-flag-differs-from-fresh", format!("typing {w2:?} at {ch:?}: used ongoing={} fresh ongoing={}", lo.ctx.ongoing(), fresh.ongoing()), case()));
        }
        sel = if a.lonely { 0 } else { a.sel.min(255) as u8 };
    }
    lo.ctx.finish().map_err(pf)?;
    lo.words += 2;
    lo.log.push(format!("{w2} [finish]"));
    if lo.words == 400 {
        st.label("long-lived-context-reached-400-words");
    }
    if lo.words > 100 {
        st.nontrivial(hash_of(&(opts.letters(), w1, w2, c.term, lo.words)), || json!({"opts": opts.letters(), "word": w1, "ended_by": what, "next_word": w2, "words_before": lo.words}));
    }
    Ok(())
}

fn lcase_strategy() -> impl Strategy<Value = LCase> {
    (any::<u32>(), any::<u32>(), 0u8..4, any::<u16>(), proptest::bool::weighted(0.3)).prop_map(|(w1, w2, term, frac, toggle)| LCase { w1, w2, term: term | if toggle { 4 } else { 0 }, frac })
}

/// A word that the user's own list maps to something is typed and ended; then that one entry is taken out of the list
/// (the file stays, with a later time stamp) and the context is told (update-engine, same configuration, idle).  The
/// word - and the word with a suffix - typed again must come out as in a context created at that moment over a copy
/// of the user directory: nothing of the ended word's earlier candidate list may survive.
fn entry_removed_case(word: &str, value: &str, others: u8, english: bool, term: u8) -> Result<(), Failure> {
    let case = json!({"entry_removed": {"word": word, "value": value, "others": others, "english": english, "term": term}});
    let pf = |p: crate::driver::PanicInfo| Failure::new(panic_kind(&p), p.to_string(), case.clone());
    let sb = Sandbox::new();
    let mut doc: std::collections::BTreeMap<String, String> = std::collections::BTreeMap::new();
    doc.insert(word.to_string(), value.to_string());
    for (k, v) in [("zzq", "kkk"), ("park", "pak"), ("boi", "bOI")].iter().take(others as usize) {
        doc.insert(k.to_string(), v.to_string());
    }
    let write = |d: &std::collections::BTreeMap<String, String>, secs: u64| {
        std::fs::write(sb.autocorrect_file(), serde_json::to_string(d).unwrap()).expect("write list");
        std::fs::File::options().write(true).open(sb.autocorrect_file()).expect("open").set_modified(std::time::UNIX_EPOCH + std::time::Duration::from_secs(secs)).expect("mtime");
    };
    write(&doc, 1_000_000);
    let mut o = Opts::from_bits(0, 0b010);
    o.english = english;
    let mut a = Ctx::new(o, &sb).map_err(pf)?;
    let texts = [word.to_string(), format!("{word}e"), format!("{word}gulo"), format!("({word})")];
    for (i, t) in texts.iter().enumerate() {
        let r = a.type_frontend(t).map_err(pf)?;
        match ((term as usize + i) % 3, r) {
            (0, Some(r)) if r.choices() > 0 => a.commit(0).map_err(pf)?,
            (1, _) => {
                a.backspace(true).map_err(pf)?;
            }
            _ => a.finish().map_err(pf)?,
        }
        if a.ongoing() {
            return Err(Failure::new("flag-true-after-terminator", format!("after {t:?} was ended the session flag is still set"), case.clone()));
        }
    }
    doc.remove(word);
    write(&doc, 1_000_100);
    a.update(o, &sb).map_err(pf)?;
    let copy = sb.duplicate();
    let b = Ctx::new(o, &copy).map_err(pf)?;
    for t in &texts {
        let mut sel = 0u8;
        for ch in t.chars() {
            let (ra, rb) = (a.ch(ch, sel).map_err(pf)?, b.ch(ch, sel).map_err(pf)?);
            if ra != rb {
                return Err(Failure::new(
                    "continuation-differs-from-fresh",
                    format!("entry {word:?} removed from the user's list after the word was ended: typing {t:?} again, at {ch:?} the used context returns {} but a newly created context returns {}", ra.short(), rb.short()),
                    case.clone(),
                ));
            }
            sel = if ra.lonely { 0 } else { ra.sel.min(255) as u8 };
        }
        a.finish().map_err(pf)?;
        b.finish().map_err(pf)?;
    }
    Ok(())
}

fn entry_removed_after_the_word_ended(run: &Run) {
    let mut items: Vec<(&str, &str, u8, bool, u8)> = vec![];
    for (w, v) in [("xyz", "kotha"), ("amar", "tOmar"), ("abc", "kkk"), ("academy", "ekademi"), ("k", "khub"), ("sesh", "shuru")] {
        for others in [0u8, 1, 3] {
            for english in [false, true] {
                for term in 0..3u8 {
                    items.push((w, v, others, english, term));
                }
            }
        }
    }
    run.exhaustive("entry-removed-after-the-word-ended", &items, |_| (), |&(w, v, others, english, term), st, _| {
        st.label("entry-removed-after-the-word-ended");
        entry_removed_case(w, v, others, english, term)
    });
}

pub fn run(run: &Run) {
    entry_removed_after_the_word_ended(run);
    run.sharded("history-terminator-continuation", 16, run.tier.pick(500, 10000), 500, strategy, |_| (), |c: &Case, st, _| run_case(run, c, st));
    run.require_label("H-left-desynchronised-composition", 30);
    run.require_label("H-learned-a-selection", 10);
    run.require_label("terminated-by-backspaces", 30);
    run.sharded("long-lived-context-vs-new", 16, run.tier.pick(260, 4000), 0, lcase_strategy, mk_long_lived, |c: &LCase, st, lo| long_lived_case(c, lo, st));
    run.require_label("long-lived-context-reached-400-words", 8);
    run.require_label("next-word-committed-with-the-list-switched-off", 300);
}

/// Replay: the concrete trace is split at `continuation_starts_at`; events before it run in the
/// used context only, events after it in both.
pub fn replay(run: &Run, case: &Value) -> Result<(), Failure> {
    if let Some(e) = case.get("entry_removed") {
        return entry_removed_case(e["word"].as_str().unwrap_or_default(), e["value"].as_str().unwrap_or_default(), e["others"].as_u64().unwrap_or(0) as u8, e["english"].as_bool().unwrap_or(false), e["term"].as_u64().unwrap_or(0) as u8);
    }
    if let Some(ll) = case.get("long_lived") {
        let sb = Sandbox::new();
        let opts = Opts::parse(ll["opts"].as_str().unwrap_or_default());
        let mut lo = LongLived { ctx: Ctx::new(opts, &sb).map_err(|p| Failure::new(panic_kind(&p), p.to_string(), case.clone()))?, sb, words: 0, log: vec![], history: vec![] };
        let hist: Vec<(String, u8, u16, String)> = serde_json::from_value(ll["history"].clone()).unwrap_or_default();
        for (w1, term, frac, w2) in &hist {
            ll_step(&mut lo, w1, *term, *frac, w2, &mut Stats::new())?;
        }
        return Ok(());
    }
    let mut st_replay = Stats::new();
    let opts = Opts::parse(case["opts"].as_str().unwrap_or_default());
    let events: Vec<Ev> = serde_json::from_value(case["events"].clone()).unwrap_or_default();
    let split = case["continuation_starts_at"].as_u64().map(|v| v as usize).unwrap_or(events.len());
    let sb = Sandbox::new();
    let mut it = Interp::new(opts, &sb).map_err(|p| Failure::new(panic_kind(&p.info), p.info.to_string(), case.clone()))?;
    let mut fl = Flags { was_ongoing: false, keys_in_word: 0, raw: String::new() };
    let mut fresh: Option<(Sandbox, Ctx)> = None;
    for (i, ev) in events.iter().enumerate() {
        if i == split {
            let copy = sb.duplicate();
            let f = Ctx::new(it.ctx.opts, &copy).map_err(|p| Failure::new(panic_kind(&p), p.to_string(), case.clone()))?;
            fresh = Some((copy, f));
        }
        let mut obs = |s: &Step| -> Result<(), Failure> {
            invariants(run, &mut st_replay, &mut fl, s, &|| case.clone())?;
            if let Some((_, f)) = &fresh {
                let pf = |p: crate::driver::PanicInfo| Failure::new(panic_kind(&p), format!("fresh context: {p}"), case.clone());
                let twin = match s.ev {
                    Ev::Key { code, m, sel } => Some(f.key(*code, *m, *sel).map_err(pf)?),
                    Ev::Backspace => Some(f.backspace(false).map_err(pf)?),
                    Ev::CtrlBackspace => Some(f.backspace(true).map_err(pf)?),
                    Ev::Commit(i) => {
                        f.commit(*i).map_err(pf)?;
                        None
                    }
                    Ev::Finish => {
                        f.finish().map_err(pf)?;
                        None
                    }
                    _ => None,
                };
                if let (Outcome::Suggestion(r), Some(tw)) = (s.outcome, &twin) {
                    if r != tw {
                        return Err(Failure::new("leak-into-next-word", format!("event #{}: used {} fresh {}", s.index, r.short(), tw.short()), case.clone()));
                    }
                }
                if s.ctx.ongoing() != f.ongoing() {
                    return Err(Failure::new("session-flag-differs-from-fresh", format!("event #{}", s.index), case.clone()));
                }
            }
            Ok(())
        };
        match it.exec(ev.clone(), &mut obs) {
            Ok(Ok(())) => {}
            Ok(Err(f)) => return Err(f),
            Err(p) => return Err(Failure::new(panic_kind(&p.info), format!("event #{}: {}", p.at, p.info), case.clone())),
        }
    }
    Ok(())
}
