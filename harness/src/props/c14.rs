//! C14 — old vowel-sign order typing yields the same text as Unicode-order typing.

use crate::driver::{layout_inverse, Ctx, Layout, Opts, Sandbox};
use crate::model;
use crate::props::c01::panic_kind;
use crate::runner::{hash_of, Failure, Run, Stats};
use serde_json::{json, Value};

pub const LEVEL: &str = "exploration";
pub const EXHAUSTIVE: bool = false;
pub const RULE: &str = "enumerated: every single unit and every two-unit word (quick: first unit from every 7th; thorough: all pairs) where unit = syllable (cluster of 1..3 consonants from {ka, ra, sa} joined by the hasanta key, optionally closed by the ro-fola / zo-fola key or opened by the reph key, x sign in {none, aa, i, ii, u, rri, e, ai, o, au typed with the au key, au typed with the length mark} x chandrabindu yes/no) | independent vowel | '!' | digit; x 8 settings of {auto vowel, auto chandrabindu, traditional joining}; plus generated words of 3..5 units. Oracle (differential): context with old vowel-sign order ON fed the typewriter-order keys (left-standing sign first; o/au as e-sign before and aa-sign / au-sign / length mark after) must show the same pre-edit text as a context with the option OFF fed the Unicode-order keys. Side clauses at every unit boundary that is not after a hasanta: a lone left-standing sign leaves the pre-edit text unchanged, the session flag is true, and one backspace restores text and flag. Non-trivial: the word contains a left-standing or two-part sign on a cluster of >= 2 consonants; distinct by (options, word).";
pub const ASSUMPTIONS: &[&str] = &[
    "typewriter / Unicode key orders as described in the statement",
    "old reph off (the reph key is a plain prefix key here; C13 owns old-style reph)",
];

type K = (u16, u8);

#[derive(Clone, Debug)]
pub struct Unit {
    pub desc: String,
    pub unicode: Vec<K>,
    pub typewriter: Vec<K>,
    /// cluster size (0 for non-syllables) and whether the sign is left-standing / two-part
    pub cluster: usize,
    pub special_sign: bool,
    /// typewriter order starts with a left-standing sign
    pub starts_with_left_sign: bool,
}

pub fn units() -> Vec<Unit> {
    units_over(false)
}

/// `wide`: EVERY consonant the layout can type (khanda-ta excepted: it takes neither signs nor conjuncts) as the
/// single consonant, as the first and as the second member of a two-consonant conjunct with ka, and under the
/// ro-fola / zo-fola / reph keys - the rules must not depend on which consonant carries the sign.
pub fn units_over(wide: bool) -> Vec<Unit> {
    let inv = layout_inverse(Layout::Synthetic);
    let k = |v: &str| -> K { *inv.get(v).unwrap_or_else(|| panic!("synthetic layout lacks {v:?}")) };
    // single consonants, and conjuncts that ONE key delivers (a consonant, hasanta, a consonant - the synthetic layout has
    // such a key): for the vowel-sign order they are consonants like any other
    let cons_like = |v: &str| {
        let cs: Vec<char> = v.chars().collect();
        (cs.len() == 1 && model::is_consonant(cs[0]) && cs[0] != model::KHANDA_TA) || (cs.len() == 3 && model::is_consonant(cs[0]) && cs[1] == model::HASANTA && model::is_consonant(cs[2]))
    };
    let mut all: Vec<(String, K)> = inv.iter().filter(|(v, _)| cons_like(v)).map(|(v, key)| (v.clone(), *key)).collect();
    all.sort();
    let narrow = [("\u{0995}".to_string(), k("\u{0995}")), ("\u{09B0}".to_string(), k("\u{09B0}")), ("\u{09B8}".to_string(), k("\u{09B8}"))];
    let cons: Vec<(String, K)> = if wide { all } else { narrow.to_vec() };
    let has = k("\u{09CD}");
    let rofola = k(model::ROFOLA);
    let zofola = k(model::ZOFOLA);
    let reph = k(model::REPH);
    let chandra = k("\u{0981}");
    let (aa, i, ii, u, rri, e, ai, o, au, lm) = (
        k("\u{09BE}"), k("\u{09BF}"), k("\u{09C0}"), k("\u{09C1}"), k("\u{09C3}"), k("\u{09C7}"), k("\u{09C8}"), k("\u{09CB}"), k("\u{09CC}"), k("\u{09D7}"),
    );
    // (name, unicode keys, typewriter before, typewriter after, special)
    let signs: Vec<(&str, Vec<K>, Vec<K>, Vec<K>, bool)> = vec![
        ("-", vec![], vec![], vec![], false),
        ("aa", vec![aa], vec![], vec![aa], false),
        ("i", vec![i], vec![i], vec![], true),
        ("ii", vec![ii], vec![], vec![ii], false),
        ("u", vec![u], vec![], vec![u], false),
        ("rri", vec![rri], vec![], vec![rri], false),
        ("e", vec![e], vec![e], vec![], true),
        ("ai", vec![ai], vec![ai], vec![], true),
        ("o", vec![o], vec![e], vec![aa], true),
        ("au/au", vec![au], vec![e], vec![au], true),
        ("au/lm", vec![au], vec![e], vec![lm], true),
    ];
    let mut clusters: Vec<(String, Vec<K>, usize)> = vec![];
    if wide {
        let ka = k("\u{0995}");
        for a in &cons {
            clusters.push((a.0.to_string(), vec![a.1], 1));
            clusters.push((format!("{}+ro", a.0), vec![a.1, rofola], 2));
            clusters.push((format!("{}+zo", a.0), vec![a.1, zofola], 2));
            clusters.push((format!("reph+{}", a.0), vec![reph, a.1], 2));
            clusters.push((format!("{}+ka", a.0), vec![a.1, has, ka], 2));
            clusters.push((format!("ka+{}", a.0), vec![ka, has, a.1], 2));
            clusters.push((format!("{}+ka+zo", a.0), vec![a.1, has, ka, zofola], 3));
        }
    }
    for a in cons.iter().filter(|_| !wide) {
        clusters.push((a.0.to_string(), vec![a.1], 1));
        clusters.push((format!("{}+ro", a.0), vec![a.1, rofola], 2));
        clusters.push((format!("{}+zo", a.0), vec![a.1, zofola], 2));
        clusters.push((format!("reph+{}", a.0), vec![reph, a.1], 2));
        clusters.push((format!("reph+{}+zo", a.0), vec![reph, a.1, zofola], 3));
        for b in &cons {
            clusters.push((format!("{}+{}", a.0, b.0), vec![a.1, has, b.1], 2));
            clusters.push((format!("{}+{}+ro", a.0, b.0), vec![a.1, has, b.1, rofola], 3));
            clusters.push((format!("{}+{}+zo", a.0, b.0), vec![a.1, has, b.1, zofola], 3));
            for c in &cons {
                clusters.push((format!("{}+{}+{}", a.0, b.0, c.0), vec![a.1, has, b.1, has, c.1], 3));
            }
        }
    }
    let mut out = vec![];
    for (d, key) in [("\u{0985}", k("\u{0985}")), ("!", k("!")), ("\u{09E7}", k("\u{09E7}"))] {
        out.push(Unit { desc: d.to_string(), unicode: vec![key], typewriter: vec![key], cluster: 0, special_sign: false, starts_with_left_sign: false });
    }
    for (cd, ck, size) in &clusters {
        for (sn, su, tb, ta, special) in &signs {
            for ch in [false, true] {
                let mut un = ck.clone();
                un.extend(su);
                let mut tw = tb.clone();
                tw.extend(ck);
                tw.extend(ta);
                if ch {
                    un.push(chandra);
                    tw.push(chandra);
                }
                out.push(Unit {
                    desc: format!("[{cd} {sn}{}]", if ch { " ~" } else { "" }),
                    unicode: un,
                    typewriter: tw,
                    cluster: *size,
                    special_sign: *special,
                    starts_with_left_sign: !tb.is_empty(),
                });
            }
        }
    }
    out
}

fn opts_pair(bits: u32) -> (Opts, Opts) {
    let mut off = Opts::parse("SD");
    off.vowel = bits & 1 != 0;
    off.chandra = bits & 2 != 0;
    off.kar = bits & 4 != 0;
    // bit 3 (used by the directed parts only): the candidate list is on - "not shown" then means the auxiliary text
    off.fsug = bits & 8 != 0;
    off.nodata = !off.fsug; // the list needs the bundled dictionary
    let mut on = off;
    on.karorder = true;
    (off, on)
}

struct Pair {
    off: Ctx,
    on: Ctx,
}

fn type_keys(ctx: &Ctx, ks: &[K], case: &dyn Fn() -> Value) -> Result<String, Failure> {
    let mut last = String::new();
    for (c, m) in ks {
        let r = ctx.key(*c, *m, 0).map_err(|p| Failure::new(panic_kind(&p), p.to_string(), case()))?;
        // with the candidate list on, what is "shown" is also the first candidate: it is the composed text (no quotes are
        // typed here, so no curling), never an older text with the waiting sign still in it
        if !r.lonely && r.cands.first() != Some(&r.text) {
            return Err(Failure::new("pending-sign-shown", format!("the list's first candidate is {:?} but the composed text is {:?}", r.cands.first(), r.text), case()));
        }
        last = r.text;
    }
    Ok(last)
}

/// Differential check of one word (a list of unit indices) + side clauses.
fn check_word(pair: &Pair, us: &[Unit], word: &[usize], st: &mut Stats, bits: u32) -> Result<(), Failure> {
    let desc = || word.iter().map(|i| us[*i].desc.clone()).collect::<Vec<_>>().join(" ");
    let case = || json!({"option_bits": bits, "word": word, "desc": desc(), "unit_count": us.len()});
    let pf = |p: crate::driver::PanicInfo| Failure::new(panic_kind(&p), p.to_string(), case());
    pair.off.finish().map_err(pf)?;
    pair.on.finish().map_err(pf)?;
    let mut a = String::new();
    let mut b = String::new();
    for &ui in word {
        let u = &us[ui];
        // side clauses: lone left-standing sign at a unit boundary (not after hasanta)
        if u.starts_with_left_sign && !b.ends_with(model::HASANTA) {
            let flag_before = pair.on.ongoing();
            let (c, m) = u.typewriter[0];
            let r = pair.on.key(c, m, 0).map_err(pf)?;
            if r.text != b {
                return Err(Failure::new("pending-sign-shown", format!("lone left-standing sign after {b:?}: pre-edit text became {:?}", r.text), case()));
            }
            if !pair.on.ongoing() {
                return Err(Failure::new("pending-sign-no-session", format!("sign waiting for its consonant after {b:?} but no ongoing session"), case()));
            }
            let back = pair.on.backspace(false).map_err(pf)?;
            if back.text != b || pair.on.ongoing() != flag_before {
                return Err(Failure::new(
                    "pending-sign-backspace",
                    format!("one backspace after a waiting sign: text {:?} (was {b:?}), session flag {} (was {flag_before})", back.text, pair.on.ongoing()),
                    case(),
                ));
            }
            st.count("side-clause-checks", 1);
        }
        let ta = type_keys(&pair.off, &u.unicode, &case)?;
        let tb = type_keys(&pair.on, &u.typewriter, &case)?;
        a = ta;
        b = tb;
    }
    // ctrl-backspace while a sign is waiting: the whole word, the waiting sign included, is gone; the last
    // unit typed again afterwards must come out as if nothing had been typed before
    if word.len() == 2 && us[word[1]].starts_with_left_sign {
        let (first, last) = (&us[word[0]], &us[word[1]]);
        pair.on.finish().map_err(pf)?;
        pair.off.finish().map_err(pf)?;
        let shown = type_keys(&pair.on, &first.typewriter, &case)?;
        if !shown.ends_with(model::HASANTA) && !shown.is_empty() {
            let (c, m) = last.typewriter[0];
            pair.on.key(c, m, 0).map_err(pf)?;
            let r = pair.on.backspace(true).map_err(pf)?;
            if !r.is_empty() || pair.on.ongoing() {
                return Err(Failure::new("ctrl-backspace-keeps-waiting-sign", format!("ctrl-backspace on {shown:?} with a waiting sign returned {} ongoing={}", r.short(), pair.on.ongoing()), case()));
            }
            let x = type_keys(&pair.on, &last.typewriter, &case)?;
            let y = type_keys(&pair.off, &last.unicode, &case)?;
            if x != y {
                return Err(Failure::new("waiting-sign-survives-ctrl-backspace", format!("after ctrl-backspace unit {} gives {x:?}, expected {y:?}", last.desc), case()));
            }
            st.count("ctrl-backspace-with-waiting-sign-checks", 1);
        }
        pair.on.finish().map_err(pf)?;
        pair.off.finish().map_err(pf)?;
    }
    if a != b {
        let kind = if a.contains(model::ZWJ) && !b.contains(model::ZWJ) { "order-divergence-zwj-lost" } else { "order-divergence" };
        return Err(Failure::new(kind, format!("word {}: Unicode order/option off gives {a:?}, typewriter order/option on gives {b:?}", desc()), case()));
    }
    if word.iter().any(|i| us[*i].special_sign && us[*i].cluster >= 2) {
        st.nontrivial(hash_of(&(bits, word)), || json!({"option_bits": bits, "word": desc(), "text": a}));
    }
    Ok(())
}

fn mk_pair(bits: u32, sb: &Sandbox) -> Result<Pair, Failure> {
    let (off, on) = opts_pair(bits);
    let e = |p: crate::driver::PanicInfo| Failure::new(panic_kind(&p), p.to_string(), json!({}));
    Ok(Pair { off: Ctx::new(off, sb).map_err(e)?, on: Ctx::new(on, sb).map_err(e)? })
}

fn wide_pass(run: &Run) {
    let us = units_over(true);
    let n = us.len();
    let vowel_unit = 0usize; // the independent vowel (first of the three non-syllable units)
    let items: Vec<(u32, usize)> = (0..8u32).flat_map(|b| (0..16usize).map(move |c| (b, c))).collect();
    run.exhaustive(
        "every-consonant-of-the-layout-as-carrier-and-in-conjuncts",
        &items,
        |_| Sandbox::new(),
        |&(bits, chunk), st, sb| {
            let pair = mk_pair(bits, sb)?;
            for i in (0..n).filter(|i| i % 16 == chunk) {
                st.evals(2);
                check_word(&pair, &us, &[i], st, bits)?;
                check_word(&pair, &us, &[vowel_unit, i], st, bits)?;
            }
            st.label("wide-consonant-pass");
            Ok(())
        },
    );
}

/// "a sign waiting for its consonant ... is discarded by one backspace" - also when it waits in the MIDDLE of a conjunct:
/// left-standing sign, consonant, hasanta (the sign is lifted off the consonant and waits again), one backspace: the
/// text is unchanged, the sign is gone (the next consonant comes without it), the session is still open.
fn waiting_sign_inside_a_conjunct(run: &Run) {
    let inv = layout_inverse(Layout::Synthetic);
    let k = |v: &str| -> K { *inv.get(v).unwrap_or_else(|| panic!("synthetic layout lacks {v:?}")) };
    let mut cons: Vec<(String, K)> = inv.iter().filter(|(v, _)| v.chars().count() == 1 && v.chars().all(|c| model::is_consonant(c) && c != model::KHANDA_TA)).map(|(v, key)| (v.clone(), *key)).collect();
    cons.sort();
    let signs = [("\u{09BF}", k("\u{09BF}")), ("\u{09C7}", k("\u{09C7}")), ("\u{09C8}", k("\u{09C8}"))];
    let (has, ka) = (k("\u{09CD}"), k("\u{0995}"));
    let items: Vec<u32> = (0..16).collect();
    run.exhaustive(
        "waiting-sign-inside-a-conjunct-discarded-by-one-backspace",
        &items,
        |_| Sandbox::new(),
        |&bits, st, sb| {
            let pair = mk_pair(bits, sb)?;
            for (cv, ck) in &cons {
                for (sv, sk) in &signs {
                    let case = || json!({"option_bits": bits, "waiting_sign_inside_conjunct": {"consonant": cv, "sign": sv}});
                    let pf = |p: crate::driver::PanicInfo| Failure::new(panic_kind(&p), p.to_string(), case());
                    pair.on.finish().map_err(pf)?;
                    pair.off.finish().map_err(pf)?;
                    let t1 = type_keys(&pair.on, &[*sk, *ck, has], &case)?;
                    let want1 = type_keys(&pair.off, &[*ck, has], &case)?;
                    if t1 != want1 {
                        return Err(Failure::new("pending-sign-shown", format!("sign {sv:?}, {cv:?}, hasanta: pre-edit {t1:?}, expected {want1:?} (the sign waits for the rest of the conjunct)"), case()));
                    }
                    let b = pair.on.backspace(false).map_err(pf)?;
                    if b.text != want1 || !pair.on.ongoing() {
                        return Err(Failure::new("pending-sign-backspace", format!("one backspace with the sign {sv:?} waiting after {want1:?}: text {:?} ongoing={} (the backspace discards the waiting sign and nothing else)", b.text, pair.on.ongoing()), case()));
                    }
                    let t2 = type_keys(&pair.on, &[ka], &case)?;
                    let want2 = type_keys(&pair.off, &[ka], &case)?;
                    if t2 != want2 {
                        return Err(Failure::new("pending-sign-backspace", format!("after the backspace discarded the waiting sign {sv:?}, the next consonant gives {t2:?}, expected {want2:?}"), case()));
                    }
                    st.evals(1);
                    st.count("side-clause-checks", 1);
                }
            }
            // a sign that waits at the very start of a word, then the word is ended without a consonant ever coming
            // (finish request / ctrl-backspace / one plain backspace): no session is left and the next word is clean
            for (sv, sk) in &signs {
                for end in 0..3u8 {
                    let case = || json!({"option_bits": bits, "lone_waiting_sign_then_end": {"sign": sv, "ending": end}});
                    let pf = |p: crate::driver::PanicInfo| Failure::new(panic_kind(&p), p.to_string(), case());
                    pair.on.finish().map_err(pf)?;
                    pair.off.finish().map_err(pf)?;
                    type_keys(&pair.on, &[*sk], &case)?;
                    match end {
                        0 => pair.on.finish().map_err(pf)?,
                        1 => {
                            pair.on.backspace(true).map_err(pf)?;
                        }
                        _ => {
                            pair.on.backspace(false).map_err(pf)?;
                        }
                    }
                    if pair.on.ongoing() {
                        return Err(Failure::new("pending-sign-survives-the-end-of-the-word", format!("sign {sv:?} alone, then the word was ended (way {end}): the context still reports an ongoing session"), case()));
                    }
                    let t = type_keys(&pair.on, &[ka], &case)?;
                    let want = type_keys(&pair.off, &[ka], &case)?;
                    if t != want {
                        return Err(Failure::new("pending-sign-survives-the-end-of-the-word", format!("sign {sv:?} alone, word ended (way {end}), then a consonant: pre-edit {t:?}, expected {want:?}"), case()));
                    }
                    st.evals(1);
                }
            }
            st.label("waiting-sign-inside-a-conjunct");
            Ok(())
        },
    );
}

/// An independent vowel typed as hasanta + vowel-sign key right after a syllable that carried a left-standing sign (the
/// sign was lifted when the hasanta came and has to go back where it was): then a plain consonant, then one backspace.
/// Typewriter order with the option on against Unicode order with it off, after every key.
fn vowel_via_hasanta_after_a_left_sign(run: &Run) {
    let inv = layout_inverse(Layout::Synthetic);
    let k = |v: &str| -> K { *inv.get(v).unwrap_or_else(|| panic!("synthetic layout lacks {v:?}")) };
    let has = k("\u{09CD}");
    let items: Vec<u32> = (0..16).collect();
    run.exhaustive(
        "independent-vowel-typed-as-hasanta-plus-sign-after-a-left-standing-sign",
        &items,
        |_| Sandbox::new(),
        |&bits, st, sb| {
            let pair = mk_pair(bits, sb)?;
            for c1 in ["\u{0995}", "\u{09B8}", "\u{09B0}", "\u{09DF}"] {
                for l in ["\u{09BF}", "\u{09C7}", "\u{09C8}"] {
                    for v in ["\u{09BF}", "\u{09C1}", "\u{09BE}", "\u{09C7}", "\u{09C0}"] {
                        for c2 in ["\u{09AC}", "\u{0995}"] {
                            let case = || json!({"option_bits": bits, "vowel_via_hasanta": [c1, l, v, c2]});
                            let pf = |p: crate::driver::PanicInfo| Failure::new(panic_kind(&p), p.to_string(), case());
                            pair.on.finish().map_err(pf)?;
                            pair.off.finish().map_err(pf)?;
                            let unicode = [k(c1), k(l), has, k(v), k(c2)];
                            let typewriter = [k(l), k(c1), has, k(v), k(c2)];
                            let a = type_keys(&pair.off, &unicode, &case)?;
                            let b = type_keys(&pair.on, &typewriter, &case)?;
                            if a != b {
                                return Err(Failure::new("order-divergence", format!("{c1:?} with sign {l:?}, then hasanta + sign key {v:?}, then {c2:?}: Unicode order/option off gives {a:?}, typewriter order/option on gives {b:?}"), case()));
                            }
                            let (ba, bb) = (pair.off.backspace(false).map_err(pf)?, pair.on.backspace(false).map_err(pf)?);
                            if ba.text != bb.text {
                                return Err(Failure::new("order-divergence", format!("one backspace after {a:?}: option off leaves {:?}, option on leaves {:?}", ba.text, bb.text), case()));
                            }
                            st.evals(1);
                        }
                    }
                }
            }
            st.label("vowel-via-hasanta-after-left-sign");
            Ok(())
        },
    );
}

pub fn run(run: &Run) {
    vowel_via_hasanta_after_a_left_sign(run);
    waiting_sign_inside_a_conjunct(run);
    wide_pass(run);
    let us = units();
    let n = us.len();
    let step = run.tier.pick(7, 1);
    // items: (bits, first unit or usize::MAX for the single-unit pass)
    let mut items: Vec<(u32, usize)> = vec![];
    for bits in 0..8u32 {
        items.push((bits, usize::MAX));
        for f in (0..n).step_by(step) {
            items.push((bits, f));
        }
    }
    run.exhaustive(
        "single-units-and-pairs",
        &items,
        |_| Sandbox::new(),
        |&(bits, first), st, sb| {
            let pair = mk_pair(bits, sb)?;
            if first == usize::MAX {
                for i in 0..n {
                    st.evals(1);
                    check_word(&pair, &us, &[i], st, bits)?;
                }
            } else {
                for i in 0..n {
                    st.evals(1);
                    check_word(&pair, &us, &[first, i], st, bits)?;
                }
            }
            Ok(())
        },
    );
    let us2 = units();
    run.sharded(
        "random-words-3-to-5-units",
        16,
        run.tier.pick(4000, 150000),
        1000,
        || (0u32..8, proptest::collection::vec(0..n, 3..6)),
        |_| Sandbox::new(),
        |(bits, word): &(u32, Vec<usize>), st, sb| {
            let pair = mk_pair(*bits, sb)?;
            check_word(&pair, &us2, word, st, *bits)
        },
    );
}

pub fn replay(_run: &Run, case: &Value) -> Result<(), Failure> {
    let bits = case["option_bits"].as_u64().unwrap_or(0) as u32;
    if let Some(l) = case.get("lone_waiting_sign_then_end") {
        let inv = layout_inverse(Layout::Synthetic);
        let sk = inv.get(l["sign"].as_str().unwrap_or_default()).copied().unwrap_or((0, 0));
        let ka = inv.get("\u{0995}").copied().unwrap_or((0, 0));
        let end = l["ending"].as_u64().unwrap_or(0);
        let sb = Sandbox::new();
        let pair = mk_pair(bits, &sb)?;
        let c = || case.clone();
        let pf = |p: crate::driver::PanicInfo| Failure::new(panic_kind(&p), p.to_string(), case.clone());
        type_keys(&pair.on, &[sk], &c)?;
        match end {
            0 => pair.on.finish().map_err(pf)?,
            1 => {
                pair.on.backspace(true).map_err(pf)?;
            }
            _ => {
                pair.on.backspace(false).map_err(pf)?;
            }
        }
        let ongoing = pair.on.ongoing();
        let t = type_keys(&pair.on, &[ka], &c)?;
        let want = type_keys(&pair.off, &[ka], &c)?;
        if ongoing || t != want {
            return Err(Failure::new("pending-sign-survives-the-end-of-the-word", format!("ongoing={ongoing}, next consonant {t:?}, expected {want:?}"), case.clone()));
        }
        return Ok(());
    }
    if let Some(w) = case["vowel_via_hasanta"].as_array() {
        let inv = layout_inverse(Layout::Synthetic);
        let g = |i: usize| -> K { inv.get(w[i].as_str().unwrap_or_default()).copied().unwrap_or((0, 0)) };
        let has = inv.get("\u{09CD}").copied().unwrap_or((0, 0));
        let sb = Sandbox::new();
        let pair = mk_pair(bits, &sb)?;
        let c = || case.clone();
        let a = type_keys(&pair.off, &[g(0), g(1), has, g(2), g(3)], &c)?;
        let b = type_keys(&pair.on, &[g(1), g(0), has, g(2), g(3)], &c)?;
        let pf = |p: crate::driver::PanicInfo| Failure::new(panic_kind(&p), p.to_string(), case.clone());
        let (ba, bb) = (pair.off.backspace(false).map_err(pf)?, pair.on.backspace(false).map_err(pf)?);
        if a != b || ba.text != bb.text {
            return Err(Failure::new("order-divergence", format!("{a:?} vs {b:?}; after one backspace {:?} vs {:?}", ba.text, bb.text), case.clone()));
        }
        return Ok(());
    }
    if let Some(w) = case.get("waiting_sign_inside_conjunct") {
        let inv = layout_inverse(Layout::Synthetic);
        let g = |v: &str| -> K { inv.get(v).copied().unwrap_or((0, 0)) };
        let (ck, sk, has, ka) = (g(w["consonant"].as_str().unwrap_or_default()), g(w["sign"].as_str().unwrap_or_default()), g("\u{09CD}"), g("\u{0995}"));
        let sb = Sandbox::new();
        let pair = mk_pair(bits, &sb)?;
        let c = || case.clone();
        let t1 = type_keys(&pair.on, &[sk, ck, has], &c)?;
        let want1 = type_keys(&pair.off, &[ck, has], &c)?;
        let b = pair.on.backspace(false).map_err(|p| Failure::new(panic_kind(&p), p.to_string(), case.clone()))?;
        let t2 = type_keys(&pair.on, &[ka], &c)?;
        let want2 = type_keys(&pair.off, &[ka], &c)?;
        if t1 != want1 || b.text != want1 || t2 != want2 {
            return Err(Failure::new("pending-sign-backspace", format!("{t1:?}/{want1:?}, after backspace {:?}, next consonant {t2:?}/{want2:?}", b.text), case.clone()));
        }
        return Ok(());
    }
    let word: Vec<usize> = serde_json::from_value(case["word"].clone()).unwrap_or_default();
    let sb = Sandbox::new();
    let pair = mk_pair(bits, &sb)?;
    let wide = units_over(true);
    let us = if case["unit_count"].as_u64() == Some(wide.len() as u64) { wide } else { units() };
    let mut st = Stats::new();
    check_word(&pair, &us, &word, &mut st, bits)
}
