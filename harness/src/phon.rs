//! Independent classification of phonetic candidates (shared by C07, C08, C16, C18).
//! Built only from the JSON data files, okkhor, emojicon's tables and the reference split.

use crate::model::{self, avro, avro_regex, curl_close, curl_open, data, emoji, levenshtein, ref_split, unjoin};
use regex::Regex;
use std::cell::RefCell;
use std::collections::HashMap;

thread_local! {
    static RX: RefCell<HashMap<String, Option<Regex>>> = RefCell::new(HashMap::new());
}

pub fn regex_for(word: &str) -> Option<Regex> {
    RX.with(|m| {
        let mut m = m.borrow_mut();
        if m.len() > 20000 {
            m.clear();
        }
        m.entry(word.to_string()).or_insert_with(|| avro_regex(word)).clone()
    })
}

/// Is `c` a dictionary word whose spelling matches the Avro pattern of `word`?
pub fn is_direct_dict(word: &str, c: &str) -> bool {
    data().dict.contains(c) && regex_for(word).map(|r| r.is_match(c)).unwrap_or(false)
}

pub struct TextInfo {
    pub text: String,
    pub pre: String,
    pub word: String,
    pub trail: String,
    /// converted (and possibly curled) wrapper
    pub p: String,
    pub t: String,
    pub translit_core: String,
    /// auto-correct entry of the word (core form), user before bundled
    pub ac_core: Option<String>,
    /// full candidate strings of the emoji the tables list for this text (wrapped names / bare emoticon emoji)
    pub emoji_cands: Vec<String>,
    pub is_emoticon: bool,
}

pub fn autocorrect_of(w: &str, user: &HashMap<String, String>) -> Option<String> {
    user.get(w).cloned().or_else(|| data().autocorrect.get(w).cloned())
}

/// Auto-correct values are Avro (Latin) text; a value already written in Bengali is used as it is.
pub fn ac_value(v: &str) -> String {
    if v.is_ascii() {
        avro(v)
    } else {
        v.to_string()
    }
}

pub fn analyse(text: &str, smart: bool, ansi: bool, user: &HashMap<String, String>) -> TextInfo {
    let (pre, word, trail) = ref_split(text, false);
    let (mut p, mut t) = (avro(&pre), avro(&trail));
    if smart && !word.is_empty() {
        p = curl_open(&p);
        t = curl_close(&t);
    }
    let ac_core = autocorrect_of(&word, user).map(|v| ac_value(&v));
    let e = emoji();
    let mut emoji_cands = vec![];
    let mut is_emoticon = false;
    if !ansi {
        if let Some(em) = e.emoticon_map.get(text) {
            emoji_cands.push(em.clone());
            is_emoticon = true;
        } else if let Some(list) = e.name_map.get(&word) {
            for em in list {
                emoji_cands.push(format!("{p}{em}{t}"));
            }
        }
    } else {
        is_emoticon = e.emoticon_map.contains_key(text);
    }
    TextInfo { text: text.to_string(), translit_core: avro(&word), pre, word, trail, p, t, ac_core, emoji_cands, is_emoticon }
}

#[derive(Clone, Debug, Default)]
pub struct Classes {
    pub autocorrect: bool,
    /// suffix-built from an auto-correct base
    pub from_ac_base: bool,
    /// feasible edit distances (direct dictionary match and/or suffix-built from a dictionary base)
    pub distances: Vec<usize>,
    pub direct_dict: bool,
    pub suffix_built: bool,
    pub emoji: bool,
    pub translit: bool,
    pub raw: bool,
    /// joining evidence for suffix-built: (class of last char of base, first char of suffix)
    pub joins: Vec<(char, char)>,
}

impl Classes {
    pub fn any(&self) -> bool {
        self.autocorrect || self.from_ac_base || !self.distances.is_empty() || self.emoji || self.translit || self.raw
    }
    pub fn any_non_emoji(&self) -> bool {
        self.autocorrect || self.from_ac_base || !self.distances.is_empty() || self.translit || self.raw
    }
    pub fn dictionary_derived(&self) -> bool {
        !self.distances.is_empty() || self.from_ac_base
    }
}

pub fn unwrap<'a>(info: &TextInfo, cand: &'a str) -> Option<&'a str> {
    if cand.len() >= info.p.len() + info.t.len() && cand.starts_with(&info.p) && cand.ends_with(&info.t) {
        Some(&cand[info.p.len()..cand.len() - info.t.len()])
    } else {
        None
    }
}

pub fn classify(info: &TextInfo, cand: &str, user: &HashMap<String, String>) -> Classes {
    let mut c = Classes::default();
    if cand == info.text {
        c.raw = true;
    }
    if info.emoji_cands.iter().any(|e| e == cand) {
        c.emoji = true;
    }
    let core = match unwrap(info, cand) {
        Some(core) => core,
        None => return c,
    };
    if core == info.translit_core {
        c.translit = true;
    }
    if info.ac_core.as_deref() == Some(core) {
        c.autocorrect = true;
    }
    let w = &info.word;
    if w.is_empty() {
        return c;
    }
    if is_direct_dict(w, core) {
        c.direct_dict = true;
        c.distances.push(levenshtein(&info.translit_core, core));
    }
    if w.len() > 2 && w.is_ascii() {
        let d = data();
        for i in 1..w.len() {
            let (k, s) = w.split_at(i);
            if s.len() > d.max_suffix_len {
                continue;
            }
            if let Some(sbn) = d.suffix.get(s) {
                for b in unjoin(core, sbn) {
                    let mut hit = false;
                    if autocorrect_of(k, user).map(|v| ac_value(&v)).as_deref() == Some(b.as_str()) {
                        c.from_ac_base = true;
                        hit = true;
                    }
                    if is_direct_dict(k, &b) {
                        c.distances.push(levenshtein(&avro(k), &b));
                        hit = true;
                    }
                    if hit {
                        c.suffix_built = true;
                        c.joins.push((join_class(b.chars().last().unwrap_or_default()), join_class(sbn.chars().next().unwrap_or_default())));
                    }
                }
            }
        }
    }
    c.distances.sort();
    c.distances.dedup();
    c
}

/// coarse class of a character for the joining-rule coverage matrix
pub fn join_class(c: char) -> char {
    if c == model::KHANDA_TA {
        't'
    } else if c == model::ANUSVARA {
        'n'
    } else if model::is_any_sign(c) {
        's'
    } else if model::is_indep_vowel(c) {
        'v'
    } else if model::is_consonant(c) {
        'c'
    } else {
        'o'
    }
}

/// Direct candidates (dictionary match or the auto-correct entry) among the cores of a list.
pub fn direct_cores(info: &TextInfo, cands: &[String]) -> Vec<String> {
    let mut out = vec![];
    for c in cands {
        if let Some(core) = unwrap(info, c) {
            if info.word.is_empty() {
                continue;
            }
            // dictionary sections are keyed by lower-case Latin prefixes: a dictionary look-up only
            // exists for words that start with a lower-case letter (DESIGN section 6)
            let looked_up = info.word.starts_with(|c: char| c.is_ascii_lowercase());
            if info.ac_core.as_deref() == Some(core) || (looked_up && is_direct_dict(&info.word, core)) {
                if !out.iter().any(|x: &String| x == core) {
                    out.push(core.to_string());
                }
            }
        }
    }
    out
}
