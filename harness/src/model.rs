//! Reference models and independently read data.  Nothing in here calls into riti.
//! All Bengali literals are written as \u{..} escapes (see DESIGN 6a).

use crate::driver::data_dir;
use okkhor::parser::Parser;
use regex::Regex;
use std::collections::{HashMap, HashSet};
use std::sync::OnceLock;

pub const HASANTA: char = '\u{09CD}';
pub const CHANDRA: char = '\u{0981}';
pub const ZWNJ: char = '\u{200C}';
pub const ZWJ: char = '\u{200D}';
pub const LENGTH_MARK: char = '\u{09D7}';
pub const RA: char = '\u{09B0}';
pub const YA: char = '\u{09AF}';
pub const YYA: char = '\u{09DF}';
pub const KHANDA_TA: char = '\u{09CE}';
pub const TA: char = '\u{09A4}';
pub const ANUSVARA: char = '\u{0982}';
pub const NGA: char = '\u{0999}';
pub const VOCALIC_RR_SIGN: char = '\u{09C4}';
pub const ZOFOLA: &str = "\u{09CD}\u{09AF}";
pub const ROFOLA: &str = "\u{09CD}\u{09B0}";
pub const REPH: &str = "\u{09B0}\u{09CD}";

/// Independent vowels of the Bengali block (Unicode chart U+0985..U+0994, U+09E0, U+09E1).
pub fn is_indep_vowel(c: char) -> bool {
    matches!(c, '\u{0985}'..='\u{098C}' | '\u{098F}' | '\u{0990}' | '\u{0993}' | '\u{0994}' | '\u{09E0}' | '\u{09E1}')
}
/// Dependent vowel signs that have an independent form riti maps (U+09BE..U+09C3, 09C7, 09C8, 09CB, 09CC).
pub fn is_sign(c: char) -> bool {
    matches!(c, '\u{09BE}'..='\u{09C3}' | '\u{09C7}' | '\u{09C8}' | '\u{09CB}' | '\u{09CC}')
}
/// Any dependent vowel sign incl. VOCALIC RR (U+09C4).
pub fn is_any_sign(c: char) -> bool {
    is_sign(c) || c == VOCALIC_RR_SIGN
}
/// Consonants (U+0995..U+09B9 assigned, khanda ta, RRA, RHA, YYA).
pub fn is_consonant(c: char) -> bool {
    (matches!(c, '\u{0995}'..='\u{09B9}') && !matches!(c, '\u{09A9}' | '\u{09B1}' | '\u{09B3}'..='\u{09B5}'))
        || matches!(c, '\u{09CE}' | '\u{09DC}' | '\u{09DD}' | '\u{09DF}')
}
pub fn sign_to_vowel(c: char) -> Option<char> {
    Some(match c {
        '\u{09BE}' => '\u{0986}',
        '\u{09BF}' => '\u{0987}',
        '\u{09C0}' => '\u{0988}',
        '\u{09C1}' => '\u{0989}',
        '\u{09C2}' => '\u{098A}',
        '\u{09C3}' => '\u{098B}',
        '\u{09C4}' => '\u{09E0}',
        '\u{09C7}' => '\u{098F}',
        '\u{09C8}' => '\u{0990}',
        '\u{09CB}' => '\u{0993}',
        '\u{09CC}' => '\u{0994}',
        _ => return None,
    })
}
/// "Final vowel" of the joining rule: independent vowels and vowel signs (DESIGN section 6).
/// Restricted to the characters the anchors' class names; U+098C/09E1/09E0 differ between
/// readings and are never the last character of a dictionary word, so they are left out of
/// generation rather than judged.
pub fn is_vowelish(c: char) -> bool {
    matches!(c, '\u{0985}'..='\u{098C}' | '\u{098F}' | '\u{0990}' | '\u{0993}' | '\u{0994}' | '\u{09E1}')
        || is_sign(c)
}
pub fn is_bengali_block(c: char) -> bool {
    ('\u{0980}'..='\u{09FF}').contains(&c)
}

pub fn levenshtein(a: &str, b: &str) -> usize {
    let a: Vec<char> = a.chars().collect();
    let b: Vec<char> = b.chars().collect();
    let mut prev: Vec<usize> = (0..=b.len()).collect();
    for i in 1..=a.len() {
        let mut cur = vec![i; b.len() + 1];
        for j in 1..=b.len() {
            cur[j] = (prev[j] + 1)
                .min(cur[j - 1] + 1)
                .min(prev[j - 1] + usize::from(a[i - 1] != b[j - 1]));
        }
        prev = cur;
    }
    prev[b.len()]
}

// ---------------------------------------------------------------------------------------------
// Avro transliteration (okkhor, a separate crate with a public API)

thread_local! {
    static PHONETIC: Parser = Parser::new_phonetic();
    static REGEX_PARSER: Parser = Parser::new_regex();
}

pub fn avro(text: &str) -> String {
    PHONETIC.with(|p| p.convert(text))
}

pub fn avro_regex_source(word: &str) -> String {
    REGEX_PARSER.with(|p| p.convert_regex(word))
}

pub fn avro_regex(word: &str) -> Option<Regex> {
    Regex::new(&avro_regex_source(word)).ok()
}

// ---------------------------------------------------------------------------------------------
// meta-character split, transcribed from the doc comment and examples of the splitter

pub const META: &str = "-]~!@#%&*()_=+[{}'\";<>/?|.,\u{0964}";

/// (preceding, word, trailing).  Trailing: scanning from the right, meta characters are taken;
/// a back-tick escapes: it joins the trailing part together with the meta character (or colon)
/// directly before it; without `include_colon` a colon is only trailing when escaped that way.
pub fn ref_split(input: &str, include_colon: bool) -> (String, String, String) {
    let chars: Vec<char> = input.chars().collect();
    let first = match chars.iter().position(|c| !META.contains(*c)) {
        Some(i) => i,
        None => return (input.to_string(), String::new(), String::new()),
    };
    let mut end = chars.len();
    let mut i = chars.len();
    let mut pending_escape = false;
    while i > first {
        let c = chars[i - 1];
        if !pending_escape && c == '`' {
            pending_escape = true;
        } else if META.contains(c) || (c == ':' && (include_colon || pending_escape)) {
            pending_escape = false;
            end = i - 1;
        } else {
            break;
        }
        i -= 1;
    }
    (
        chars[..first].iter().collect(),
        chars[first..end].iter().collect(),
        chars[end..].iter().collect(),
    )
}

/// Self-test of `ref_split` against the examples pinned by riti's own unit test.
pub fn ref_split_selftest() -> Result<(), String> {
    let ex: &[(&str, bool, (&str, &str, &str))] = &[
        ("[][][][]", false, ("[][][][]", "", "")),
        ("t*", false, ("", "t", "*")),
        ("1", false, ("", "1", "")),
        ("#\"percent%sign\"#", false, ("#\"", "percent%sign", "\"#")),
        ("text", false, ("", "text", "")),
        ("kt:", false, ("", "kt:", "")),
        ("kt:", true, ("", "kt", ":")),
        ("kt:`", false, ("", "kt", ":`")),
        ("kt:`", true, ("", "kt", ":`")),
        ("kt::`", false, ("", "kt:", ":`")),
        ("kt::`", true, ("", "kt", "::`")),
        ("kt``", false, ("", "kt``", "")),
        ("kt:``", false, ("", "kt:``", "")),
    ];
    for (inp, colon, want) in ex {
        let got = ref_split(inp, *colon);
        if (got.0.as_str(), got.1.as_str(), got.2.as_str()) != *want {
            return Err(format!("ref_split({inp:?},{colon}) = {got:?}, expected {want:?}"));
        }
    }
    Ok(())
}

pub fn curl_open(s: &str) -> String {
    s.replace('\'', "\u{2018}").replace('"', "\u{201C}")
}
pub fn curl_close(s: &str) -> String {
    s.replace('\'', "\u{2019}").replace('"', "\u{201D}")
}
pub fn uncurl(s: &str) -> String {
    s.replace(['\u{2018}', '\u{2019}'], "'").replace(['\u{201C}', '\u{201D}'], "\"")
}

// ---------------------------------------------------------------------------------------------
// bundled data, read from the JSON files independently

pub struct Data {
    /// section name -> words in file order
    pub sections: Vec<(String, Vec<String>)>,
    pub dict: HashSet<String>,
    pub dict_nozwnj: HashSet<String>,
    pub all_words: Vec<String>,
    pub suffix: HashMap<String, String>,
    pub suffix_keys: Vec<String>,
    pub autocorrect: HashMap<String, String>,
    pub autocorrect_keys: Vec<String>,
    pub max_suffix_len: usize,
}

fn load_map(name: &str) -> HashMap<String, String> {
    let v: serde_json::Value = serde_json::from_str(
        &std::fs::read_to_string(format!("{}/{name}", data_dir())).unwrap_or_else(|_| panic!("{name}")),
    )
    .unwrap_or_else(|_| panic!("{name} json"));
    v.as_object()
        .unwrap()
        .iter()
        .map(|(k, v)| (k.clone(), v.as_str().unwrap_or_default().to_string()))
        .collect()
}

impl Data {
    fn load() -> Data {
        let v: serde_json::Value = serde_json::from_str(
            &std::fs::read_to_string(format!("{}/dictionary.json", data_dir())).expect("dictionary"),
        )
        .expect("dictionary json");
        let mut sections: Vec<(String, Vec<String>)> = v
            .as_object()
            .unwrap()
            .iter()
            .map(|(k, v)| {
                (
                    k.clone(),
                    v.as_array()
                        .unwrap()
                        .iter()
                        .map(|s| s.as_str().unwrap().to_string())
                        .collect(),
                )
            })
            .collect();
        sections.sort_by(|a, b| a.0.cmp(&b.0));
        let all_words: Vec<String> = sections.iter().flat_map(|(_, w)| w.iter().cloned()).collect();
        let dict: HashSet<String> = all_words.iter().cloned().collect();
        let dict_nozwnj = all_words.iter().map(|w| w.replace(ZWNJ, "")).collect();
        let suffix = load_map("suffix.json");
        let mut suffix_keys: Vec<String> = suffix.keys().cloned().collect();
        suffix_keys.sort();
        let autocorrect = load_map("autocorrect.json");
        let mut autocorrect_keys: Vec<String> = autocorrect.keys().cloned().collect();
        autocorrect_keys.sort();
        let max_suffix_len = suffix_keys.iter().map(|k| k.len()).max().unwrap_or(0);
        Data {
            sections,
            dict,
            dict_nozwnj,
            all_words,
            suffix,
            suffix_keys,
            autocorrect,
            autocorrect_keys,
            max_suffix_len,
        }
    }
}

pub fn data() -> &'static Data {
    static D: OnceLock<Data> = OnceLock::new();
    D.get_or_init(Data::load)
}

// ---------------------------------------------------------------------------------------------
// suffix joining (C08 / C09)

/// য় between a final vowel (sign) and an initial vowel sign; final ৎ -> ত; final ং -> ঙ; else
/// plain concatenation.
pub fn join(base: &str, suffix_bn: &str) -> String {
    let mut out = base.to_string();
    let last = base.chars().last();
    let first = suffix_bn.chars().next();
    match (last, first) {
        (Some(l), Some(f)) if is_vowelish(l) && is_any_sign(f) => out.push(YYA),
        (Some(KHANDA_TA), _) => {
            out.pop();
            out.push(TA);
        }
        (Some(ANUSVARA), _) => {
            out.pop();
            out.push(NGA);
        }
        _ => {}
    }
    out.push_str(suffix_bn);
    out
}

/// All bases `b` with `join(b, suffix_bn) == candidate`.
pub fn unjoin(candidate: &str, suffix_bn: &str) -> Vec<String> {
    let mut out = vec![];
    if let Some(stem) = candidate.strip_suffix(suffix_bn) {
        let mut cands: Vec<String> = vec![stem.to_string()];
        if let Some(x) = stem.strip_suffix(YYA) {
            cands.push(x.to_string());
        }
        if let Some(x) = stem.strip_suffix(TA) {
            cands.push(format!("{x}{KHANDA_TA}"));
        }
        if let Some(x) = stem.strip_suffix(NGA) {
            cands.push(format!("{x}{ANUSVARA}"));
        }
        for b in cands {
            if !b.is_empty() && join(&b, suffix_bn) == candidate {
                out.push(b);
            }
        }
    }
    out
}

// ---------------------------------------------------------------------------------------------
// emoji tables (emojicon's own tables through its `internal` feature)

pub struct Emoji {
    pub emoticons: Vec<(String, String)>,
    pub names: Vec<(String, Vec<String>)>,
    pub bn_names: Vec<(String, Vec<String>)>,
    pub emoticon_map: HashMap<String, String>,
    pub name_map: HashMap<String, Vec<String>>,
    pub bn_map: HashMap<String, Vec<String>>,
    /// every code point that occurs in an emoji of any table and is not ASCII / Bengali
    pub inventory: HashSet<char>,
    pub all_emoji: HashSet<String>,
}

pub fn emoji() -> &'static Emoji {
    static E: OnceLock<Emoji> = OnceLock::new();
    E.get_or_init(|| {
        let mut emoticons: Vec<(String, String)> = emojicon::internal::emoticons()
            .iter()
            .map(|(k, v)| (k.to_string(), v.to_string()))
            .collect();
        emoticons.sort();
        let mut names: Vec<(String, Vec<String>)> = emojicon::internal::emojis()
            .iter()
            .map(|(k, v)| (k.to_string(), v.iter().map(|s| s.to_string()).collect()))
            .collect();
        names.sort();
        let mut bn_names: Vec<(String, Vec<String>)> = emojicon::internal::bn_emojis()
            .iter()
            .map(|(k, v)| (k.to_string(), v.iter().map(|s| s.to_string()).collect()))
            .collect();
        bn_names.sort();
        let mut inventory = HashSet::new();
        let mut all_emoji = HashSet::new();
        for e in emoticons
            .iter()
            .map(|(_, v)| v)
            .chain(names.iter().flat_map(|(_, v)| v.iter()))
            .chain(bn_names.iter().flat_map(|(_, v)| v.iter()))
        {
            all_emoji.insert(e.clone());
            for c in e.chars() {
                if !c.is_ascii() && !is_bengali_block(c) {
                    inventory.insert(c);
                }
            }
        }
        Emoji {
            emoticon_map: emoticons.iter().cloned().collect(),
            name_map: names.iter().cloned().collect(),
            bn_map: bn_names.iter().cloned().collect(),
            emoticons,
            names,
            bn_names,
            inventory,
            all_emoji,
        }
    })
}

pub fn bijoy(text: &str) -> String {
    poriborton::bijoy2000::unicode_to_bijoy(text)
}

// ---------------------------------------------------------------------------------------------
// fixed-layout composition rules (C12) and old-style reph (C13), written from the statements

/// Punctuation after which automatic vowel forming applies — only the undisputed members.
pub const PUNCT_SURE: &str = "`~!@#$%^+*-_=\\|\"/;:,./?><()[]{}";
/// Characters whose class the statements leave open; a step whose *previous* character is one of
/// these (or whose key value is U+09C4 after one of them) is not judged.
pub fn class_open(c: char) -> bool {
    matches!(c, '\'' | '&' | '\u{0964}' | '\u{0965}' | '\u{09CE}' | '\u{09E0}' | '\u{09E1}' | '\u{098C}' | '\u{09C4}' | '\u{09E2}' | '\u{09E3}')
}

#[derive(Clone, Copy, Debug, PartialEq, Eq, Hash)]
pub enum Rule {
    Append,
    ZofolaJoiner,
    Zofola,
    AutoVowel,
    ChandraSwap,
    HasantaSign,
    TraditionalKar,
    SignPlain,
    DoubleHasanta,
    LengthMark,
    Reph,
    Backspace,
    Unjudged,
}

#[derive(Clone, Copy, Debug)]
pub struct FixedOpts {
    pub vowel: bool,
    pub chandra: bool,
    pub kar: bool,
    pub reph: bool,
}

/// Expected text after a key with value `value` when the text before is `prev`
/// (old vowel-sign order off).  `None` text = judged elsewhere / not judged.
pub fn compose_step(prev: &str, value: &str, o: FixedOpts) -> (Rule, Option<String>) {
    let last = prev.chars().last();
    let mut out = prev.to_string();
    if value == ZOFOLA {
        let mut it = prev.chars().rev();
        if it.next() == Some(RA) && it.next() != Some(HASANTA) {
            out.push(ZWJ);
            out.push_str(value);
            return (Rule::ZofolaJoiner, Some(out));
        }
        out.push_str(value);
        return (Rule::Zofola, Some(out));
    }
    if value == REPH && o.reph {
        return (Rule::Reph, None);
    }
    if let Some(l) = last {
        if class_open(l) {
            return (Rule::Unjudged, None);
        }
    }
    let single = value.chars().count() == 1;
    let c = value.chars().next().unwrap_or_default();
    if single && is_any_sign(c) {
        let after_vowelish = last.map(|l| is_indep_vowel(l) || is_any_sign(l)).unwrap_or(false);
        let after_punct = last.map(|l| PUNCT_SURE.contains(l)).unwrap_or(false);
        if o.vowel && (prev.is_empty() || after_vowelish || after_punct) {
            out.push(sign_to_vowel(c).unwrap());
            return (Rule::AutoVowel, Some(out));
        }
        if o.chandra && last == Some(CHANDRA) {
            out.pop();
            out.push(c);
            out.push(CHANDRA);
            return (Rule::ChandraSwap, Some(out));
        }
        if last == Some(HASANTA) {
            out.pop();
            out.push(sign_to_vowel(c).unwrap());
            return (Rule::HasantaSign, Some(out));
        }
        if o.kar && last.map(is_consonant).unwrap_or(false) && matches!(c, '\u{09C1}' | '\u{09C2}' | '\u{09C3}') {
            out.push(ZWNJ);
            out.push(c);
            return (Rule::TraditionalKar, Some(out));
        }
        out.push(c);
        return (Rule::SignPlain, Some(out));
    }
    if single && c == HASANTA && last == Some(HASANTA) {
        out.push(ZWNJ);
        return (Rule::DoubleHasanta, Some(out));
    }
    if single && c == LENGTH_MARK && last == Some(HASANTA) {
        out.pop();
        out.push('\u{0994}');
        return (Rule::LengthMark, Some(out));
    }
    out.push_str(value);
    (Rule::Append, Some(out))
}

/// Position where old-style reph belongs in a well-formed text; `None` if `p` is not in the
/// syllable grammar  Unit* ; Unit = Cluster (Sign|Vowel)? Chandra? | Vowel Chandra? | Other ;
/// Cluster = C (Hasanta C)*.
pub fn reph_position(p: &str) -> Option<usize> {
    let cs: Vec<char> = p.chars().collect();
    let n = cs.len();
    if cs.iter().any(|c| class_open(*c)) {
        return None; // a character whose class the statement leaves open: conservation only
    }
    let mut i = 0;
    let mut last_cluster: Option<usize> = None;
    let mut last_unit_is_final_syllable = false;
    while i < n {
        let c = cs[i];
        if is_consonant(c) && c != KHANDA_TA {
            let st = i;
            i += 1;
            // ra + ZWJ + hasanta + ya is the engine's own spelling of ra with ya-phala (zo-fola key after a bare ra): a
            // well-formed conjunct when it stands EARLIER in the word; as the final conjunct it is left unjudged
            let mut joiner_inside = false;
            if c == RA && i + 2 < n && cs[i] == ZWJ && cs[i + 1] == HASANTA && cs[i + 2] == YA {
                i += 3;
                joiner_inside = true;
            }
            while i + 1 < n && cs[i] == HASANTA && is_consonant(cs[i + 1]) && cs[i + 1] != KHANDA_TA {
                i += 2;
            }
            if i < n && (is_sign(cs[i]) || is_indep_vowel(cs[i])) {
                i += 1;
            }
            if i < n && cs[i] == CHANDRA {
                i += 1;
            }
            last_cluster = Some(st);
            last_unit_is_final_syllable = i == n;
            if joiner_inside && i == n {
                return None;
            }
        } else if is_indep_vowel(c) {
            i += 1;
            if i < n && cs[i] == CHANDRA {
                i += 1;
            }
            last_cluster = None;
            last_unit_is_final_syllable = false;
        } else if c == HASANTA || is_any_sign(c) || c == CHANDRA || c == ZWNJ || c == ZWJ || c == LENGTH_MARK || class_open(c) {
            return None;
        } else {
            i += 1;
            last_cluster = None;
            last_unit_is_final_syllable = false;
        }
    }
    Some(match last_cluster {
        Some(st) if last_unit_is_final_syllable => st,
        _ => n,
    })
}

/// Conservation (always) and placement (well-formed `p`) of the reph key's effect.
pub fn reph_check(p: &str, now: &str) -> Result<bool, String> {
    let pc: Vec<char> = p.chars().collect();
    let nc: Vec<char> = now.chars().collect();
    let conserved = nc.len() == pc.len() + 2
        && (0..=pc.len()).any(|i| nc[..i] == pc[..i] && nc[i] == RA && nc[i + 1] == HASANTA && nc[i + 2..] == pc[i..]);
    if !conserved {
        return Err(format!("conservation: {p:?} became {now:?}, which is not {p:?} with one reph inserted"));
    }
    match reph_position(p) {
        Some(pos) => {
            let mut e: String = pc[..pos].iter().collect();
            e.push_str(REPH);
            e.extend(pc[pos..].iter());
            if e != now {
                return Err(format!("placement: {p:?} became {now:?}, expected {e:?}"));
            }
            Ok(pos != pc.len())
        }
        None => Ok(false),
    }
}
