//! Running the libFuzzer targets of /verif/fuzz as sub-processes (C19 quick/thorough, C01 thorough).

use rayon::prelude::*;
use std::path::{Path, PathBuf};
use std::process::Command;

/// Directory of the cargo-fuzz crate.  Always /verif/fuzz for the registered checks; `VERIF_FUZZ_DIR` exists only so
/// that a scratch copy (built against a scratch worktree) can be used in sensitivity experiments.
pub fn fuzz_dir() -> &'static str {
    static D: std::sync::OnceLock<String> = std::sync::OnceLock::new();
    D.get_or_init(|| std::env::var("VERIF_FUZZ_DIR").unwrap_or_else(|_| "/verif/fuzz".to_string()))
}
pub fn ffi_bin() -> &'static str {
    static D: std::sync::OnceLock<String> = std::sync::OnceLock::new();
    D.get_or_init(|| format!("{}/target/x86_64-unknown-linux-gnu/release/ffi", fuzz_dir()))
}
pub fn history_bin() -> &'static str {
    static D: std::sync::OnceLock<String> = std::sync::OnceLock::new();
    D.get_or_init(|| format!("{}/target-nosan/x86_64-unknown-linux-gnu/release/history", fuzz_dir()))
}

#[derive(Debug, Default)]
pub struct Outcome {
    pub ok: bool,
    pub executed: u64,
    pub artifacts: Vec<PathBuf>,
    pub report: String,
    pub timed_out: bool,
    /// libFuzzer "slow unit" notes (not failures; removed)
    pub slow_units: u64,
    /// per-unit time limit hit during the campaign but the input runs fine on its own (machine load; removed)
    pub timeouts_not_reproduced: u64,
    /// out-of-memory reports (inconclusive, never a violation)
    pub oom: u64,
}

/// Sort the files the fuzzer wrote since `since` into failures and notes.  A slow-unit file is a convenience
/// note of libFuzzer; a timeout file counts only if the input, run alone, fails or exceeds the limit again; an
/// out-of-memory file is inconclusive.  Returns the artifacts that remain failures.
fn triage(bin: &str, prefix: &str, since: std::time::SystemTime, allow_data: bool, o: &mut Outcome) -> Vec<PathBuf> {
    let mut real = vec![];
    for a in artifacts_with_prefix(prefix) {
        let fresh = std::fs::metadata(&a).and_then(|m| m.modified()).map(|m| m >= since).unwrap_or(false);
        let name = a.file_name().map(|n| n.to_string_lossy().to_string()).unwrap_or_default();
        let kind = name.strip_prefix(Path::new(prefix).file_name().map(|s| s.to_string_lossy().to_string()).unwrap_or_default().as_str()).unwrap_or(&name).to_string();
        if !fresh {
            real.push(a);
            continue;
        }
        if kind.starts_with("slow-unit-") {
            let _ = std::fs::remove_file(&a);
            o.slow_units += 1;
        } else if kind.starts_with("timeout-") {
            let (ok, _) = run_one(bin, &a, allow_data);
            if ok {
                let _ = std::fs::remove_file(&a);
                o.timeouts_not_reproduced += 1;
            } else {
                real.push(a);
            }
        } else if kind.starts_with("oom-") {
            o.oom += 1;
        } else {
            real.push(a);
        }
    }
    real
}

fn artifacts_with_prefix(prefix: &str) -> Vec<PathBuf> {
    let p = Path::new(prefix);
    let dir = p.parent().unwrap_or(Path::new("."));
    let stem = p.file_name().map(|s| s.to_string_lossy().to_string()).unwrap_or_default();
    let mut v: Vec<PathBuf> = std::fs::read_dir(dir)
        .map(|d| d.filter_map(|e| e.ok()).map(|e| e.path()).filter(|f| f.file_name().map(|n| n.to_string_lossy().starts_with(&stem)).unwrap_or(false)).collect())
        .unwrap_or_default();
    v.sort();
    v
}

fn interesting(out: &str) -> String {
    let mut keep = vec![];
    for l in out.lines() {
        if l.contains("ORACLE-FAILURE") || l.contains("ERROR:") || l.contains("SUMMARY:") || l.contains("panicked") || l.contains("assertion") || l.contains("deadly signal") || l.contains("Test unit written") || l.contains("left:") || l.contains("right:") {
            keep.push(l.to_string());
        }
    }
    keep.truncate(12);
    keep.join("\n")
}

/// Execute every file of each directory exactly once (`-runs=0`), one process per directory.
pub fn run_dirs_once(bin: &str, dirs: &[(PathBuf, bool)], artifact_prefix: &str, xdg_root: &Path) -> Outcome {
    run_dirs_once_with(bin, dirs, artifact_prefix, xdg_root, "")
}

/// `extra_asan`: further ASAN_OPTIONS, e.g. `quarantine_size_mb=0:thread_local_quarantine_size_kb=0` - with the
/// quarantine switched off freed blocks are handed out again at once, as a production allocator does; ownership
/// mistakes that depend on an address being re-used only show then (at the price of weaker use-after-free detection,
/// which is why this is a second pass and not the only one).
pub fn run_dirs_once_with(bin: &str, dirs: &[(PathBuf, bool)], artifact_prefix: &str, xdg_root: &Path, extra_asan: &str) -> Outcome {
    let asan = if extra_asan.is_empty() { "detect_leaks=1:abort_on_error=0:symbolize=1".to_string() } else { format!("detect_leaks=1:abort_on_error=0:symbolize=1:{extra_asan}") };
    let results: Vec<(bool, u64, String)> = dirs
        .par_iter()
        .enumerate()
        .map(|(i, (dir, allow_data))| {
            let n = std::fs::read_dir(dir).map(|d| d.count()).unwrap_or(0) as u64;
            let xdg = xdg_root.join(format!("fz{i}"));
            let out = Command::new(bin)
                .arg(dir)
                .arg("-runs=0")
                .arg("-rss_limit_mb=4096")
                .arg("-timeout=60")
                .arg("-report_slow_units=3600")
                .arg(format!("-artifact_prefix={artifact_prefix}"))
                .env("VERIF_FUZZ_XDG", &xdg)
                .env("VERIF_FUZZ_DATA", if *allow_data { "allow" } else { "never" })
                .env("ASAN_OPTIONS", &asan)
                .env("RUST_BACKTRACE", "0")
                .output();
            let _ = std::fs::remove_dir_all(&xdg);
            match out {
                Ok(o) => {
                    let text = format!("{}{}", String::from_utf8_lossy(&o.stdout), String::from_utf8_lossy(&o.stderr));
                    (o.status.success(), n, if o.status.success() { String::new() } else { interesting(&text) })
                }
                Err(e) => (false, 0, format!("cannot run {bin}: {e}")),
            }
        })
        .collect();
    let mut o = Outcome { ok: true, ..Default::default() };
    for (ok, n, rep) in results {
        o.executed += n;
        if !ok {
            o.ok = false;
            o.report.push_str(&rep);
            o.report.push('\n');
        }
    }
    o.artifacts = artifacts_with_prefix(artifact_prefix);
    o
}

/// Coverage-guided campaign: `jobs` independent libFuzzer processes, `runs` executions each.
pub fn campaign(bin: &str, corpus: &Path, runs: u64, jobs: usize, seed: u64, max_len: usize, artifact_prefix: &str, xdg_root: &Path, allow_data: bool) -> Outcome {
    campaign_env(bin, corpus, runs, jobs, seed, max_len, artifact_prefix, xdg_root, allow_data, &[])
}

pub fn oracle_bin() -> &'static str {
    static D: std::sync::OnceLock<String> = std::sync::OnceLock::new();
    D.get_or_init(|| format!("{}-oracle/target/x86_64-unknown-linux-gnu/release/oracle", fuzz_dir()))
}

/// As `campaign`, with further environment variables for the target (the `oracle` target reads its mode there).
#[allow(clippy::too_many_arguments)]
pub fn campaign_env(bin: &str, corpus: &Path, runs: u64, jobs: usize, seed: u64, max_len: usize, artifact_prefix: &str, xdg_root: &Path, allow_data: bool, envs: &[(&str, &str)]) -> Outcome {
    let started = std::time::SystemTime::now() - std::time::Duration::from_secs(2);
    let results: Vec<(bool, String)> = (0..jobs)
        .into_par_iter()
        .map(|j| {
            let xdg = xdg_root.join(format!("camp{j}"));
            let own = corpus.join(format!("job{j}"));
            let _ = std::fs::create_dir_all(&own);
            let s = (seed.wrapping_mul(1000003).wrapping_add(j as u64) % 0xffff_fffe) + 1; // 0 means random
            let out = Command::new(bin)
                .arg(&own)
                .arg(corpus.join("seeds"))
                .arg(format!("-runs={runs}"))
                .arg(format!("-seed={s}"))
                .arg(format!("-max_len={max_len}"))
                .arg("-len_control=0")
                .arg("-rss_limit_mb=4096")
                .arg("-timeout=60")
                .arg("-report_slow_units=3600")
                .arg("-print_final_stats=1")
                .arg(format!("-artifact_prefix={artifact_prefix}"))
                .env("VERIF_FUZZ_XDG", &xdg)
                .env("VERIF_SCRATCH", &xdg)
                .envs(envs.iter().map(|(k, v)| (k.to_string(), v.to_string())))
                .env("VERIF_FUZZ_DATA", if allow_data { "allow" } else { "never" })
                .env("ASAN_OPTIONS", "detect_leaks=1:abort_on_error=0:symbolize=1")
                .env("RUST_BACKTRACE", "0")
                .output();
            let _ = std::fs::remove_dir_all(&xdg);
            match out {
                Ok(o) => {
                    let text = format!("{}{}", String::from_utf8_lossy(&o.stdout), String::from_utf8_lossy(&o.stderr));
                    // a job stopped by the per-unit time limit or the memory limit alone is judged by triage()
                    let only_limit = !o.status.success() && (text.contains("ERROR: libFuzzer: timeout") || text.contains("ERROR: libFuzzer: out-of-memory")) && !text.contains("deadly signal") && !text.contains("panicked");
                    (o.status.success() || only_limit, if o.status.success() { String::new() } else { interesting(&text) })
                }
                Err(e) => (false, format!("cannot run {bin}: {e}")),
            }
        })
        .collect();
    let mut o = Outcome { ok: true, executed: runs * jobs as u64, ..Default::default() };
    for (ok, rep) in results {
        if !ok {
            o.ok = false;
            o.report.push_str(&rep);
            o.report.push('\n');
        }
    }
    o.artifacts = triage(bin, artifact_prefix, started, allow_data, &mut o);
    o
}

/// Run one saved input; returns (ok, report).
pub fn run_one(bin: &str, file: &Path, allow_data: bool) -> (bool, String) {
    let xdg = crate::driver::scratch_root().join("fz-one");
    let scratch = crate::driver::scratch_root().join("fz-one-artifacts");
    let _ = std::fs::create_dir_all(&scratch);
    let out = Command::new(bin)
        .arg(file)
        .arg("-timeout=180")
        .arg("-report_slow_units=3600")
        .arg(format!("-artifact_prefix={}/", scratch.display()))
        .env("VERIF_FUZZ_XDG", &xdg)
        .env("VERIF_FUZZ_DATA", if allow_data { "allow" } else { "never" })
        .env("ASAN_OPTIONS", "detect_leaks=1:abort_on_error=0:symbolize=1")
        .env("RUST_BACKTRACE", "0")
        .output();
    match out {
        Ok(o) => {
            let text = format!("{}{}", String::from_utf8_lossy(&o.stdout), String::from_utf8_lossy(&o.stderr));
            (o.status.success(), interesting(&text))
        }
        Err(e) => (false, format!("cannot run {bin}: {e}")),
    }
}
