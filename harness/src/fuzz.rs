//! Running the libFuzzer targets of /verif/fuzz as sub-processes (C19 quick/thorough, C01 thorough).

use rayon::prelude::*;
use std::path::{Path, PathBuf};
use std::process::Command;

pub const FFI_BIN: &str = "/verif/fuzz/target/x86_64-unknown-linux-gnu/release/ffi";
pub const HISTORY_BIN: &str = "/verif/fuzz/target-nosan/x86_64-unknown-linux-gnu/release/history";

#[derive(Debug, Default)]
pub struct Outcome {
    pub ok: bool,
    pub executed: u64,
    pub artifacts: Vec<PathBuf>,
    pub report: String,
    pub timed_out: bool,
}

fn artifacts_with_prefix(prefix: &str) -> Vec<PathBuf> {
    let p = Path::new(prefix);
    let dir = p.parent().unwrap_or(Path::new("."));
    let stem = p.file_name().map(|s| s.to_string_lossy().to_string()).unwrap_or_default();
    let mut v: Vec<PathBuf> = std::fs::read_dir(dir)
        .map(|d| d.filter_map(|e| e.ok()).map(|e| e.path()).filter(|f| f.file_name().map(|n| n.to_string_lossy().starts_with(&stem)).unwrap_or(false)).collect())
        .unwrap_or_default();
    v.sort();
    v
}

fn interesting(out: &str) -> String {
    let mut keep = vec![];
    for l in out.lines() {
        if l.contains("ERROR:") || l.contains("SUMMARY:") || l.contains("panicked") || l.contains("assertion") || l.contains("deadly signal") || l.contains("Test unit written") || l.contains("left:") || l.contains("right:") {
            keep.push(l.to_string());
        }
    }
    keep.truncate(12);
    keep.join("\n")
}

/// Execute every file of each directory exactly once (`-runs=0`), one process per directory.
pub fn run_dirs_once(bin: &str, dirs: &[(PathBuf, bool)], artifact_prefix: &str, xdg_root: &Path) -> Outcome {
    let results: Vec<(bool, u64, String)> = dirs
        .par_iter()
        .enumerate()
        .map(|(i, (dir, allow_data))| {
            let n = std::fs::read_dir(dir).map(|d| d.count()).unwrap_or(0) as u64;
            let xdg = xdg_root.join(format!("fz{i}"));
            let out = Command::new(bin)
                .arg(dir)
                .arg("-runs=0")
                .arg("-rss_limit_mb=4096")
                .arg("-timeout=60")
                .arg(format!("-artifact_prefix={artifact_prefix}"))
                .env("VERIF_FUZZ_XDG", &xdg)
                .env("VERIF_FUZZ_DATA", if *allow_data { "allow" } else { "never" })
                .env("ASAN_OPTIONS", "detect_leaks=1:abort_on_error=0:symbolize=1")
                .env("RUST_BACKTRACE", "0")
                .output();
            let _ = std::fs::remove_dir_all(&xdg);
            match out {
                Ok(o) => {
                    let text = format!("{}{}", String::from_utf8_lossy(&o.stdout), String::from_utf8_lossy(&o.stderr));
                    (o.status.success(), n, if o.status.success() { String::new() } else { interesting(&text) })
                }
                Err(e) => (false, 0, format!("cannot run {bin}: {e}")),
            }
        })
        .collect();
    let mut o = Outcome { ok: true, ..Default::default() };
    for (ok, n, rep) in results {
        o.executed += n;
        if !ok {
            o.ok = false;
            o.report.push_str(&rep);
            o.report.push('\n');
        }
    }
    o.artifacts = artifacts_with_prefix(artifact_prefix);
    o
}

/// Coverage-guided campaign: `jobs` independent libFuzzer processes, `runs` executions each.
pub fn campaign(bin: &str, corpus: &Path, runs: u64, jobs: usize, seed: u64, max_len: usize, artifact_prefix: &str, xdg_root: &Path, allow_data: bool) -> Outcome {
    let results: Vec<(bool, String)> = (0..jobs)
        .into_par_iter()
        .map(|j| {
            let xdg = xdg_root.join(format!("camp{j}"));
            let own = corpus.join(format!("job{j}"));
            let _ = std::fs::create_dir_all(&own);
            let s = (seed.wrapping_mul(1000003).wrapping_add(j as u64) % 0xffff_fffe) + 1; // 0 means random
            let out = Command::new(bin)
                .arg(&own)
                .arg(corpus.join("seeds"))
                .arg(format!("-runs={runs}"))
                .arg(format!("-seed={s}"))
                .arg(format!("-max_len={max_len}"))
                .arg("-len_control=0")
                .arg("-rss_limit_mb=4096")
                .arg("-timeout=60")
                .arg("-print_final_stats=1")
                .arg(format!("-artifact_prefix={artifact_prefix}"))
                .env("VERIF_FUZZ_XDG", &xdg)
                .env("VERIF_FUZZ_DATA", if allow_data { "allow" } else { "never" })
                .env("ASAN_OPTIONS", "detect_leaks=1:abort_on_error=0:symbolize=1")
                .env("RUST_BACKTRACE", "0")
                .output();
            let _ = std::fs::remove_dir_all(&xdg);
            match out {
                Ok(o) => {
                    let text = format!("{}{}", String::from_utf8_lossy(&o.stdout), String::from_utf8_lossy(&o.stderr));
                    (o.status.success(), if o.status.success() { String::new() } else { interesting(&text) })
                }
                Err(e) => (false, format!("cannot run {bin}: {e}")),
            }
        })
        .collect();
    let mut o = Outcome { ok: true, executed: runs * jobs as u64, ..Default::default() };
    for (ok, rep) in results {
        if !ok {
            o.ok = false;
            o.report.push_str(&rep);
            o.report.push('\n');
        }
    }
    o.artifacts = artifacts_with_prefix(artifact_prefix);
    o
}

/// Run one saved input; returns (ok, report).
pub fn run_one(bin: &str, file: &Path, allow_data: bool) -> (bool, String) {
    let xdg = crate::driver::scratch_root().join("fz-one");
    let out = Command::new(bin)
        .arg(file)
        .env("VERIF_FUZZ_XDG", &xdg)
        .env("VERIF_FUZZ_DATA", if allow_data { "allow" } else { "never" })
        .env("ASAN_OPTIONS", "detect_leaks=1:abort_on_error=0:symbolize=1")
        .env("RUST_BACKTRACE", "0")
        .output();
    match out {
        Ok(o) => {
            let text = format!("{}{}", String::from_utf8_lossy(&o.stdout), String::from_utf8_lossy(&o.stderr));
            (o.status.success(), interesting(&text))
        }
        Err(e) => (false, format!("cannot run {bin}: {e}")),
    }
}
