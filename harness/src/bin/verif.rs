use serde_json::Value;
use verif::driver;
use verif::props::*;
use verif::runner::{Run, Tier};

fn usage() -> ! {
    eprintln!("usage: verif <Cxx> [--tier quick|thorough] [--seed N] [--replay FILE]");
    std::process::exit(2);
}

macro_rules! dispatch {
    ($id:expr, $run:expr, $replay:expr, $( $name:literal => $m:ident ),* $(,)?) => {
        match $id {
            $( $name => {
                if let Some(case) = $replay {
                    let mut run: Run = $run($name);
                    run.strict = true; // an explicit replay shows the failure even if it is a listed finding
                    let replayed = match verif::oracle::replay_case(&run, &case) { Some(r) => r, None => $m::replay(&run, &case) };
                    match replayed {
                        Ok(()) => { println!("replay: property {} held on this case", $name); 0 }
                        Err(f) => {
                            println!("  failure kind={} : {}", f.kind, f.message);
                            println!("VIOLATION property={} replay={}", $name, std::env::args().last().unwrap());
                            1
                        }
                    }
                } else {
                    let run: Run = $run($name);
                    // VERIF_ONLY_ORACLE: development switch (byte-coded parts alone); never set by the registered commands
                    if std::env::var("VERIF_ONLY_ORACLE").is_err() {
                        run.corpus(&|r, c| match verif::oracle::replay_case(r, c) { Some(x) => x, None => $m::replay(r, c) });
                        $m::run(&run);
                    }
                    verif::oracle::parts_of_check(&run);
                    run.finish($m::LEVEL, $m::RULE, $m::EXHAUSTIVE, $m::ASSUMPTIONS)
                }
            } )*
            _ => usage(),
        }
    };
}

/// `verif probe <opts> tokens...` — triage helper: k:<ascii> K:<NAME>:<m>:<sel> w:<bengali> bs cbs c:<i> fin new
fn probe(args: &[String]) {
    use verif::driver::*;
    driver::install_panic_hook();
    let opts = Opts::parse(&args[0]);
    let sb = Sandbox::new();
    let mut ctx = Ctx::new(opts, &sb).expect("context");
    let inv = if opts.is_phonetic() { Default::default() } else { layout_inverse(opts.layout) };
    for tok in &args[1..] {
        let show = |r: Result<Rendered, PanicInfo>, what: &str, ctx: &Ctx| match r {
            Ok(r) => println!("{what} -> {} pre={:?} ongoing={}", r.short(), r.pre, ctx.ongoing()),
            Err(p) => println!("{what} -> PANIC {p}"),
        };
        if let Some(t) = tok.strip_prefix("k:") {
            for c in t.chars() {
                show(ctx.ch(c, 0), &format!("{c:?}"), &ctx);
            }
        } else if let Some(t) = tok.strip_prefix("w:") {
            for c in t.chars() {
                match inv.get(&c.to_string()) {
                    Some((code, m)) => show(ctx.key(*code, *m, 0), &format!("{c:?}"), &ctx),
                    None => println!("{c:?} not typeable"),
                }
            }
        } else if let Some(t) = tok.strip_prefix("K:") {
            let p: Vec<&str> = t.split(':').collect();
            let code = keys().by_name(p[0]).map(|k| k.code).or_else(|| p[0].parse().ok()).expect("key");
            show(ctx.key(code, p.get(1).and_then(|x| x.parse().ok()).unwrap_or(0), p.get(2).and_then(|x| x.parse().ok()).unwrap_or(0)), tok, &ctx);
        } else if tok == "bs" {
            show(ctx.backspace(false), "bs", &ctx);
        } else if tok == "cbs" {
            show(ctx.backspace(true), "cbs", &ctx);
        } else if let Some(t) = tok.strip_prefix("c:") {
            println!("commit {t}: {:?} store={:?}", ctx.commit(t.parse().unwrap()), sb.parsed_selections());
        } else if tok == "fin" {
            println!("finish: {:?}", ctx.finish());
        } else if tok == "new" {
            ctx = Ctx::new(opts, &sb).expect("context");
            println!("new context");
        } else if let Some(t) = tok.strip_prefix("ac:") {
            std::fs::write(sb.autocorrect_file(), t).unwrap();
        } else if let Some(t) = tok.strip_prefix("sel:") {
            std::fs::write(sb.selection_file(), t).unwrap();
        }
    }
    driver::cleanup_scratch();
}

/// C01 runs supervised: "returns normally" also means no abort (stack overflow) and no call that never
/// returns, and neither can be caught inside the process that suffers it.  The child journals every
/// history before each engine call; when it dies by a signal or its watchdog reports a hang (exit 3) the
/// parent turns the journals of the histories that were in flight into replay files, confirms each in a
/// further child (with a time limit) and reports the one that kills / hangs the process again.
fn supervise_c01(args: &[String]) -> ! {
    use std::process::Command;
    use std::time::{Duration, Instant};
    let exe = std::env::current_exe().expect("current exe");
    let jdir = verif::driver::scratch_root().join("c01-journal");
    let _ = std::fs::remove_dir_all(&jdir);
    let status = Command::new(&exe).args(&args[1..]).env("VERIF_CHILD", "1").env("VERIF_JOURNAL_DIR", &jdir).status().expect("spawn child");
    let code = status.code();
    if let Some(c @ (0 | 1 | 2)) = code {
        verif::driver::cleanup_scratch();
        std::process::exit(c);
    }
    let how = match code {
        Some(3) => "an engine call did not return within the watchdog limit".to_string(),
        Some(c) => format!("the process exited with status {c}"),
        None => format!("the process was killed by a signal ({status})"),
    };
    let replaying = args.iter().any(|a| a == "--replay");
    if replaying {
        println!("  failure kind=process-died-or-hung : replaying this input, {how}");
        println!("VIOLATION property=C01 replay={}", args.last().unwrap());
        verif::driver::cleanup_scratch();
        std::process::exit(1);
    }
    // in-flight histories
    let _ = std::fs::create_dir_all("/verif/replays");
    let mut found = None;
    let mut files: Vec<_> = std::fs::read_dir(&jdir).map(|d| d.filter_map(|e| e.ok()).map(|e| e.path()).collect()).unwrap_or_default();
    files.sort();
    for (i, f) in files.iter().enumerate() {
        let (opts, events) = match verif::gen::journal::read(f) {
            Some(x) if !x.1.is_empty() => x,
            _ => continue,
        };
        let body = serde_json::json!({"property": "C01", "kind": "process-died-or-hung", "message": how, "case": {"opts": opts, "events": events,
            "readable": events.iter().map(verif::gen::ev_to_string).collect::<Vec<_>>()}});
        let path = format!("/verif/replays/C01-abort-{}-{i}.json", std::process::id());
        std::fs::write(&path, serde_json::to_string_pretty(&body).unwrap()).expect("write replay");
        // confirm in a further child with a time limit
        let mut child = Command::new(&exe).args(["C01", "--replay", &path]).env("VERIF_CHILD", "1").stdout(std::process::Stdio::null()).spawn().expect("spawn replay child");
        let t0 = Instant::now();
        let confirmed = loop {
            match child.try_wait() {
                Ok(Some(st)) => break !matches!(st.code(), Some(0)),
                Ok(None) if t0.elapsed() > Duration::from_secs(60) => {
                    let _ = child.kill();
                    let _ = child.wait();
                    break true;
                }
                Ok(None) => std::thread::sleep(Duration::from_millis(100)),
                Err(_) => break false,
            }
        };
        if confirmed {
            found = Some(path);
            break;
        }
        let _ = std::fs::remove_file(&path);
    }
    verif::driver::cleanup_scratch();
    match found {
        Some(path) => {
            println!("  failure kind=process-died-or-hung : {how}; the history in flight reproduces it");
            println!("VIOLATION property=C01 replay={path}");
            std::process::exit(1);
        }
        None => {
            println!("INCONCLUSIVE {how}, but no journalled history reproduced it");
            std::process::exit(2);
        }
    }
}

fn main() {
    let args: Vec<String> = std::env::args().collect();
    if args.len() < 2 {
        usage();
    }
    if args[1] == "probe" {
        probe(&args[2..]);
        return;
    }
    if args[1] == "C01" && std::env::var("VERIF_CHILD").is_err() {
        supervise_c01(&args);
    }
    let id = args[1].clone();
    let mut tier = match std::env::var("VERIF_TIER").as_deref() {
        Ok("thorough") => Tier::Thorough,
        _ => Tier::Quick,
    };
    let mut seed: u64 = std::env::var("VERIF_SEED").ok().and_then(|s| s.trim().parse::<i64>().ok()).map(|v| v as u64).unwrap_or(0);
    let mut replay: Option<Value> = None;
    let mut i = 2;
    while i < args.len() {
        match args[i].as_str() {
            "--tier" | "-t" => {
                i += 1;
                tier = match args.get(i).map(|s| s.as_str()) {
                    Some("quick") => Tier::Quick,
                    Some("thorough") => Tier::Thorough,
                    _ => usage(),
                };
            }
            "quick" => tier = Tier::Quick,
            "thorough" => tier = Tier::Thorough,
            "--seed" => {
                i += 1;
                seed = args.get(i).and_then(|s| s.parse().ok()).unwrap_or_else(|| usage());
            }
            "--replay" => {
                i += 1;
                let path = args.get(i).unwrap_or_else(|| usage());
                let text = String::from_utf8_lossy(&std::fs::read(path).unwrap_or_else(|e| {
                    println!("INCONCLUSIVE cannot read replay file {path}: {e}");
                    std::process::exit(2);
                }))
                .to_string();
                let v: Value = match serde_json::from_str(&text) {
                    Ok(v) => v,
                    Err(e) => {
                        // a saved fuzzer input (raw bytes) of the libFuzzer targets
                        let r = match id.as_str() {
                            "C19" => Some(c19::replay_artifact(std::path::Path::new(path))),
                            "C01" => Some(c01::replay_artifact(std::path::Path::new(path))),
                            other if verif::oracle::Mode::parse(other).is_some() => {
                                // a saved input of the libFuzzer target `oracle` (raw bytes): executed in-process, strictly
                                driver::install_panic_hook();
                                let mut run = Run::new(verif::oracle::Mode::parse(other).unwrap().id(), tier, seed);
                                run.strict = true;
                                let bytes = std::fs::read(path).unwrap_or_default();
                                Some(verif::oracle::run_bytes(&run, verif::oracle::Mode::parse(other).unwrap(), &bytes, &mut verif::runner::Stats::new()))
                            }
                            _ => None,
                        };
                        match r {
                            Some(Ok(())) => {
                                println!("replay: property {id} held on this input");
                                std::process::exit(0);
                            }
                            Some(Err(f)) => {
                                println!("  failure kind={} : {}", f.kind, f.message);
                                println!("VIOLATION property={id} replay={path}");
                                std::process::exit(1);
                            }
                            None => {
                                println!("INCONCLUSIVE replay file does not parse: {e}");
                                std::process::exit(2);
                            }
                        }
                    }
                };
                replay = Some(if v.get("case").is_some() { v["case"].clone() } else { v });
            }
            _ => usage(),
        }
        i += 1;
    }
    driver::install_panic_hook();
    driver::watchdog::start();
    if let Err(e) = verif::model::ref_split_selftest() {
        println!("INCONCLUSIVE reference split self-test failed: {e}");
        std::process::exit(2);
    }
    let threads = std::env::var("VERIF_THREADS").ok().and_then(|s| s.parse().ok()).unwrap_or(16usize);
    rayon::ThreadPoolBuilder::new().num_threads(threads).stack_size(16 << 20).build_global().ok();
    let mk = |name: &'static str| Run::new(name, tier, seed);
    // a panic of the CHECK itself (not of the engine: those are caught per call) must not look like anything else
    let code = match std::panic::catch_unwind(std::panic::AssertUnwindSafe(|| run_check(&id, &mk, replay.clone()))) {
        Ok(c) => c,
        Err(e) => {
            let msg = e.downcast_ref::<&str>().map(|s| s.to_string()).or_else(|| e.downcast_ref::<String>().cloned()).unwrap_or_default();
            println!("INCONCLUSIVE the check itself panicked ({msg}); nothing it observed is reported");
            driver::cleanup_scratch();
            2
        }
    };
    std::process::exit(code);
}

fn run_check(id: &str, mk: &dyn Fn(&'static str) -> Run, replay: Option<Value>) -> i32 {
    let code = dispatch!(id, mk, replay,
        "C01" => c01,
        "C02" => c02,
        "C03" => c03,
        "C04" => c04,
        "C05" => c05,
        "C06" => c06,
        "C07" => c07,
        "C08" => c08,
        "C09" => c09,
        "C10" => c10,
        "C11" => c11,
        "C12" => c12,
        "C13" => c13,
        "C14" => c14,
        "C15" => c15,
        "C16" => c16,
        "C17" => c17,
        "C18" => c18,
        "C19" => c19,
    );
    driver::cleanup_scratch();
    code
}
