use serde_json::Value;
use verif::driver;
use verif::props::*;
use verif::runner::{Run, Tier};

fn usage() -> ! {
    eprintln!("usage: verif <Cxx> [--tier quick|thorough] [--seed N] [--replay FILE]");
    std::process::exit(2);
}

macro_rules! dispatch {
    ($id:expr, $run:expr, $replay:expr, $( $name:literal => $m:ident ),* $(,)?) => {
        match $id {
            $( $name => {
                if let Some(case) = $replay {
                    let mut run: Run = $run($name);
                    run.strict = true; // an explicit replay shows the failure even if it is a listed finding
                    match $m::replay(&run, &case) {
                        Ok(()) => { println!("replay: property {} held on this case", $name); 0 }
                        Err(f) => {
                            println!("  failure kind={} : {}", f.kind, f.message);
                            println!("VIOLATION property={} replay={}", $name, std::env::args().last().unwrap());
                            1
                        }
                    }
                } else {
                    let run: Run = $run($name);
                    run.corpus(&|r, c| $m::replay(r, c));
                    $m::run(&run);
                    run.finish($m::LEVEL, $m::RULE, $m::EXHAUSTIVE, $m::ASSUMPTIONS)
                }
            } )*
            _ => usage(),
        }
    };
}

/// `verif probe <opts> tokens...` — triage helper: k:<ascii> K:<NAME>:<m>:<sel> w:<bengali> bs cbs c:<i> fin new
fn probe(args: &[String]) {
    use verif::driver::*;
    driver::install_panic_hook();
    let opts = Opts::parse(&args[0]);
    let sb = Sandbox::new();
    let mut ctx = Ctx::new(opts, &sb).expect("context");
    let inv = if opts.is_phonetic() { Default::default() } else { layout_inverse(opts.layout) };
    for tok in &args[1..] {
        let show = |r: Result<Rendered, PanicInfo>, what: &str, ctx: &Ctx| match r {
            Ok(r) => println!("{what} -> {} pre={:?} ongoing={}", r.short(), r.pre, ctx.ongoing()),
            Err(p) => println!("{what} -> PANIC {p}"),
        };
        if let Some(t) = tok.strip_prefix("k:") {
            for c in t.chars() {
                show(ctx.ch(c, 0), &format!("{c:?}"), &ctx);
            }
        } else if let Some(t) = tok.strip_prefix("w:") {
            for c in t.chars() {
                match inv.get(&c.to_string()) {
                    Some((code, m)) => show(ctx.key(*code, *m, 0), &format!("{c:?}"), &ctx),
                    None => println!("{c:?} not typeable"),
                }
            }
        } else if let Some(t) = tok.strip_prefix("K:") {
            let p: Vec<&str> = t.split(':').collect();
            let code = keys().by_name(p[0]).map(|k| k.code).or_else(|| p[0].parse().ok()).expect("key");
            show(ctx.key(code, p.get(1).and_then(|x| x.parse().ok()).unwrap_or(0), p.get(2).and_then(|x| x.parse().ok()).unwrap_or(0)), tok, &ctx);
        } else if tok == "bs" {
            show(ctx.backspace(false), "bs", &ctx);
        } else if tok == "cbs" {
            show(ctx.backspace(true), "cbs", &ctx);
        } else if let Some(t) = tok.strip_prefix("c:") {
            println!("commit {t}: {:?} store={:?}", ctx.commit(t.parse().unwrap()), sb.parsed_selections());
        } else if tok == "fin" {
            println!("finish: {:?}", ctx.finish());
        } else if tok == "new" {
            ctx = Ctx::new(opts, &sb).expect("context");
            println!("new context");
        } else if let Some(t) = tok.strip_prefix("ac:") {
            std::fs::write(sb.autocorrect_file(), t).unwrap();
        } else if let Some(t) = tok.strip_prefix("sel:") {
            std::fs::write(sb.selection_file(), t).unwrap();
        }
    }
    driver::cleanup_scratch();
}

fn main() {
    let args: Vec<String> = std::env::args().collect();
    if args.len() < 2 {
        usage();
    }
    if args[1] == "probe" {
        probe(&args[2..]);
        return;
    }
    let id = args[1].clone();
    let mut tier = match std::env::var("VERIF_TIER").as_deref() {
        Ok("thorough") => Tier::Thorough,
        _ => Tier::Quick,
    };
    let mut seed: u64 = std::env::var("VERIF_SEED").ok().and_then(|s| s.trim().parse::<i64>().ok()).map(|v| v as u64).unwrap_or(0);
    let mut replay: Option<Value> = None;
    let mut i = 2;
    while i < args.len() {
        match args[i].as_str() {
            "--tier" | "-t" => {
                i += 1;
                tier = match args.get(i).map(|s| s.as_str()) {
                    Some("quick") => Tier::Quick,
                    Some("thorough") => Tier::Thorough,
                    _ => usage(),
                };
            }
            "quick" => tier = Tier::Quick,
            "thorough" => tier = Tier::Thorough,
            "--seed" => {
                i += 1;
                seed = args.get(i).and_then(|s| s.parse().ok()).unwrap_or_else(|| usage());
            }
            "--replay" => {
                i += 1;
                let path = args.get(i).unwrap_or_else(|| usage());
                let text = String::from_utf8_lossy(&std::fs::read(path).unwrap_or_else(|e| {
                    println!("INCONCLUSIVE cannot read replay file {path}: {e}");
                    std::process::exit(2);
                }))
                .to_string();
                let v: Value = match serde_json::from_str(&text) {
                    Ok(v) => v,
                    Err(e) => {
                        // a saved fuzzer input (raw bytes) of the libFuzzer targets
                        let r = match id.as_str() {
                            "C19" => Some(c19::replay_artifact(std::path::Path::new(path))),
                            "C01" => Some(c01::replay_artifact(std::path::Path::new(path))),
                            _ => None,
                        };
                        match r {
                            Some(Ok(())) => {
                                println!("replay: property {id} held on this input");
                                std::process::exit(0);
                            }
                            Some(Err(f)) => {
                                println!("  failure kind={} : {}", f.kind, f.message);
                                println!("VIOLATION property={id} replay={path}");
                                std::process::exit(1);
                            }
                            None => {
                                println!("INCONCLUSIVE replay file does not parse: {e}");
                                std::process::exit(2);
                            }
                        }
                    }
                };
                replay = Some(if v.get("case").is_some() { v["case"].clone() } else { v });
            }
            _ => usage(),
        }
        i += 1;
    }
    driver::install_panic_hook();
    driver::watchdog::start();
    if let Err(e) = verif::model::ref_split_selftest() {
        println!("INCONCLUSIVE reference split self-test failed: {e}");
        std::process::exit(2);
    }
    let threads = std::env::var("VERIF_THREADS").ok().and_then(|s| s.parse().ok()).unwrap_or(16usize);
    rayon::ThreadPoolBuilder::new().num_threads(threads).stack_size(16 << 20).build_global().ok();
    let mk = |name: &'static str| Run::new(name, tier, seed);
    let code = dispatch!(id.as_str(), mk, replay,
        "C01" => c01,
        "C02" => c02,
        "C03" => c03,
        "C04" => c04,
        "C05" => c05,
        "C06" => c06,
        "C07" => c07,
        "C08" => c08,
        "C09" => c09,
        "C10" => c10,
        "C11" => c11,
        "C12" => c12,
        "C13" => c13,
        "C14" => c14,
        "C15" => c15,
        "C16" => c16,
        "C17" => c17,
        "C18" => c18,
        "C19" => c19,
    );
    driver::cleanup_scratch();
    std::process::exit(code);
}
