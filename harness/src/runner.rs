//! Sharded proptest runner, exhaustive-loop helper, known-findings handling, replay files and
//! evidence output shared by all property modules.

use crate::driver;
use proptest::strategy::Strategy;
use proptest::test_runner::{Config, RngSeed, TestCaseError, TestError, TestRunner};
use rayon::prelude::*;
use serde_json::{json, Value};
use std::cell::RefCell;
use std::collections::hash_map::DefaultHasher;
use std::collections::{BTreeMap, BTreeSet, HashSet};
use std::hash::{Hash, Hasher};
use std::sync::Mutex;
use std::time::Instant;

pub const VERIF_ROOT: &str = "/verif";

/// Where evidence and replay files go: /verif for the registered checks; `VERIF_OUT_DIR` only for
/// sensitivity experiments run from a scratch copy of the harness.
pub fn out_root() -> String {
    std::env::var("VERIF_OUT_DIR").unwrap_or_else(|_| VERIF_ROOT.to_string())
}

#[derive(Clone, Copy, Debug, PartialEq, Eq)]
pub enum Tier {
    Quick,
    Thorough,
}

impl Tier {
    pub fn name(self) -> &'static str {
        match self {
            Tier::Quick => "quick",
            Tier::Thorough => "thorough",
        }
    }
    pub fn pick<T>(self, quick: T, thorough: T) -> T {
        match self {
            Tier::Quick => quick,
            Tier::Thorough => thorough,
        }
    }
}

/// A property violation (or a finding that may be listed as known).
#[derive(Clone, Debug)]
pub struct Failure {
    /// signature class, e.g. "panic:src/keycodes.rs" — what known_findings.json is keyed on
    pub kind: String,
    pub message: String,
    /// concrete, self-contained description of the failing case (replayable by the module)
    pub case: Value,
    /// a saved fuzzer input that is the replay file itself (C19, C01 fuzz campaign)
    pub artifact: Option<std::path::PathBuf>,
}

impl Failure {
    pub fn new(kind: impl Into<String>, message: impl Into<String>, case: Value) -> Failure {
        Failure { kind: kind.into(), message: message.into(), case, artifact: None }
    }
}

pub fn hash_of<T: Hash>(t: &T) -> u64 {
    let mut h = DefaultHasher::new();
    t.hash(&mut h);
    h.finish()
}

// ---------------------------------------------------------------------------------------------
// known findings

#[derive(Clone, Debug)]
pub struct KnownEntry {
    pub id: String,
    pub property: String,
    pub kind: String,
    pub what: String,
}

#[derive(Clone, Debug, Default)]
pub struct KnownFindings {
    pub known: Vec<KnownEntry>,
    pub fixed: Vec<Value>,
}

impl KnownFindings {
    pub fn load() -> KnownFindings {
        let path = format!("{VERIF_ROOT}/known_findings.json");
        let text = match std::fs::read_to_string(&path) {
            Ok(t) => t,
            Err(_) => return KnownFindings::default(),
        };
        let v: Value = serde_json::from_str(&text).unwrap_or_else(|e| {
            println!("INCONCLUSIVE known_findings.json does not parse: {e}");
            std::process::exit(2);
        });
        let mut out = KnownFindings::default();
        for e in v["findings"].as_array().cloned().unwrap_or_default() {
            match e["status"].as_str() {
                Some("known") => out.known.push(KnownEntry {
                    id: e["id"].as_str().unwrap_or_default().to_string(),
                    property: e["property"].as_str().unwrap_or_default().to_string(),
                    kind: e["kind"].as_str().unwrap_or_default().to_string(),
                    what: e["what"].as_str().unwrap_or_default().to_string(),
                }),
                _ => out.fixed.push(e),
            }
        }
        out
    }
    pub fn find(&self, property: &str, kind: &str) -> Option<&KnownEntry> {
        self.known.iter().find(|e| e.property == property && e.kind == kind)
    }
}

// ---------------------------------------------------------------------------------------------
// statistics / evidence

#[derive(Default)]
pub struct Stats {
    pub evaluations: u64,
    pub nontrivial: HashSet<u64>,
    pub labels: BTreeMap<String, u64>,
    pub samples: Vec<Value>,
    pub excluded_known: BTreeMap<String, u64>,
    pub skipped: BTreeMap<String, u64>,
    pub extra: BTreeMap<String, u64>,
    /// set while proptest shrinks: counting stops
    pub frozen: bool,
    pub sample_cap: usize,
}

impl Stats {
    pub fn new() -> Stats {
        Stats { sample_cap: 3, ..Default::default() }
    }
    pub fn eval(&mut self) {
        if !self.frozen {
            self.evaluations += 1;
        }
    }
    pub fn evals(&mut self, n: u64) {
        if !self.frozen {
            self.evaluations += n;
        }
    }
    pub fn label(&mut self, l: &str) {
        if !self.frozen {
            *self.labels.entry(l.to_string()).or_insert(0) += 1;
        }
    }
    pub fn label_n(&mut self, l: &str, n: u64) {
        if !self.frozen && n > 0 {
            *self.labels.entry(l.to_string()).or_insert(0) += n;
        }
    }
    pub fn skip(&mut self, l: &str) {
        if !self.frozen {
            *self.skipped.entry(l.to_string()).or_insert(0) += 1;
        }
    }
    pub fn count(&mut self, l: &str, n: u64) {
        if !self.frozen {
            *self.extra.entry(l.to_string()).or_insert(0) += n;
        }
    }
    /// Record a non-trivial case (distinct by hash); `sample` is only evaluated for the first few.
    pub fn nontrivial(&mut self, hash: u64, sample: impl FnOnce() -> Value) {
        if self.frozen {
            return;
        }
        if self.nontrivial.insert(hash) && self.samples.len() < self.sample_cap {
            self.samples.push(sample());
        }
    }
    pub fn merge(&mut self, o: Stats) {
        self.evaluations += o.evaluations;
        self.nontrivial.extend(o.nontrivial);
        for (k, v) in o.labels {
            *self.labels.entry(k).or_insert(0) += v;
        }
        for (k, v) in o.excluded_known {
            *self.excluded_known.entry(k).or_insert(0) += v;
        }
        for (k, v) in o.skipped {
            *self.skipped.entry(k).or_insert(0) += v;
        }
        for (k, v) in o.extra {
            *self.extra.entry(k).or_insert(0) += v;
        }
        for s in o.samples {
            if self.samples.len() < 12 {
                self.samples.push(s);
            }
        }
    }
}

/// Everything a property module needs while it runs.
pub struct Run {
    pub id: &'static str,
    pub tier: Tier,
    pub seed: u64,
    pub known: KnownFindings,
    pub stats: Mutex<Stats>,
    pub failures: Mutex<Vec<Failure>>,
    pub known_hit: Mutex<BTreeSet<String>>,
    pub parts: Mutex<Vec<Value>>,
    pub health: Mutex<Vec<String>>,
    pub start: Instant,
    pub strict: bool,
}

impl Run {
    pub fn new(id: &'static str, tier: Tier, seed: u64) -> Run {
        Run {
            id,
            tier,
            seed,
            known: KnownFindings::load(),
            stats: Mutex::new(Stats::new()),
            failures: Mutex::new(vec![]),
            known_hit: Mutex::new(BTreeSet::new()),
            parts: Mutex::new(vec![]),
            health: Mutex::new(vec![]),
            start: Instant::now(),
            strict: false,
        }
    }

    /// Is `kind` a listed known finding of this property?  If so it is counted as excluded and
    /// the caller goes on; otherwise the caller must report a failure.
    pub fn absorb(&self, st: &mut Stats, kind: &str) -> bool {
        if self.strict {
            return false;
        }
        if let Some(e) = self.known.find(self.id, kind) {
            if !st.frozen {
                *st.excluded_known.entry(e.id.clone()).or_insert(0) += 1;
            }
            self.known_hit.lock().unwrap().insert(e.id.clone());
            true
        } else {
            false
        }
    }

    pub fn fail(&self, f: Failure) {
        self.failures.lock().unwrap().push(f);
    }

    pub fn has_failures(&self) -> bool {
        !self.failures.lock().unwrap().is_empty()
    }

    /// Execute the committed regression inputs of /verif/corpus/<id>/ first (seconds).  A file with
    /// "expect":"known:<finding id>" must be absorbed by that known finding; any other file must pass.
    pub fn corpus(&self, replay: &dyn Fn(&Run, &Value) -> Result<(), Failure>) {
        let dir = format!("{VERIF_ROOT}/corpus/{}", self.id);
        let mut files: Vec<_> = match std::fs::read_dir(&dir) {
            Ok(d) => d.filter_map(|e| e.ok()).map(|e| e.path()).filter(|p| p.extension().map(|x| x == "json").unwrap_or(false)).collect(),
            Err(_) => return,
        };
        files.sort();
        let mut n = 0;
        for f in files {
            let v: Value = match std::fs::read_to_string(&f).ok().and_then(|t| serde_json::from_str(&t).ok()) {
                Some(v) => v,
                None => {
                    self.health.lock().unwrap().push(format!("corpus file {} does not parse", f.display()));
                    continue;
                }
            };
            let case = if v.get("case").is_some() { v["case"].clone() } else { v.clone() };
            let before = self.known_hit.lock().unwrap().len();
            n += 1;
            match replay(self, &case) {
                Ok(()) => {
                    if let Some(k) = v["expect"].as_str().and_then(|e| e.strip_prefix("known:")) {
                        let hit = self.known_hit.lock().unwrap().contains(k);
                        if !hit && self.known_hit.lock().unwrap().len() == before {
                            println!("note: known finding {k} did not reproduce from {} (defect gone?)", f.display());
                        }
                    }
                }
                Err(mut fl) => {
                    fl.message = format!("regression input {}: {}", f.display(), fl.message);
                    self.fail(fl);
                }
            }
        }
        self.stats.lock().unwrap().count("corpus-replays", n);
    }

    /// Generator health: a label that must have been reached at least `min` times.
    pub fn require_label(&self, label: &str, min: u64) {
        let n = self.stats.lock().unwrap().labels.get(label).copied().unwrap_or(0);
        if n < min {
            self.health
                .lock()
                .unwrap()
                .push(format!("label {label:?} reached {n} times, expected at least {min}"));
        }
    }

    /// Run `cases` generated cases on each of `shards` shards (threads).  `init` makes the
    /// per-shard local state (contexts, sandboxes).  Returns true when no failure was found.
    pub fn sharded<T, S, L>(
        &self,
        part: &str,
        shards: usize,
        cases: u32,
        max_shrink: u32,
        strat: impl Fn() -> S + Sync,
        init: impl Fn(usize) -> L + Sync,
        test: impl Fn(&T, &mut Stats, &mut L) -> Result<(), Failure> + Sync,
    ) -> bool
    where
        S: Strategy<Value = T>,
        T: std::fmt::Debug + Clone,
    {
        let t0 = Instant::now();
        let results: Vec<(Stats, Option<Failure>)> = (0..shards)
            .into_par_iter()
            .map(|shard| {
                let seed = self
                    .seed
                    .wrapping_mul(0x9E37_79B9_7F4A_7C15)
                    .wrapping_add(hash_of(&(part, shard as u64)));
                let cfg = Config {
                    cases,
                    rng_seed: RngSeed::Fixed(seed),
                    failure_persistence: None,
                    max_shrink_iters: max_shrink,
                    max_shrink_time: 0,
                    max_global_rejects: 65536,
                    max_local_rejects: 65536,
                    verbose: 0,
                    ..Config::default()
                };
                let mut runner = TestRunner::new(cfg);
                let stats = RefCell::new(Stats::new());
                let first_fail: RefCell<Option<Failure>> = RefCell::new(None);
                let local = RefCell::new(init(shard));
                let strategy = strat();
                let res = runner.run(&strategy, |v| {
                    let mut st = stats.borrow_mut();
                    let mut lo = local.borrow_mut();
                    st.eval();
                    match test(&v, &mut st, &mut lo) {
                        Ok(()) => Ok(()),
                        Err(f) => {
                            st.frozen = true; // shrinking starts: stop counting
                            let kind = f.kind.clone();
                            let mut ff = first_fail.borrow_mut();
                            if ff.is_none() {
                                *ff = Some(f);
                            }
                            Err(TestCaseError::fail(kind))
                        }
                    }
                });
                let failure = match res {
                    Ok(()) => None,
                    Err(TestError::Fail(_, minimal)) => {
                        let mut st = stats.borrow_mut();
                        st.frozen = true;
                        let mut lo = local.borrow_mut();
                        if max_shrink == 0 {
                            // cases depend on shard-local history (long-lived contexts): report the first failure as it happened
                            first_fail.borrow_mut().take()
                        } else {
                            match test(&minimal, &mut st, &mut lo) {
                                Err(f) => Some(f),
                                Ok(()) => first_fail.borrow_mut().take().map(|mut f| {
                                    f.message = format!("{} (the shrunk case did not fail again: depends on earlier cases in the same context)", f.message);
                                    f
                                }),
                            }
                        }
                    }
                    Err(TestError::Abort(r)) => Some(Failure::new(
                        "generator-abort",
                        format!("proptest aborted: {r}"),
                        json!({}),
                    )),
                };
                (stats.into_inner(), failure)
            })
            .collect();
        let mut ok = true;
        let mut evals = 0;
        let mut best: Option<Failure> = None;
        {
            let mut total = self.stats.lock().unwrap();
            for (st, f) in results {
                evals += st.evaluations;
                total.merge(st);
                if let Some(f) = f {
                    ok = false;
                    let smaller = best
                        .as_ref()
                        .map(|b| f.case.to_string().len() < b.case.to_string().len())
                        .unwrap_or(true);
                    if smaller {
                        best = Some(f);
                    }
                }
            }
        }
        if let Some(f) = best {
            if f.kind == "generator-abort" {
                self.health.lock().unwrap().push(f.message.clone());
            } else {
                self.fail(f);
            }
        }
        self.parts.lock().unwrap().push(json!({
            "part": part, "kind": "generated (proptest, sharded)", "shards": shards,
            "cases_per_shard": cases, "evaluations": evals,
            "wall_s": t0.elapsed().as_secs_f64(), "ok": ok,
        }));
        ok
    }

    /// Enumerate `items` completely, split over threads.  The first failure per thread stops
    /// that thread; all items are executed otherwise.
    pub fn exhaustive<I, L>(
        &self,
        part: &str,
        items: &[I],
        init: impl Fn(usize) -> L + Sync,
        test: impl Fn(&I, &mut Stats, &mut L) -> Result<(), Failure> + Sync,
    ) -> bool
    where
        I: Sync,
    {
        let t0 = Instant::now();
        let threads = rayon::current_num_threads().max(1);
        let chunk = ((items.len() + threads - 1) / threads).max(1);
        let results: Vec<(Stats, Option<Failure>)> = items
            .par_chunks(chunk)
            .enumerate()
            .map(|(ci, ch)| {
                let mut st = Stats::new();
                let mut lo = init(ci);
                let mut failure = None;
                for it in ch {
                    st.eval();
                    if let Err(f) = test(it, &mut st, &mut lo) {
                        failure = Some(f);
                        break;
                    }
                }
                (st, failure)
            })
            .collect();
        let mut ok = true;
        let mut evals = 0;
        let mut total = self.stats.lock().unwrap();
        for (st, f) in results {
            evals += st.evaluations;
            total.merge(st);
            if let Some(f) = f {
                if ok {
                    self.failures.lock().unwrap().push(f);
                }
                ok = false;
            }
        }
        drop(total);
        self.parts.lock().unwrap().push(json!({
            "part": part, "kind": "exhaustive enumeration", "items": items.len(),
            "evaluations": evals, "wall_s": t0.elapsed().as_secs_f64(), "ok": ok,
        }));
        ok
    }

    /// Write the evidence file, print KNOWN-FINDING / VIOLATION lines, return the exit code.
    pub fn finish(self, level: &str, rule: &str, exhaustive: bool, assumptions: &[&str]) -> i32 {
        let stats = self.stats.into_inner().unwrap();
        let failures = self.failures.into_inner().unwrap();
        let known_hit = self.known_hit.into_inner().unwrap();
        let health = self.health.into_inner().unwrap();
        let wall = self.start.elapsed().as_secs_f64();
        for id in &known_hit {
            if let Some(e) = self.known.known.iter().find(|e| &e.id == id) {
                println!("KNOWN-FINDING: property={} {} ({})", self.id, e.what, e.id);
            }
        }
        let mut violation_lines = vec![];
        let _ = std::fs::create_dir_all(format!("{}/replays", out_root()));
        for f in &failures {
            if let Some(a) = &f.artifact {
                println!("  failure kind={} : {}", f.kind, f.message);
                violation_lines.push(format!("VIOLATION property={} replay={}", self.id, a.display()));
                continue;
            }
            let body = json!({
                "property": self.id, "kind": f.kind, "message": f.message, "case": f.case,
                "seed": self.seed, "tier": self.tier.name(),
            });
            let h = hash_of(&body.to_string());
            let path = format!("{}/replays/{}-{:016x}.json", out_root(), self.id, h);
            let _ = std::fs::write(&path, serde_json::to_string_pretty(&body).unwrap());
            println!("  failure kind={} : {}", f.kind, f.message);
            violation_lines.push(format!("VIOLATION property={} replay={}", self.id, path));
        }
        let mut samples = stats.samples.clone();
        if samples.is_empty() {
            samples.push(json!("no non-trivial case was generated"));
        }
        let evidence = json!({
            "property_id": self.id,
            "tier": self.tier.name(),
            "seed": self.seed,
            "level": level,
            "wall_s": wall,
            "violations": failures.len(),
            "coverage": {
                "evaluations": stats.evaluations,
                "distinct_nontrivial": stats.nontrivial.len(),
                "rule": rule,
                "samples": samples,
                "exhaustive": exhaustive,
                "labels": stats.labels,
                "skipped_ops": stats.skipped,
                "excluded_known": stats.excluded_known,
                "counters": stats.extra,
                "engine_events": driver::ENGINE_EVENTS.load(std::sync::atomic::Ordering::Relaxed),
                "update_engine_calls_with_the_same_config_object_modified_by_setters": driver::CONFIG_OBJECTS_KEPT.load(std::sync::atomic::Ordering::Relaxed),
                "parts": *self.parts.lock().unwrap(),
                "known_findings_seen": known_hit.iter().collect::<Vec<_>>(),
                "generator_health": health,
            },
            "assumptions": assumptions,
        });
        let _ = std::fs::create_dir_all(format!("{}/evidence", out_root()));
        let path = format!("{}/evidence/{}.json", out_root(), self.id);
        std::fs::write(&path, serde_json::to_string_pretty(&evidence).unwrap())
            .expect("write evidence");
        println!(
            "{} {} seed={} evaluations={} distinct_nontrivial={} violations={} wall={:.1}s",
            self.id,
            self.tier.name(),
            self.seed,
            stats.evaluations,
            stats.nontrivial.len(),
            failures.len(),
            wall
        );
        driver::cleanup_scratch();
        if !failures.is_empty() {
            for l in violation_lines {
                println!("{l}");
            }
            return 1;
        }
        if !health.is_empty() {
            for h in &health {
                println!("INCONCLUSIVE generator health: {h}");
            }
            return 2;
        }
        if stats.nontrivial.len() < 2 {
            println!("INCONCLUSIVE fewer than two non-trivial cases were generated");
            return 2;
        }
        0
    }
}

/// Greedy delete-one-element minimisation for concrete event lists.
pub fn minimise<T: Clone>(items: &[T], still_fails: impl Fn(&[T]) -> bool) -> Vec<T> {
    let mut cur: Vec<T> = items.to_vec();
    let mut changed = true;
    while changed {
        changed = false;
        let mut i = 0;
        while i < cur.len() {
            let mut cand = cur.clone();
            cand.remove(i);
            if still_fails(&cand) {
                cur = cand;
                changed = true;
            } else {
                i += 1;
            }
        }
    }
    cur
}

/// Contexts are reused across cases for speed.  When a check fails in such a warm context it is
/// repeated once with fresh local state, so that every reported failure is reproducible from the
/// case alone; a failure that only shows in the warm context is reported as such.
pub fn with_fresh_retry<L>(
    local: &mut L,
    mk: impl Fn() -> L,
    f: impl Fn(&mut L, &mut Stats) -> Result<(), Failure>,
    st: &mut Stats,
) -> Result<(), Failure> {
    match f(local, st) {
        Ok(()) => Ok(()),
        Err(e) => {
            let mut fresh = mk();
            let was = st.frozen;
            st.frozen = true;
            let r = f(&mut fresh, st);
            st.frozen = was;
            match r {
                Err(e2) => Err(e2),
                Ok(()) => Err(Failure::new(
                    format!("warm-only:{}", e.kind),
                    format!("fails only in a context that has typed other texts before (history dependence): {}", e.message),
                    e.case,
                )),
            }
        }
    }
}
