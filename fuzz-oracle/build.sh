#!/bin/bash
# Build the libFuzzer target `oracle` (release, no sanitizer: the oracles are semantic) against /repo's working tree:
#   target/x86_64-unknown-linux-gnu/release/oracle
set -e
cd "$(dirname "$0")"
export CARGO_NET_OFFLINE=true
log=$(mktemp)
if ! cargo +nightly fuzz build -O -s none --fuzz-dir "$(pwd)" oracle >"$log" 2>&1; then tail -n 40 "$log"; rm -f "$log"; exit 1; fi
rm -f "$log"
