//! Coverage-guided search against the semantic oracles of C02 / C05 / C06 / C11 / C16 / C17 (thorough tiers).
//! The whole logic is `verif::oracle::run_bytes` (the same function the checks run in-process); this file only
//! turns a reported failure into a crash so that libFuzzer saves the input.  Mode: env VERIF_ORACLE_MODE.
//! Engine panics are caught by the harness' own hook (known findings are absorbed exactly as in the checks).
#![no_main]
use libfuzzer_sys::fuzz_target;
use std::sync::OnceLock;
use verif::oracle::{run_bytes, Mode};
use verif::runner::{Run, Stats, Tier};

struct Env {
    run: Run,
    mode: Mode,
}

fn env() -> &'static Env {
    static E: OnceLock<Env> = OnceLock::new();
    E.get_or_init(|| {
        let mode = Mode::parse(&std::env::var("VERIF_ORACLE_MODE").unwrap_or_default()).expect("VERIF_ORACLE_MODE=C02|C05|C06|C11|C16|C17");
        // replaces the abort-on-panic hook of libfuzzer-sys: engine panics must reach catch_unwind
        verif::driver::install_panic_hook();
        Env { run: Run::new(mode.id(), Tier::Thorough, 0), mode }
    })
}

fuzz_target!(|data: &[u8]| {
    let e = env();
    let mut st = Stats::new();
    st.sample_cap = 0;
    if let Err(f) = run_bytes(&e.run, e.mode, data, &mut st) {
        eprintln!("ORACLE-FAILURE property={} kind={} : {}", e.mode.id(), f.kind, f.message);
        std::process::abort();
    }
});
