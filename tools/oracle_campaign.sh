#!/bin/bash
# usage: oracle_campaign.sh <mode C02|C05|C06|C11|C16|C17> <jobs> <seconds> [seed]
# Development tool (not a registered check): a wall-clock bounded libFuzzer campaign of the `oracle` target whose corpus
# is kept in /verif/.scratch/oracle-corpus/<mode>/job<i>; tools/oracle_distill.sh merges it into corpus/oracle/<mode>.hex.
# Anything it saves under /verif/replays/<mode>-oracle-dev-* must be triaged by hand (./check <mode> --replay <file>).
mode=$1; jobs=${2:-2}; secs=${3:-600}; seed=${4:-1}
bin=/verif/fuzz-oracle/target/x86_64-unknown-linux-gnu/release/oracle
base=/verif/.scratch/oracle-corpus/$mode; mkdir -p $base/seeds /verif/replays
# seeds: the committed corpus
if [ -f /verif/corpus/oracle/$mode.hex ]; then
  python3 - "$mode" <<'P'
import sys,binascii
m=sys.argv[1]
for i,l in enumerate(open(f'/verif/corpus/oracle/{m}.hex')):
    l=l.strip()
    if l and not l.startswith('#'): open(f'/verif/.scratch/oracle-corpus/{m}/seeds/c{i:05d}','wb').write(binascii.unhexlify(l))
P
fi
for j in $(seq 1 $jobs); do
  mkdir -p $base/job$j
  VERIF_ORACLE_MODE=$mode VERIF_SCRATCH=/dev/shm/oracle-dev-$mode-$j RUST_BACKTRACE=0 $bin $base/job$j $base/seeds -max_len=200 -len_control=0 \
     -max_total_time=$secs -seed=$((seed*100+j)) -timeout=120 -rss_limit_mb=4096 -report_slow_units=3600 -print_final_stats=1 \
     -artifact_prefix=/verif/replays/$mode-oracle-dev- > $base/job$j.log 2>&1 &
done
wait
for j in $(seq 1 $jobs); do rm -rf /dev/shm/oracle-dev-$mode-$j; echo "$mode job$j: $(grep -E 'stat::number_of_executed_units' $base/job$j.log) files=$(ls $base/job$j | wc -l) $(grep -E 'ORACLE-FAILURE|deadly|ERROR' $base/job$j.log | head -2)"; done
