#!/bin/bash
# usage: oracle_distill.sh <mode> [max inputs]   merge the campaign corpora of /verif/.scratch/oracle-corpus/<mode> with libFuzzer's
# -merge=1 (keeps a subset with the same coverage features) and write it as /verif/corpus/oracle/<mode>.hex (one input per line).
mode=$1; max=${2:-1500}
bin=/verif/fuzz-oracle/target/x86_64-unknown-linux-gnu/release/oracle
base=/verif/.scratch/oracle-corpus/$mode; out=$base/merged; rm -rf $out; mkdir -p $out /verif/corpus/oracle
VERIF_ORACLE_MODE=$mode VERIF_SCRATCH=/dev/shm/oracle-dev-$mode-m RUST_BACKTRACE=0 $bin -merge=1 -max_len=200 -timeout=120 -rss_limit_mb=4096 $out $base/seeds $(ls -d $base/job*/) > $base/merge.log 2>&1
rm -rf /dev/shm/oracle-dev-$mode-m
python3 - "$mode" "$max" <<'P'
import sys,os,binascii
m,mx=sys.argv[1],int(sys.argv[2])
d=f'/verif/.scratch/oracle-corpus/{m}/merged'
files=sorted(os.listdir(d), key=lambda f:(os.path.getsize(os.path.join(d,f)),f))[:mx]
with open(f'/verif/corpus/oracle/{m}.hex','w') as o:
    o.write(f'# coverage-distilled inputs of the libFuzzer target `oracle`, mode {m} (tools/oracle_distill.sh); one byte string per line\n')
    for f in files: o.write(binascii.hexlify(open(os.path.join(d,f),'rb').read()).decode()+'\n')
print(m,'inputs kept:',len(files))
P
