#!/bin/bash
# Like try_seeded_alt.sh for C19: builds a scratch copy of /verif/fuzz against the scratch worktree /tmp/mh/repo, so that
# /repo is not touched.  usage: try_seeded_alt_c19.sh <seeded dir> [quick|thorough]
d=$1; tier=${2:-quick}
cd /tmp/mh/repo && git checkout -q -- . && git apply /verif/seeded/$d/patch.diff || { echo "patch does not apply"; exit 3; }
rsync -a --exclude target --exclude target-nosan --exclude Cargo.toml --exclude corpus --exclude artifacts /verif/fuzz/ /tmp/mh/fuzz/
sed 's#path = "/repo"#path = "/tmp/mh/repo"#' /verif/fuzz/Cargo.toml > /tmp/mh/fuzz/Cargo.toml
(cd /tmp/mh/fuzz && bash build.sh) >/tmp/mh/fuzzbuild.log 2>&1 || { tail -5 /tmp/mh/fuzzbuild.log; exit 3; }
rsync -a --exclude target --exclude Cargo.toml /verif/harness/ /tmp/mh/harness/
cd /tmp/mh/harness && cargo build --release --offline >/tmp/mh/build.log 2>&1 || { tail -5 /tmp/mh/build.log; exit 3; }
start=$(date +%s)
VERIF_REPO=/tmp/mh/repo VERIF_OUT_DIR=/tmp/mh/out VERIF_FUZZ_DIR=/tmp/mh/fuzz ./target/release/verif C19 --tier $tier > /tmp/mh/try_$d.log 2>&1; rc=$?
echo "$d C19 $tier exit=$rc wall=$(( $(date +%s) - start ))s :: $(grep -E '^  failure' /tmp/mh/try_$d.log | head -1 | cut -c1-300)"
cd /tmp/mh/repo && git checkout -q -- .
