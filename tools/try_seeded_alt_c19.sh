#!/bin/bash
# Like try_seeded_alt.sh for C19: builds a scratch copy of /verif/fuzz against the scratch worktree ${MH:-/tmp/mh}/repo, so that
# /repo is not touched.  usage: try_seeded_alt_c19.sh <seeded dir> [quick|thorough]
d=$1; tier=${2:-quick}
cd ${MH:-/tmp/mh}/repo && git checkout -q -- . && git apply /verif/seeded/$d/patch.diff || { echo "patch does not apply"; exit 3; }
rsync -a --exclude target --exclude target-nosan --exclude Cargo.toml --exclude corpus --exclude artifacts /verif/fuzz/ ${MH:-/tmp/mh}/fuzz/
MHX=${MH:-/tmp/mh}; sed "s#path = \"/repo\"#path = \"$MHX/repo\"#" /verif/fuzz/Cargo.toml > $MHX/fuzz/Cargo.toml
(cd ${MH:-/tmp/mh}/fuzz && bash build.sh) >${MH:-/tmp/mh}/fuzzbuild.log 2>&1 || { tail -5 ${MH:-/tmp/mh}/fuzzbuild.log; exit 3; }
rsync -a --exclude target --exclude Cargo.toml /verif/harness/ ${MH:-/tmp/mh}/harness/
cd ${MH:-/tmp/mh}/harness && cargo build --release --offline >${MH:-/tmp/mh}/build.log 2>&1 || { tail -5 ${MH:-/tmp/mh}/build.log; exit 3; }
start=$(date +%s)
VERIF_REPO=${MH:-/tmp/mh}/repo VERIF_OUT_DIR=${MH:-/tmp/mh}/out VERIF_FUZZ_DIR=${MH:-/tmp/mh}/fuzz ./target/release/verif C19 --tier $tier > ${MH:-/tmp/mh}/try_$d.log 2>&1; rc=$?
echo "$d C19 $tier exit=$rc wall=$(( $(date +%s) - start ))s :: $(grep -E '^  failure' ${MH:-/tmp/mh}/try_$d.log | head -1 | cut -c1-300)"
cd ${MH:-/tmp/mh}/repo && git checkout -q -- .
