#!/usr/bin/env python3
"""Regenerates /verif/MANIFEST.json from the table below (kept in one place so it stays valid)."""
import json, subprocess, sys

CLAIMED = sys.argv[1].split(',') if len(sys.argv) > 1 else []

CHECKS = {
 "C01": ("exploration", "3.C01",
   "stateful generated histories (proptest, in-contract interpreter) + exhaustive single-key sweep + coverage-guided libFuzzer campaign (thorough); oracle: no panic",
   "Generated in-contract event histories over all 111 published keys, all modifier/selection bytes, all 2048 option settings and 3 layouts (incl. a synthetic layout with reph / ro-fola / zo-fola keys), with learned-key+suffix and emoticon-commit shapes forced; every engine call runs under catch_unwind and a watchdog. Exploration, not proof: histories are bounded at 80 abstract ops; the time clause is only a per-call watchdog.",
   "A panic at the Rust API equals an abort at the C boundary; writable user directory; key codes from riti.h."),
 "C02": ("exploration", "3.C02",
   "stateful generated histories with front-end-valid selection bytes; oracle: structural invariants on every returned suggestion + reference composition model (phonetic) / suggestions-off twin context (fixed); exhaustive selection x punctuation sweep",
   "Every suggestion returned by every key/backspace event of generated histories is read out completely and checked against length/index/readability invariants and an independent model of the in-progress composition.",
   "Header-derived key->character table; twin context with suggestions off shows the composed text."),
 "C03": ("exploration", "3.C03",
   "generated lead/word/trail triples and arbitrary 94-character strings; oracle: okkhor transliteration of the constructed parts (never splits) + lonely-vs-list metamorphic relation",
   "Texts are constructed as (punctuation, word, punctuation) so the expected output is computed part-wise by the separate okkhor crate without any splitting logic; exhaustive for short words, random beyond.",
   "okkhor's Parser is the definition of Avro transliteration; header-derived key table."),
 "C04": ("exploration", "3.C04",
   "exhaustive enumeration of all 65536 key codes x modifier bytes x numpad x 2 layouts x 2 start states; oracle: layout JSON read independently + key-name table transcribed from riti.h",
   "The space is finite and enumerated completely (exhaustive: true): every key code, modifier pattern, numpad setting, for Probhat and the synthetic layout.",
   "Key-name table transcribed from riti.h and the layout file format; layouts: bundled Probhat + /verif/layouts/synthetic.json."),
 "C05": ("exploration", "3.C05",
   "generated (target text, edit script, warm-up words, interleaving with a second context); differential oracle: warm/edited context vs brand-new context",
   "Differential testing against a fresh context needs no model of the memo; generator biases warm-up words to prefixes/case variants/suffix bases of the target.",
   "Same configuration, data files and learned-selection store in both runs; contexts cannot cross threads, so same-thread interleaving is the whole schedule space."),
 "C06": ("exploration", "3.C06",
   "stateful generated history . terminating event . continuation, both methods; oracle: session-flag invariants + differential continuation vs a context created at that moment over a copy of the user directory",
   "All four terminating events, fixed-layout histories biased to shapes that desynchronise composed text / raw keys / pending sign.",
   "A context created over a copy of the user directory is the reference for 'newly created context'."),
 "C07": ("exploration", "3.C07",
   "exhaustive short texts + data-guided and random texts x options (+ user auto-correct files); oracle: independent classification of every candidate and feasibility of a non-decreasing rank-key assignment",
   "Every candidate is classified from the JSON data, okkhor and emojicon; the list order must admit a non-decreasing assignment of rank keys (greedy is optimal).",
   "Dictionary/auto-correct/suffix JSON read independently; okkhor regex; own Levenshtein; emojicon tables."),
 "C08": ("exploration", "3.C08",
   "generated base x suffix pairs over all 737 suffix keys; oracle: inverse of the three joining rules + okkhor regex + JSON data (soundness), base list vs joined list in the same context (completeness)",
   "Soundness of every dictionary-derived candidate and completeness of suffix forms, stratified over all suffix keys and joining-rule combinations.",
   "Joining rules as stated in the property; 'final vowel' includes vowel signs (DESIGN 6)."),
 "C09": ("exploration", "3.C09",
   "stateful generated learn/commit/retype/restart histories; oracle: model of the store with spec-level derived entries, file parsed after every commit, round trip through fresh contexts",
   "Histories commit through the API, re-type the identical text later in the same and in restarted contexts, and check the suffix clause against an ideal store model.",
   "Selection bytes follow the front-end protocol; ambiguous suffix decompositions are skipped and counted."),
 "C10": ("fault_enumeration", "3.C10",
   "fault injection: every byte prefix of every store the engine wrote, malformed / wrong-shape JSON corpus, mutated JSON, directory faults x typing histories; oracle: no panic + differential vs 'file absent'",
   "Crash points of the non-atomic save are enumerated as all prefixes of engine-written files (exhaustive for the collected stores); other fault classes are a corpus plus generated mutations.",
   "An interrupted std::fs::write leaves a prefix of the new content; running as root, 'not writable' is simulated by missing dir / file-in-place-of-dir / dir-in-place-of-file."),
 "C11": ("exploration", "3.C11",
   "generated (config pair, pre-history, user auto-correct edit, continuation); differential oracle: updated context vs fresh context over a copy of the user directory",
   "Differential against a newly created context over a copy of the user files; edits target words typed before and after the update.",
   "File mtime forced forward on every edit so 'edited in the meantime' is unambiguous; same data directory."),
 "C12": ("exploration", "3.C12",
   "exhaustive key histories up to length L over a class-representative alphabet x 16 option settings + generated longer histories; oracle: step-wise independent rule table",
   "All histories up to the bound are enumerated (exhaustive to L); each step is compared with a pure function transcribed from the property statement.",
   "Punctuation/character classes restricted to undisputed members; synthetic layout binds the multi-codepoint keys."),
 "C13": ("exploration", "3.C13",
   "breadth-first enumeration of all composed texts reachable within L keys, then the reph key; oracle: conservation for all texts, grammar-based placement for well-formed texts",
   "Every distinct reachable text up to the bound gets the reph key; conservation is checked for all, placement for texts in the syllable grammar.",
   "Syllable grammar as in DESIGN 3.C13; synthetic layout binds the reph key."),
 "C14": ("exploration", "3.C14",
   "enumerated and generated syllable-grammar words typed in two key orders; differential oracle: option on + typewriter order vs option off + Unicode order",
   "All single syllables and two-unit words over the alphabet are enumerated, longer words generated; both orders are typed into the real engine and compared.",
   "typewriter/unicode key orders as stated in the property; synthetic layout."),
 "C15": ("exploration", "3.C15",
   "dictionary-driven enumeration: prefixes of dictionary words typed through the layout x options x wrappers; oracle: dictionary JSON read independently, own Levenshtein, own raw-key model",
   "Sampled in quick, data-exhaustive over all ~159k words in thorough.",
   "Dictionary JSON; emojicon tables; layout inverse derived from the layout file."),
 "C16": ("exploration", "3.C16",
   "generated typed texts in both methods + data-exhaustive dictionary pass; oracle: poriborton unicode_to_bijoy, Bengali-block scan, emoji inventory, ANSI on/off twins",
   "Every candidate of every returned suggestion is read out and compared with the encoder; all dictionary words in thorough.",
   "poriborton::bijoy2000::unicode_to_bijoy is the stated oracle."),
 "C17": ("exploration", "3.C17",
   "paired contexts differing only in the smart-quote option fed identical keys (exhaustive wrapper combinations x words + generated strings); metamorphic oracle: un-curling maps the 'on' list to the 'off' list, forward curl model from the reference split",
   "Differential pair after every key; wrappers of up to 3 leading and trailing characters enumerated.",
   "Reference split transcribed from the documentation (self-tested at start-up)."),
 "C18": ("exploration", "3.C18",
   "exhaustive walk of the emojicon tables (emoticons, English names, Bengali names) bare and wrapped; oracle: the tables themselves + ANSI twin for non-disturbance",
   "Finite tables enumerated completely (exhaustive: true).",
   "emojicon's internal tables are the bundled tables; entries the method cannot type are counted and listed."),
 "C19": ("exploration", "3.C19",
   "byte-coded call sequences over all 33 extern \"C\" functions executed under AddressSanitizer + LeakSanitizer (libFuzzer build): proptest-generated corpus run once, plus coverage-guided campaign in thorough; in-target oracle: string equality with the Rust API, snapshot stability",
   "Structured sequences with valid handles and in-range indices, including read-outs after the context moved on or was freed.",
   "ASan/LSan detect invalid accesses and leaks; decoder never produces caller-contract violations (double free, dangling handle)."),
}

NA_REASON = "check not built yet in this session (planned: see DESIGN.md section 3); not claimed until its quick command runs clean"

manifest = {
  "version": 1,
  "setup_cmd": "./setup.sh",
  "hooks": {
    "guard": "riti_verif",
    "enable": "none needed: the harness reaches the engine through the public Rust API and the #[no_mangle] C ABI exported from the rlib; the cfg name riti_verif is reserved and unused",
    "baseline_off_cmd": "cd /repo && cargo test --workspace --no-fail-fast --offline",
    "source_commits": [],
    "add_only": True
  },
  "engines": [
    {"name": "verif-harness", "path": "harness", "serves_properties": sorted(CHECKS), "kind_free_text": "Rust crate: proptest TestRunner sharded over 16 threads, exhaustive enumerators, reference models, replay, evidence writer"},
    {"name": "verif-fuzz", "path": "fuzz", "serves_properties": ["C01", "C19"], "kind_free_text": "cargo-fuzz (libFuzzer + ASan/LSan) targets `history` and `ffi`"}
  ],
  "checks": [],
  "not_applicable": [],
  "notes": "All checks: ./check <id> quick|thorough rebuilds the harness against /repo's working tree (path dependency), runs committed regression replays, then the tier. Exit 0 held / 1 VIOLATION / 2 inconclusive. Known findings: /verif/known_findings.json."
}
for pid in sorted(CHECKS):
    level, ref, tech, text, note = CHECKS[pid]
    if pid in CLAIMED:
        manifest["checks"].append({
            "property_id": pid,
            "quick_cmd": f"./check {pid} quick",
            "thorough_cmd": f"./check {pid} thorough",
            "evidence_file": f"/verif/evidence/{pid}.json",
            "replay_cmd_template": f"./check {pid} --replay {{path}}",
            "engine": "verif-harness",
            "level_claimed": {"category": level, "text": text, "design_ref": ref},
            "level_note": note,
            "technique": tech,
        })
    else:
        manifest["not_applicable"].append({"property_id": pid, "reason": NA_REASON})
json.dump(manifest, open('/verif/MANIFEST.json', 'w'), indent=1, ensure_ascii=False)
print("claimed:", [c["property_id"] for c in manifest["checks"]])
