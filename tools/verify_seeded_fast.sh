#!/bin/bash
# usage: verify_seeded_fast.sh <dir with patch.diff + seeded_demo.rs> <existing scratch worktree of /repo (its target/ is re-used)>
# Same procedure as verify_seeded.sh (patch applies to a clean HEAD, 43 tests pass with it, demo FAILS with it, demo PASSES without it),
# but inside a worktree that already has a build cache.
src=$1; wt=$2
cd $wt || exit 3
git checkout -q -- . && git clean -fdq -e target
git apply $src/patch.diff || { echo "PATCH DOES NOT APPLY"; exit 3; }
echo "changed: $(git diff --stat | tail -1)"
t=$(cargo test --workspace --no-fail-fast --offline 2>&1 | grep -E "^test result: .* passed" | head -1); echo "tests with change: $t"
cp $src/seeded_demo.rs src/seeded_demo.rs; grep -q "mod seeded_demo" src/lib.rs || echo '#[cfg(test)] mod seeded_demo;' >> src/lib.rs
d1=$(cargo test --offline --lib seeded_demo 2>&1 | grep -E "^test result:" | head -1); echo "demo with change:    $d1"
git apply -R $src/patch.diff
d2=$(cargo test --offline --lib seeded_demo 2>&1 | grep -E "^test result:" | head -1); echo "demo without change: $d2"
git checkout -q -- . && git clean -fdq -e target
