#!/bin/bash
# usage: verify_seeded.sh <Cxx> <dir with patch.diff + seeded_demo.rs>
# Confirms in a scratch worktree (removed afterwards): patch applies, 43 tests pass with it, demo FAILS with it, demo PASSES without it.
id=$1; src=$2; wt=/tmp/wtv/$(basename $src)
rm -rf $wt; git -C /repo worktree prune; git -C /repo worktree add -q --detach $wt HEAD || exit 3
cd $wt
git apply $src/patch.diff || { echo "PATCH DOES NOT APPLY"; git -C /repo worktree remove --force $wt; exit 3; }
echo "changed: $(git diff --stat | tail -1)"
t=$(cargo test --workspace --no-fail-fast --offline 2>&1 | grep -E "^test result: .* passed" | head -1); echo "tests with change: $t"
cp $src/seeded_demo.rs src/seeded_demo.rs; grep -q "mod seeded_demo" src/lib.rs || echo '#[cfg(test)] mod seeded_demo;' >> src/lib.rs
d1=$(cargo test --offline --lib seeded_demo 2>&1 | grep -E "^test result:" | head -1); echo "demo with change:    $d1"
git apply -R $src/patch.diff
d2=$(cargo test --offline --lib seeded_demo 2>&1 | grep -E "^test result:" | head -1); echo "demo without change: $d2"
cd /; git -C /repo worktree remove --force $wt
