#!/bin/bash
# Like try_seeded.sh but in a scratch copy (${MH:-/tmp/mh}: worktree + harness copy), so /repo is not touched and registered
# checks can run at the same time.  usage: try_seeded_alt.sh <seeded dir> <property> [quick|thorough]   (not for C19 / C01-thorough)
d=$1; p=$2; tier=${3:-quick}
cd ${MH:-/tmp/mh}/repo && git checkout -q -- . && git apply /verif/seeded/$d/patch.diff || { echo "patch does not apply"; exit 3; }
rsync -a --exclude target --exclude Cargo.toml /verif/harness/ ${MH:-/tmp/mh}/harness/
cd ${MH:-/tmp/mh}/harness && cargo build --release --offline >${MH:-/tmp/mh}/build.log 2>&1 || { tail -5 ${MH:-/tmp/mh}/build.log; exit 3; }
start=$(date +%s)
VERIF_REPO=${MH:-/tmp/mh}/repo VERIF_OUT_DIR=${MH:-/tmp/mh}/out ./target/release/verif $p --tier $tier > ${MH:-/tmp/mh}/try_$d.log 2>&1; rc=$?
echo "$d $p $tier exit=$rc wall=$(( $(date +%s) - start ))s :: $(grep -E '^  failure' ${MH:-/tmp/mh}/try_$d.log | head -1 | cut -c1-260)"
cd ${MH:-/tmp/mh}/repo && git checkout -q -- .
