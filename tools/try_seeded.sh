#!/bin/bash
# usage: try_seeded.sh <seeded dir name> <property> [quick|thorough]   applies the seeded change to /repo, runs the check, ALWAYS restores /repo
d=$1; p=$2; tier=${3:-quick}
[ -z "$(git -C /repo status --porcelain)" ] || { echo "/repo not clean"; exit 3; }
git -C /repo apply /verif/seeded/$d/patch.diff || { echo "patch does not apply"; exit 3; }
trap 'git -C /repo checkout -- .' EXIT
cd /verif && start=$(date +%s) && ./check $p $tier > /tmp/try_$d.log 2>&1; rc=$?
echo "$d $p $tier exit=$rc wall=$(( $(date +%s) - start ))s :: $(grep -E '^  failure' /tmp/try_$d.log | head -1 | cut -c1-260)"
