#!/bin/bash
# usage: process_wave.sh <wave> [ids...]   for every delivery /tmp/wt<wave>-out/Cxx: import into /verif/seeded/Cxx-<wave>, verify it in the
# agent's own worktree, and run the property's quick tier against it in the scratch copy (/tmp/mh).  Results: /tmp/wave<wave>.log
w=$1; shift
ids=${@:-$(seq -f "C%02g" 1 19)}
for id in $ids; do
  out=/tmp/wt$w-out/$id; dst=/verif/seeded/$id-$w
  [ -f $out/patch.diff ] && [ -f $out/seeded_demo.rs ] || { echo "$id: no delivery yet"; continue; }
  grep -q "^$id done" /tmp/wave$w.log 2>/dev/null && continue
  mkdir -p $dst && cp $out/patch.diff $out/seeded_demo.rs $dst/ && cp $out/notes.md $dst/ 2>/dev/null
  { echo "== $id"; /verif/tools/verify_seeded_fast.sh $dst /tmp/wt$w/$id 2>&1
    if [ $id != C19 ]; then /verif/tools/try_seeded_alt.sh $id-$w $id quick 2>&1; fi
    echo "$id done"; } >> /tmp/wave$w.log
done
