#!/bin/bash
# Runs every kept seeded change against the quick tier of its own property in the scratch copy (/tmp/mh) and prints one
# line per change.  C19 changes use a scratch build of the fuzz crate.  Does not touch /repo.
cd /verif
for d in $(ls seeded | sort); do
  p=${d%%-*}
  if [ "$p" = "C19" ]; then bash tools/try_seeded_alt_c19.sh $d quick; else bash tools/try_seeded_alt.sh $d $p quick; fi
done
