#!/usr/bin/env python3
"""Hand-made sensitivity mutants (DESIGN.md 2.9 / section 3).  Each is applied to /repo's working tree,
the 43 tests are run, the property's quick check is run, and the tree is restored (always).
usage: mutants.py [name-substring ...]        results -> /verif/tools/mutants_result.json
"""
import json, subprocess, sys, os, time

import os as _os
ALT = _os.environ.get('MUT_ALT') == '1'   # work in the scratch copy /tmp/mh (worktree + harness copy) instead of /repo
R = '/tmp/mh/repo/' if ALT else '/repo/'
M = [
 # (name, property, file, old, new)
 ("c01-kp-add-arm-removed", "C01", "src/keycodes.rs", "        VC_KP_ADD => '+',\n", ""),
 ("c01-reph-unwrap-again", "C01", "src/fixed/method.rs", "let right_most = buf_chars.next().unwrap_or_default();", "let right_most = buf_chars.next().unwrap();"),
 ("c01-commit-index-before-test", "C01", "src/phonetic/method.rs", "        if self.prev_selection != index && config.get_phonetic_suggestion() {", "        let _probe = self.suggestion.suggestions[index].to_string().len();\n        if self.prev_selection != index && config.get_phonetic_suggestion() {"),
 ("c01-suffix-slice-off-by-one", "C01", "src/phonetic/suggestion.rs", "let key = &string.word()[..len - test.len()];", "let key = &string.word()[..len - test.len() - usize::from(len > 11)];"),
 ("c01-kp-add-arm-removed@C02", "C02", "src/keycodes.rs", "        VC_KP_ADD => '+',\n", ""),
 ("c01-suffix-slice-off-by-one@C09", "C09", "src/phonetic/suggestion.rs", "let key = &string.word()[..len - test.len()];", "let key = &string.word()[..len - test.len() - usize::from(len > 11)];"),
 ("c02-aux-before-push", "C02", "src/phonetic/method.rs", "            Suggestion::new(\n                self.buffer.clone(),", "            Suggestion::new(\n                self.buffer[..self.buffer.len() - usize::from(self.buffer.len() > 6)].to_string(),"),
 ("c02-position-default-len", "C02", "src/phonetic/suggestion.rs", "            .position(|item| *item.to_string() == selected)\n            .unwrap_or_default()", "            .position(|item| *item.to_string() == selected)\n            .unwrap_or(if selected.len() > 30 { self.suggestions.len() } else { 0 })"),
 ("c03-include-colon-true", "C03", "src/phonetic/suggestion.rs", "        let string = SplittedString::split(term, false);\n\n        self.phonetic.convert_into(string.word(), &mut self.pbuffer);", "        let string = SplittedString::split(term, true);\n\n        self.phonetic.convert_into(string.word(), &mut self.pbuffer);"),
 ("c03-whole-term-conversion", "C03", "src/phonetic/suggestion.rs", "        format!(\n            \"{}{}{}\",\n            self.phonetic.convert(string.preceding()),\n            self.pbuffer,\n            self.phonetic.convert(string.trailing())\n        )", "        if string.trailing().len() == 2 { return self.phonetic.convert(term); }\n        format!(\n            \"{}{}{}\",\n            self.phonetic.convert(string.preceding()),\n            self.pbuffer,\n            self.phonetic.convert(string.trailing())\n        )"),
 ("c03-swap-keycode-chars", "C03", "src/keycodes.rs", "        VC_BRACE_LEFT => '{',\n        VC_BRACE_RIGHT => '}',", "        VC_BRACE_LEFT => '}',\n        VC_BRACE_RIGHT => '{',"),
 ("c04-swap-rows", "C04", "src/fixed/layout.rs", "(VC_LESS, modifier) => self.layout_get_value(\"Less\", modifier),", "(VC_LESS, modifier) => self.layout_get_value(\"Greater\", modifier),"),
 ("c04-shift-selects-altgr", "C04", "src/fixed/layout.rs", "            (_, false) => Normal,\n            (_, true) => AltGr,", "            (true, false) => Normal,\n            (false, false) => Normal,\n            (_, true) => AltGr,"),
 ("c04-shift-altgr-normal", "C04", "src/fixed/layout.rs", "            (_, false) => Normal,\n            (_, true) => AltGr,", "            (_, false) => Normal,\n            (true, true) => Normal,\n            (false, true) => AltGr,"),
 ("c04-numpad-ignores-option", "C04", "src/fixed/layout.rs", "            .filter(|s| fixed_numpad && !s.is_empty())", "            .filter(|s| (fixed_numpad || key == \"NumDecimal\") && !s.is_empty())"),
 ("c05-memo-case-alias", "C05", "src/phonetic/suggestion.rs", "        if !self.cache.contains_key(string.word()) {", "        if !self.cache.contains_key(string.word()) && !self.cache.contains_key(&string.word().to_lowercase()) {"),
 ("c05-skip-clear", "C05", "src/phonetic/suggestion.rs", "        self.suggestions.clear();\n\n        self.phonetic.convert_into(string.word(), &mut self.pbuffer);", "        if string.word().len() != 1 { self.suggestions.clear(); }\n\n        self.phonetic.convert_into(string.word(), &mut self.pbuffer);"),
 ("c06-fixed-finish-keeps-pending", "C06", "src/fixed/method.rs", "    fn finish_input_session(&mut self) {\n        self.buffer.clear();\n        self.typed.clear();\n        self.pending_kar = None;", "    fn finish_input_session(&mut self) {\n        self.buffer.clear();\n        self.typed.clear();"),
 ("c06-fixed-commit-keeps-typed", "C06", "src/fixed/method.rs", "    fn candidate_committed(&mut self, _index: usize, _: &Config) {\n        self.buffer.clear();\n        self.typed.clear();", "    fn candidate_committed(&mut self, _index: usize, _: &Config) {\n        self.buffer.clear();"),
 ("c06-flag-from-buffer-only", "C06", "src/fixed/method.rs", "        !self.buffer.is_empty() || self.pending_kar.is_some()", "        !self.buffer.is_empty()"),
 ("c07-bundled-before-user", "C07", "src/phonetic/suggestion.rs", "        self.user_autocorrect\n            .get(term)\n            .map(String::as_str)\n            .or_else(|| data.search_corrected(term))", "        data.search_corrected(term)\n            .or_else(|| self.user_autocorrect.get(term).map(String::as_str))"),
 ("c07-english-rank-1", "C07", "src/phonetic/suggestion.rs", ".push(Rank::last_ranked(term.to_string(), 3));", ".push(Rank::last_ranked(term.to_string(), 1));"),
 ("c07-distance-vs-typed", "C07", "src/phonetic/suggestion.rs", "            self.include_from_dictionary(string.word(), &phonetic, &mut suggestions, data);", "            self.include_from_dictionary(string.word(), string.word(), &mut suggestions, data);"),
 ("c07-other-vs-emoji-flip", "C07", "src/suggestion.rs", "            (Rank::Other(_, s), Rank::Emoji(_, e)) => s.cmp(e),", "            (Rank::Other(_, s), Rank::Emoji(_, e)) => e.cmp(s),"),
 ("c08-loop-from-2", "C08", "src/phonetic/suggestion.rs", "            for i in 1..middle.len() {", "            for i in 2..middle.len() {"),
 ("c08-swap-khanda-anusvar", "C08", "src/phonetic/suggestion.rs", "                                'ৎ' => {\n                                    // Replace ৎ with ত\n                                    word.pop();\n                                    word.push('ত');", "                                'ৎ' => {\n                                    // Replace ৎ with ত\n                                    word.pop();\n                                    word.push('ঙ');"),
 ("c08-kar-instead-of-vowel", "C08", "src/phonetic/suggestion.rs", "                            match base_rmc {\n                                ch if ch.is_vowel() && suffix_lmc.is_kar() => {", "                            match base_rmc {\n                                ch if ch.is_kar() && suffix_lmc.is_kar() => {"),
 ("c08-len-gt-3", "C08", "src/phonetic/suggestion.rs", "        if middle.len() > 2 {", "        if middle.len() > 3 {"),
 ("c09-store-under-colon-split", "C09", "src/phonetic/method.rs", "                SplittedString::split(&self.buffer, false)\n                    .word()\n                    .to_string(),", "                SplittedString::split(&self.buffer, true)\n                    .word()\n                    .to_string(),"),
 ("c09-skip-write-when-many", "C09", "src/phonetic/method.rs", "            write(\n                config.get_user_phonetic_selection_data(),", "            if self.selections.len() < 3 { return self.buffer.clear(); }\n            write(\n                config.get_user_phonetic_selection_data(),"),
 ("c09-lookup-loop-short", "C09", "src/phonetic/suggestion.rs", "            for i in 1..len {\n                let test = &string.word()[len - i..len];", "            for i in 1..len - 1 {\n                let test = &string.word()[len - i..len];"),
 ("c10-unwrap-selection-load", "C10", "src/phonetic/method.rs", "            serde_json::from_slice(&file).unwrap_or_default()\n        } else {", "            if file.is_empty() { Default::default() } else { serde_json::from_slice(&file).unwrap() }\n        } else {"),
 ("c10-unwrap-write", "C10", "src/phonetic/method.rs", "            .ok();\n        }\n\n        // Reset to defaults", "            .unwrap();\n        }\n\n        // Reset to defaults"),
 ("c10-unwrap-update-reload", "C10", "src/phonetic/method.rs", "                self.suggestion.user_autocorrect =\n                    serde_json::from_slice(&read(&mut file)).unwrap_or_default();", "                self.suggestion.user_autocorrect =\n                    serde_json::from_slice(&read(&mut file)).unwrap();"),
 ("c11-no-memo-clear", "C11", "src/phonetic/method.rs", "                // The cached suggestions may contain the old entries.\n                self.suggestion.cache.clear();", "                // The cached suggestions may contain the old entries."),
 ("c11-modified-ge", "C11", "src/phonetic/method.rs", "            if modified > self.modified {", "            if modified > self.modified + std::time::Duration::from_secs(15) {"),
 ("c11-forget-config-update", "C11", "src/context.rs", "        // Update the config\n        self.config = config.to_owned();", "        // Update the config\n        if self.config.layout_changed(config) || !config.is_phonetic() { self.config = config.to_owned(); }"),
 ("c12-marks-without-exclaim", "C12", "src/fixed/method.rs", "const MARKS: &str = \"`~!@#$%^+*-_=+\\\\|\\\"/;:,./?><()[]{}\";", "const MARKS: &str = \"`~@#$%^+*-_=+\\\\|\\\"/;:,./?><()[]{}\";"),
 ("c12-rri-not-ligature", "C12", "src/fixed/chars.rs", "    c == B_U_KAR || c == B_UU_KAR || c == B_RRI_KAR", "    c == B_U_KAR || c == B_UU_KAR"),
 ("c12-chandra-before-vowel", "C12", "src/fixed/method.rs", "                } else if config.get_fixed_automatic_chandra() && rmc == B_CHANDRA {", "                } else if config.get_fixed_automatic_chandra() && rmc == B_CHANDRA && character != B_OU_KAR {"),
 ("c13-no-hasanta-reset", "C13", "src/fixed/method.rs", "                    constant = true;\n                    hasanta = false; // reset", "                    constant = true;"),
 ("c13-chandra-any-index", "C13", "src/fixed/method.rs", "                    if index == 0 || (chandra && index == 1) {", "                    if index == 0 || chandra {"),
 ("c14-pending-lost-over-rofola", "C14", "src/fixed/method.rs", "                if let Some(B_HASANTA) = value.chars().last() {", "                if let Some(B_HASANTA) = value.chars().next() {"),
 ("c14-fuse-even-when-off", "C14", "src/fixed/method.rs", "                    } else if rmc == B_E_KAR && (character == B_AA_KAR || character == B_OU_KAR) {", "                    } else if rmc == B_E_KAR && (character == B_AA_KAR) {"),
 ("c15-truncate-10", "C15", "src/fixed/method.rs", "            self.suggestions.truncate(9);", "            self.suggestions.truncate(10);"),
 ("c15-no-dedup", "C15", "src/fixed/method.rs", "        self.suggestions.dedup();", ""),
 ("c15-regex-n-plus-1", "C15", "src/fixed/search.rs", "        2..=3 => 1,", "        2..=3 => 2,"),
 ("c15-wrong-table-for-letter", "C15", "src/fixed/search.rs", "        'ঠ' => \"tth\",", "        'ঠ' => \"tt\","),
 ("c16-english-unmasked", "C16", "src/config.rs", "        self.include_english && !self.ansi", "        self.include_english"),
 ("c16-fixed-emoji-under-ansi", "C16", "src/fixed/method.rs", "        if !config.get_ansi_encoding() {\n            // Emoji addition with Emoticons.", "        if !config.get_ansi_encoding() || word.chars().count() == 2 {\n            // Emoji addition with Emoticons."),
 ("c16-convert-only-index-0", "C16", "src/suggestion.rs", "            } if *ansi => unicode_to_bijoy(&suggestions[index]),", "            } if *ansi && index < 3 => unicode_to_bijoy(&suggestions[index]),"),
 ("c17-curl-punctuation-only", "C17", "src/utility.rs", "    if splitted.word().is_empty() {\n        return splitted;\n    }", "    if splitted.word().is_empty() && splitted.preceding().len() < 2 {\n        return splitted;\n    }"),
 ("c17-trailing-open-quote", "C17", "src/utility.rs", "            '\"' => {\n                trailing.push('”');", "            '\"' => {\n                trailing.push(if trailing.is_empty() { '”' } else { '“' });"),
 ("c18-emoticon-on-word", "C18", "src/phonetic/suggestion.rs", "            if let Some(emoji) = data.get_emoji_by_emoticon(term) {", "            if let Some(emoji) = data.get_emoji_by_emoticon(if term.len() > 3 { string.word() } else { term }) {"),
 ("c18-fixed-emoji-wrapped-twice", "C18", "src/fixed/method.rs", "                    Rank::emoji_ranked(format!(\"{}{}{}\", first_part, s, last_part), r)", "                    Rank::emoji_ranked(format!(\"{}{}{}{}\", first_part, s, last_part, if r > 2 { last_part } else { \"\" }), r)"),
 ("c18-sort-unstable-again", "C18", "src/fixed/method.rs", "        self.suggestions.sort();", "        self.suggestions.sort_unstable();"),
 ("c19-string-free-forget", "C19", "src/ffi.rs", "        drop(CString::from_raw(ptr));", "        std::mem::forget(CString::from_raw(ptr));"),
 ("c19-aux-returns-lonely-on-list", "C19", "src/ffi.rs", "    unsafe { CString::from_vec_unchecked(suggestion.get_auxiliary_text().into()).into_raw() }", "    unsafe { CString::from_vec_unchecked(suggestion.get_auxiliary_text().trim_end_matches('`').into()).into_raw() }"),
]

def sh(cmd, timeout=1800):
    p = subprocess.run(cmd, shell=True, capture_output=True, text=True, timeout=timeout)
    return p.returncode, p.stdout + p.stderr

def main():
    sel = sys.argv[1:]
    out_path = '/verif/tools/mutants_result.json'
    if _os.environ.get('MUT_OUT'):
        out_path = _os.environ['MUT_OUT']
    results = json.load(open(out_path)) if os.path.exists(out_path) else {}
    assert sh(f'git -C {R} status --porcelain')[1].strip() == '', 'repo not clean'
    if ALT:
        sh('rsync -a --exclude target --exclude Cargo.toml /verif/harness/ /tmp/mh/harness/')
    for name, prop, f, old, new in M:
        if sel and not any(s in name for s in sel):
            continue
        src = open(R + f, encoding='utf-8').read()
        if src.count(old) != 1:
            print(f'{name}: APPLY FAILED (count {src.count(old)})'); results[name] = {'property': prop, 'applied': False}; continue
        try:
            open(R + f, 'w', encoding='utf-8').write(src.replace(old, new))
            rc, o = sh(f'cd {R} && cargo test --workspace --no-fail-fast --offline 2>&1 | grep -E "^test result: .* passed|^error" | head -1')
            tests = o.strip()
            t0 = time.time()
            if ALT:
                rc, o = sh(f'cd /tmp/mh/harness && cargo build --release --offline >/dev/null 2>&1; VERIF_REPO=/tmp/mh/repo VERIF_OUT_DIR=/tmp/mh/out ./target/release/verif {prop} --tier quick')
            else:
                rc, o = sh(f'cd /verif && ./check {prop} quick')
            lines = [l for l in o.splitlines() if l.startswith('  failure') or l.startswith('VIOLATION') or 'INCONCLUSIVE' in l]
            results[name] = {'property': prop, 'applied': True, 'tests': tests, 'check_exit': rc, 'wall_s': round(time.time() - t0, 1), 'first': (lines[0][:300] if lines else '')}
            print(f"{name}: tests[{tests[13:40]}] check exit={rc} {results[name]['first'][:160]}")
        finally:
            sh(f'git -C {R} checkout -- .')
        json.dump(results, open(out_path, 'w'), indent=1, ensure_ascii=False)
    sh(f'git -C {R} checkout -- .')

main()
