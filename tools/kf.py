#!/usr/bin/env python3
"""usage: kf.py fixed <property> <grep-in-commit-subject> <what>   |  kf.py known <property> <id> <kind> <what> [signature]"""
import json,sys,subprocess
p='/verif/known_findings.json'; d=json.load(open(p))
if sys.argv[1]=='fixed':
    _,_,prop,pat,what=sys.argv
    sha=subprocess.check_output(['git','-C','/repo','log','--format=%h','--grep',pat]).decode().split()[0]
    d['findings'].append({"status":"fixed","property":prop,"commit":sha,"what":what})
else:
    prop,fid,kind,what=sys.argv[2:6]
    e={"status":"known","property":prop,"id":fid,"kind":kind,"what":what}
    if len(sys.argv)>6: e["signature"]=sys.argv[6]
    d['findings'].append(e)
json.dump(d,open(p,'w'),indent=1,ensure_ascii=False); print('ok',len(d['findings']))
