#!/usr/bin/env python3
"""usage: make_seed_tasks.py <wave number>
Writes /tmp/wt-props/TASK<wave>_Cxx.txt (the complete brief of one independent sub-agent per property) and
/tmp/wt-props/Cxx.json (the property record only).  Nothing from /verif except the property record and one line per
earlier seeded change (its "needs_to_manifest", so that the agent does not repeat it) goes into the brief.
Worktrees: /tmp/wt<wave>/Cxx, deliveries: /tmp/wt<wave>-out/Cxx (created by the caller)."""
import json, glob, os, sys

wave = sys.argv[1]
os.makedirs('/tmp/wt-props', exist_ok=True)

PROMPT = """You are helping to evaluate a verification framework by "seeding" a realistic defect into a Rust library. You work ONLY inside your own scratch git worktree: {WT} (a checkout of the library OpenBangla/riti: a Bengali input-method engine with an Avro-phonetic method and fixed-layout methods, dictionary / suffix / emoji suggestion ranking, exposed through a C ABI; ~5 kLoC in src/). Do not read or write anything under /repo or /verif, and do not use the network (there is none; build with `cargo ... --offline`).

Here is ONE semantic property the library is supposed to satisfy (JSON record, file {PROP}):

{PROPTEXT}

Your task: make ONE small, realistic change to the library's source in {WT} (the kind of slip a maintainer could make in a refactoring, optimisation or feature tweak: an off-by-one, a forgotten reset, a swapped condition, a missing guard, a cache not invalidated, a wrong branch order, two sites that each look fine alone ...) such that:
 1. the library still compiles and `cd {WT} && cargo test --workspace --no-fail-fast --offline` still passes completely (43 tests) WITHOUT editing any existing test;
 2. the change BREAKS the property above for at least one input / history / configuration in the property's own domain (respect the preconditions written in the statement and quantifier - an "in-contract" violation, not a misuse of the API);
 3. the violation needs something SPECIFIC to manifest - a particular multi-step sequence of operations, an unusual input, a particular option combination, a fault at a particular point, or two cooperating sites - NOT something that ordinary use (typing a few common words) would expose at once. Subtle is better than blatant; but it must be a real violation of the statement, not a matter of taste.
 4. do not add new dependencies, do not touch Cargo.toml/Cargo.lock, data files or existing tests; keep the diff small (typically 1-15 changed lines in src/).

Then write a DEMONSTRATION that fails with your change and passes without it. Easiest form: a new unit-test file `src/seeded_demo.rs` (plus the single line `#[cfg(test)] mod seeded_demo;` appended to src/lib.rs) that drives the library the way a front-end does (RitiContext::new_with_config, get_suggestion_for_key, backspace_event, candidate_committed, finish_input_session, update_engine; configs can be built inside the crate with the pub(crate) setters or with crate::config::get_phonetic_method_defaults()/get_fixed_method_defaults(); key codes are in crate::keycodes) and asserts what the property says. If the property is about user files, point XDG_DATA_HOME at a fresh temporary directory under /tmp inside the test BEFORE creating the Config. Check both directions yourself: `git stash`-free procedure: run the demo test with your change (must FAIL), then temporarily revert only your src change (keep the demo), run it again (must PASS), then re-apply your change.


IMPORTANT - {NPREV} earlier attempts by other people already seeded the following defects for this property; you must choose a clearly DIFFERENT mechanism and code site, and where the property has several clauses a clause (or a part of its stated domain) they did not touch. Assume the property is being checked by someone who types many random and dictionary-derived words under all option combinations, enumerates short key sequences exhaustively (up to 5 keys incl. backspace under all helper settings), keeps long-lived contexts alive for hundreds of words, commits every candidate index, toggles every single option by update-engine, edits/removes/restores the user files under a live context, types very long words and words with very long candidate lists, learns choices for the word parts of emoticons, presses keys the layout refuses, keeps the configuration object across update-engine calls, lets user files' time stamps go backwards, puts emoji / non-UTF-8 / empty values into the user's auto-correct list, presses the same key on both sides of an update-engine, changes one option at a time by update-engine between two words (also with user files present), presses every ordered pair of layout keys, keeps a healthy user file next to a damaged one, types every consonant of the layout in conjuncts, erases words typed with more keys than code points, keeps one context alive through thousands of distinct words, types every emoticon as raw keys in fixed layouts, types the same text on both sides of every option switch with every way of ending the word, enumerates all three-key sequences over the whole layout, learns every candidate index before typing suffixed or repeated texts, damages user files between two commits of one context, leaves the phonetic method for a fixed layout and comes back, keeps configuration objects and calls their setters in every order, types the same characters through number-pad key codes, rewrites layout files between two loads, puts values that mix scripts / control characters / digits-only keys into the user's list, types the longest dictionary words, throws words away by ctrl-backspace right before an option switch, keeps two live contexts over one user directory, types every punctuation mark behind a learned choice, writes user files with byte order marks, erases and continues behind quotes in fixed layouts, runs coverage-guided fuzzing of byte-coded call histories against contexts created at every word boundary, and compares against independent reference models and freshly created contexts - so a defect that shows on a large fraction of inputs is worthless; aim for one that needs a conjunction of two or three specific conditions (a particular option pair AND a particular character class AND a particular position, a particular sequence of API calls incl. update-engine / restart / backspace / commit at a particular moment, a data-dependent corner of the bundled JSON tables, a value exactly at a limit).
--- earlier attempts (do not repeat) ---
{PREV}
--- end ---

Contract reminder: update-engine is only ever called while the context is idle (no composition in progress), commit only with an index inside the most recently returned list, and the selection byte passed with a key is valid for the list shown before. A violation that needs a call outside these rules does not count.

Deliver these files in {OUT}/ (create them; nothing else counts):
 - patch.diff : output of `git -C {WT} diff -- src ':!src/seeded_demo.rs' ':!src/lib.rs'` i.e. ONLY the defect (if your defect itself must touch src/lib.rs, say so in notes.md and include it);
 - seeded_demo.rs : the demonstration test file (copy of src/seeded_demo.rs);
 - notes.md : 5-15 lines: which clause of the property breaks, the exact input / sequence / configuration needed to see it, why the 43 existing tests still pass, why ordinary use would not expose it at once, and the commands you ran with their outcomes (tests with change: pass; demo with change: FAIL; demo without change: PASS).

Leave the worktree with your change and the demo applied. Be efficient: read the files named in the property's "anchors" first. When you are done, reply with a 3-line summary (what you changed, what it needs to manifest, outcome of the three runs).
"""

props = {}
for line in open('/verif/properties.jsonl'):
    d = json.loads(line)
    props[d['id']] = d

for pid, rec in sorted(props.items()):
    proptext = json.dumps(rec, ensure_ascii=False, indent=1)
    open(f'/tmp/wt-props/{pid}.json', 'w').write(proptext + '\n')
    prev = []
    touched = {}
    for d in sorted(glob.glob(f'/verif/seeded/{pid}*')):
        m = json.load(open(d + '/meta.json'))
        prev.append('- ' + m['needs_to_manifest'])
        try:
            for line in open(d + '/patch.diff'):
                if line.startswith('+++ b/'):
                    f = line[6:].strip()
                    touched[f] = touched.get(f, 0) + 1
        except OSError:
            pass
    if touched:
        prev.append('(source files the earlier attempts changed: ' + ', '.join(f'{f} x{n}' for f, n in sorted(touched.items(), key=lambda x: -x[1])) + ' - a site in a file or function that is NOT among the most used ones is preferred, as is a clause of the statement the list above does not touch)')
    t = (PROMPT.replace('{WT}', f'/tmp/wt{wave}/{pid}').replace('{OUT}', f'/tmp/wt{wave}-out/{pid}')
         .replace('{PROP}', f'/tmp/wt-props/{pid}.json').replace('{PROPTEXT}', proptext)
         .replace('{NPREV}', str(len(prev))).replace('{PREV}', '\n'.join(prev)))
    open(f'/tmp/wt-props/TASK{wave}_{pid}.txt', 'w').write(t)
print('ok', len(props))
