#!/bin/bash
# usage: try_seeded_oracle.sh <seeded dir> <mode/property> [cases per shard]   the byte-coded parts ALONE (no directed parts) against a
# seeded change, in the scratch copy - measures what the generic byte-coded histories catch on their own
d=$1; p=$2; n=${3:-40}
cd ${MH:-/tmp/mh}/repo && git checkout -q -- . && git apply /verif/seeded/$d/patch.diff || { echo "patch does not apply"; exit 3; }
rsync -a --exclude target --exclude Cargo.toml /verif/harness/ ${MH:-/tmp/mh}/harness/
cd ${MH:-/tmp/mh}/harness && cargo build --release --offline >${MH:-/tmp/mh}/build.log 2>&1 || { tail -5 ${MH:-/tmp/mh}/build.log; exit 3; }
VERIF_ONLY_ORACLE=1 VERIF_ORACLE_CASES=$n VERIF_REPO=${MH:-/tmp/mh}/repo VERIF_OUT_DIR=${MH:-/tmp/mh}/out ./target/release/verif $p --tier quick > ${MH:-/tmp/mh}/tryo_$d.log 2>&1; rc=$?
echo "$d $p oracle-only($n) exit=$rc :: $(grep -E '^  failure' ${MH:-/tmp/mh}/tryo_$d.log | head -1 | cut -c1-200)"
cd ${MH:-/tmp/mh}/repo && git checkout -q -- .
